//! Compile-fail witnesses (and compiling twins) for the type-level clauses of the properties.
//! Nothing here is executed: `compile_fail` tests fail in rustc, twins are `no_run`.
//! Run with `cargo +nightly test --doc --offline` (stable ignores the error codes).

/// C04: a byte slice is not a string — `StringRegion` has no `Push<&[u8]>`.
/// ```compile_fail,E0277
/// use flatcontainer::{Push, StringRegion};
/// let mut r = <StringRegion>::default();
/// let bytes: &[u8] = b"\xff\xfe";
/// let _ = r.push(bytes);
/// ```
pub mod c04_push_byte_slice {}

/// C04 twin: the same program with a `&str` compiles.
/// ```no_run
/// use flatcontainer::{Push, StringRegion};
/// let mut r = <StringRegion>::default();
/// let s: &str = "ok";
/// let _ = r.push(s);
/// ```
pub mod c04_push_byte_slice_twin {}

/// C04: `Vec<u8>` cannot be pushed into a string region.
/// ```compile_fail,E0277
/// use flatcontainer::{Push, StringRegion};
/// let mut r = <StringRegion>::default();
/// let _ = r.push(vec![0xffu8, 0xfe]);
/// ```
pub mod c04_push_byte_vec {}

/// C04 twin: `String` can.
/// ```no_run
/// use flatcontainer::{Push, StringRegion};
/// let mut r = <StringRegion>::default();
/// let _ = r.push(String::from("ok"));
/// ```
pub mod c04_push_byte_vec_twin {}

/// C04: `&[u8; 3]` cannot be pushed into a string region.
/// ```compile_fail,E0277
/// use flatcontainer::{Push, StringRegion};
/// let mut r = <StringRegion>::default();
/// let _ = r.push(&[0xffu8, 0xfe, 0xfd]);
/// ```
pub mod c04_push_byte_array {}

/// C04 twin: `&String` can.
/// ```no_run
/// use flatcontainer::{Push, StringRegion};
/// let mut r = <StringRegion>::default();
/// let s = String::from("ok");
/// let _ = r.push(&s);
/// ```
pub mod c04_push_byte_array_twin {}

/// C04: an iterator of bytes wrapped in `PushIter` cannot be pushed into a string region.
/// ```compile_fail,E0277
/// use flatcontainer::{Push, PushIter, StringRegion};
/// let mut r = <StringRegion>::default();
/// let _ = r.push(PushIter([0xffu8, 0xfe]));
/// ```
pub mod c04_push_byte_iter {}

/// C04: `&&[u8]` cannot be pushed into a string region.
/// ```compile_fail,E0277
/// use flatcontainer::{Push, StringRegion};
/// let mut r = <StringRegion>::default();
/// let bytes: &[u8] = b"\xff";
/// let _ = r.push(&bytes);
/// ```
pub mod c04_push_byte_ref_ref {}

/// C04 twin: `&&str` can.
/// ```no_run
/// use flatcontainer::{Push, StringRegion};
/// let mut r = <StringRegion>::default();
/// let s: &str = "ok";
/// let _ = r.push(&s);
/// ```
pub mod c04_push_byte_ref_ref_twin {}

/// C04: the byte region of a `StringRegion` is private — no user code can write it.
/// ```compile_fail,E0616
/// use flatcontainer::StringRegion;
/// let mut r = <StringRegion>::default();
/// let _ = &mut r.inner;
/// ```
pub mod c04_inner_private {}

/// C04 twin: the region itself is usable.
/// ```no_run
/// use flatcontainer::{Region, StringRegion};
/// let mut r = <StringRegion>::default();
/// r.clear();
/// ```
pub mod c04_inner_private_twin {}

/// C02: storage of a slice region is private — no safe API hands out `&mut` into it.
/// ```compile_fail,E0616
/// use flatcontainer::{MirrorRegion, SliceRegion};
/// let mut r = <SliceRegion<MirrorRegion<u8>>>::default();
/// let _ = &mut r.slices;
/// ```
pub mod c02_slices_private {}

/// C02: `index()` only hands out shared data: a read item of an owned region is `&[T]`, not `&mut [T]`.
/// ```compile_fail,E0308
/// use flatcontainer::{OwnedRegion, Push, Region};
/// let mut r = <OwnedRegion<u8>>::default();
/// let i = r.push(&[1u8, 2][..]);
/// let _m: &mut [u8] = r.index(i);
/// ```
pub mod c02_index_is_shared {}

/// C02 twin: reading through a shared slice compiles.
/// ```no_run
/// use flatcontainer::{OwnedRegion, Push, Region};
/// let mut r = <OwnedRegion<u8>>::default();
/// let i = r.push(&[1u8, 2][..]);
/// let _m: &[u8] = r.index(i);
/// ```
pub mod c02_index_is_shared_twin {}

/// C03: the index container of a `FlatStack` is private: only its own methods maintain the pairing.
/// ```compile_fail,E0616
/// use flatcontainer::{FlatStack, MirrorRegion};
/// let mut s = FlatStack::<MirrorRegion<u8>>::default();
/// s.indices.clear();
/// ```
pub mod c03_indices_private {}

/// C03: the region of a `FlatStack` is private.
/// ```compile_fail,E0616
/// use flatcontainer::{FlatStack, MirrorRegion, Region};
/// let mut s = FlatStack::<MirrorRegion<u8>>::default();
/// s.region.clear();
/// ```
pub mod c03_region_private {}

/// C03 twin: clearing through the API compiles.
/// ```no_run
/// use flatcontainer::{FlatStack, MirrorRegion};
/// let mut s = FlatStack::<MirrorRegion<u8>>::default();
/// s.clear();
/// ```
pub mod c03_private_twin {}

/// C16: with the `serde` feature an index type must be serialisable: a `Copy` type without
/// serde impls is not an `Index`, so no region with an untransportable index can be written.
/// ```compile_fail,E0277
/// #[derive(Clone, Copy)]
/// struct Opaque(u8);
/// fn assert_index<T: flatcontainer::Index>() {}
/// assert_index::<Opaque>();
/// ```
pub mod c16_index_requires_serde {}

/// C16 twin: `usize` is an `Index`.
/// ```no_run
/// fn assert_index<T: flatcontainer::Index>() {}
/// assert_index::<usize>();
/// assert_index::<(usize, usize)>();
/// assert_index::<Option<u8>>();
/// ```
pub mod c16_index_requires_serde_twin {}
