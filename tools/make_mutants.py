#!/usr/bin/env python3
"""Generates /verif/mutants/*.patch (one-hunk breakages of /repo, Appendix A of DESIGN.md) from
the table below, against /repo's current HEAD.  Each mutant compiles and passes the 64 tests
(checked by tools/run_mutants.py --verify-tests).  The file name carries the properties whose
check must fire: M08_c03_...patch."""
import os
import subprocess
import sys
import tempfile
import shutil

REPO = "/repo"
OUT = "/verif/mutants"

M = []


def m(mid, props, file, old, new, note=""):
    M.append((mid, props, file, old, new, note))


# --- C01 / C20
m("M01", "c01", "src/impls/slice_owned.rs",
  """        let start = self.slices.len();
        self.slices.push_storage(&mut item);
        (start, self.slices.len())""",
  """        self.slices.push_storage(&mut item);
        (0, self.slices.len())""", "OwnedRegion Push<Vec<T>> returns (0, len)")
m("M02", "c01-c20", "src/impls/slice.rs",
  """                for item in slice.iter().map(IntoOwned::borrow_as) {
                    let index = self.inner.push(item);
                    self.slices.push(index);
                }""",
  """                for item in slice.iter().map(IntoOwned::borrow_as) {
                    let _index = self.inner.push(item);
                }""", "SliceRegion Push<ReadSlice> owned arm forgets slices.push")
m("M03", "c20", "src/impls/slice_owned.rs",
  """    fn push(&mut self, item: &Vec<T>) -> <OwnedRegion<T, S> as Region>::Index {
        self.push(item.as_slice())""",
  """    fn push(&mut self, item: &Vec<T>) -> <OwnedRegion<T, S> as Region>::Index {
        self.push(&item[..item.len() / 2 * 2])""", "forwards a truncated slice")
# --- C02 / C10
m("M04", "c02-c10", "src/impls/slice_owned.rs",
  """        I: Iterator<Item = &'b [T]> + Clone,
    {
        self.slices.reserve(items.map(<[T]>::len).sum());""",
  """        I: Iterator<Item = &'b [T]> + Clone,
    {
        if self.slices.is_empty() {
            self.slices.clear();
        }
        self.slices.reserve(items.map(<[T]>::len).sum());""", "reserve_items clears storage")
m("M05", "c02-c05", "src/impls/index.rs",
  """        if self.chonk.is_empty() {
            if let Ok(smol) = index.try_into() {
                self.smol.push(smol);
            } else {
                self.chonk.push(index.try_into().unwrap());
            }
        } else {
            self.chonk.push(index.try_into().unwrap());
        }""",
  """        if let Ok(smol) = index.try_into() {
            self.smol.push(smol);
        } else {
            self.chonk.push(index.try_into().unwrap());
        }""", "IndexList::push drops the chonk.is_empty() freeze")
m("M06", "c02-c05", "src/impls/index.rs",
  """        if self.spilled.is_empty() {
            let inserted = self.strided.push(item);
            if !inserted {
                self.spilled.push(item);
            }
        } else {
            self.spilled.push(item);
        }""",
  """        let inserted = self.strided.push(item);
        if !inserted {
            self.spilled.push(item);
        }""", "IndexOptimized::push retries the stride after a spill")
m("M07", "c02-c06", "src/impls/huffman_container.rs",
  """    let initially = if start % 8 == 0 {
        (0, 0)
    } else {
        let bits = start % 8;
        let byte = bytes.pop().unwrap() >> (8 - bits);
        (byte, bits)
    };""",
  """    let initially = {
        let bits = start % 8;
        let byte = bytes.pop().unwrap_or(0) >> ((8 - bits) % 8);
        (byte, bits)
    };""", "push_symbols pops unconditionally")
# --- C03
m("M08", "c03", "src/lib.rs",
  """        for item in iter {
            self.indices.push(self.region.push(item));
        }""",
  """        for item in iter {
            let index = self.region.push(item);
            if self.indices.is_empty() || self.indices.len() % 1024 != 1023 {
                self.indices.push(index);
            }
        }""", "extend drops an index occasionally")
m("M09", "c03", "src/lib.rs",
  """    fn size_hint(&self) -> (usize, Option<usize>) {
        self.inner.size_hint()
    }
}

impl<'a, R, S> ExactSizeIterator for Iter""",
  """    fn size_hint(&self) -> (usize, Option<usize>) {
        (0, None)
    }
}

impl<'a, R, S> ExactSizeIterator for Iter""", "Iter::size_hint returns (0, None)")
# --- C04
m("M10", "c04", "src/impls/string.rs",
  """impl<R> Push<&&str> for StringRegion<R>""",
  """impl<R> Push<&[u8]> for StringRegion<R>
where
    for<'a> R: Region<ReadItem<'a> = &'a [u8]> + Push<&'a [u8]> + 'a,
{
    #[inline]
    fn push(&mut self, item: &[u8]) -> <StringRegion<R> as Region>::Index {
        self.inner.push(item)
    }
}

impl<R> Push<&&str> for StringRegion<R>""", "extra impl Push<&[u8]> for StringRegion")
m("M11", "c04", "src/impls/string.rs",
  """impl RegionPreference for String {""",
  """impl<R> StringRegion<R> {
    /// Access the inner region.
    pub fn inner_mut(&mut self) -> &mut R {
        &mut self.inner
    }
}

impl RegionPreference for String {""", "pub fn inner_mut")
m("M12", "c04", "src/impls/codec.rs",
  """impl<C: Codec, R> Push<&[u8]> for CodecRegion<C, R>""",
  """impl<C: Codec, R> CodecRegion<C, R>
where
    for<'a> R: Region<ReadItem<'a> = &'a [u8]> + 'a,
{
    /// Reads an item as a string.
    #[must_use]
    pub fn index_str(&self, index: R::Index) -> &str {
        // SAFETY: callers only push strings.
        unsafe { std::str::from_utf8_unchecked(self.index(index)) }
    }
}

impl<C: Codec, R> Push<&[u8]> for CodecRegion<C, R>""", "second from_utf8_unchecked")
# --- C05
m("M14", "c05", "src/impls/index.rs",
  """            Stride::Saturated(stride, count, reps) => {
                if item == *stride * (*count - 1) {
                    *reps += 1;
                    true
                } else {
                    false
                }
            }""",
  """            Stride::Saturated(stride, count, reps) => {
                *reps += 1;
                if item == *stride * (*count - 1) {
                    true
                } else {
                    false
                }
            }""", "Saturated arm bumps reps before comparing")
m("M15", "c05", "src/impls/index.rs",
  """    pub fn len(&self) -> usize {
        self.smol.len() + self.chonk.len()
    }""",
  """    pub fn len(&self) -> usize {
        self.smol.len().max(self.chonk.len())
    }""", "IndexList::len is not the sum")
m("M15b", "c05", "src/impls/index.rs",
  """        self.smol
            .next()
            .map(|x| x as usize)
            .or_else(|| self.chonk.next().map(|x| x as usize))""",
  """        self.chonk
            .next()
            .map(|x| x as usize)
            .or_else(|| self.smol.next().map(|x| x as usize))""", "IndexListIter yields chonk first")
# --- C06
m("M16", "c06", "src/impls/huffman_container.rs",
  """                        let (bits, code) = self.encode.get(symbol).unwrap();""",
  """                        let (bits, code) = self.encode.get(symbol).unwrap_or(&(1, 0));""",
  "Encoder::next substitutes a default code")
m("M17", "c06-c08", "src/impls/huffman_container.rs",
  """        match &mut self.inner {
            Ok(_) => self.inner = Err(Vec::default()),
            Err(vec) => vec.clear(),
        }
        self.stats.clear();""",
  """        match &mut self.inner {
            Ok((_, bytes, bits)) => {
                bytes.clear();
                *bits = 0;
            }
            Err(vec) => vec.clear(),
        }
        self.stats.clear();""", "clear keeps the Ok variant (old code table)")
# --- C07
m("M18", "c07", "src/impls/codec.rs",
  """                self.stats.1[tag_idx] |= 1 << (tag >> 2);""",
  """                self.stats.1[tag_idx] |= 1 << (tag >> 3);""", "bitmap recorded with a different shift")
m("M19", "c07", "src/impls/codec.rs",
  """                if (or >> shift) & 0x01 != 0 {
                    decode.push(None);
                } else if let Some((next_bytes, _count)) = mg.next() {""",
  """                if (or >> shift) & 0x01 != 0 && tag >= 128 {
                    decode.push(None);
                } else if let Some((next_bytes, _count)) = mg.next() {""", "tags assigned although the first byte was seen")
m("M20", "c07-c08", "src/impls/codec.rs",
  """    fn clear(&mut self) {
        self.inner.clear();
        self.codec = Default::default();
    }""",
  """    fn clear(&mut self) {
        self.inner.clear();
    }""", "CodecRegion::clear keeps the codec")
# --- C08 / C12
m("M21", "c08-c12", "src/impls/deduplicate.rs",
  """        self.last_index = 0;
        self.inner.clear();
        self.indices.clear();
        self.indices.push(0);""",
  """        self.last_index = 0;
        self.inner.clear();
        self.indices.clear();""", "ConsecutiveIndexPairs::clear forgets the seed")
m("M22", "c08-c11", "src/impls/deduplicate.rs",
  """    fn clear(&mut self) {
        self.inner.clear();
        self.last_index = None;
    }""",
  """    fn clear(&mut self) {
        self.inner.clear();
    }""", "CollapseSequence::clear keeps last_index")
m("M23", "c08", "src/impls/index.rs",
  """        self.spilled.clear();
        self.strided = Stride::default();""",
  """        self.spilled.clear();
        if !self.spilled.is_empty() {
            self.strided = Stride::default();
        }""", "IndexOptimized::clear keeps strided")
# --- C09
m("M24", "c09", "src/impls/deduplicate.rs",
  """        self.inner.clone_from(&source.inner);
        self.indices.clone_from(&source.indices);
        self.last_index = source.last_index;""",
  """        self.inner.clone_from(&source.inner);
        self.indices.clone_from(&source.indices);""", "ConsecutiveIndexPairs::clone_from forgets last_index")
m("M24b", "c09-c11", "src/impls/deduplicate.rs",
  """            inner: self.inner.clone(),
            last_index: self.last_index,
        }""",
  """            inner: self.inner.clone(),
            last_index: None,
        }""", "CollapseSequence::clone resets last_index")
# --- C10 / C11
m("M25", "c10-c11", "src/impls/deduplicate.rs",
  """        Self {
            inner: R::merge_regions(regions.map(|r| &r.inner)),
            last_index: None,
        }""",
  """        Self {
            last_index: regions.clone().last().and_then(|r| r.last_index),
            inner: R::merge_regions(regions.map(|r| &r.inner)),
        }""", "merge_regions inherits last_index")
m("M26", "c11-c02", "src/impls/deduplicate.rs",
  """            if item == self.inner.index(last_index) {
                return last_index;
            }""",
  """            if item == self.inner.index(last_index) {
                self.last_index = None;
                return last_index;
            }""", "collapse path writes")
# --- C14
m("M28", "c14", "src/impls/slice.rs",
  """        other.extend(self.iter().skip(r).map(IntoOwned::into_owned));
        other.truncate(self.len());
    }

    #[inline]
    fn borrow_as(owned: &'a Self::Owned) -> Self {
        Self(Err(owned.as_slice()))""",
  """        other.extend(self.iter().skip(r).map(IntoOwned::into_owned));
    }

    #[inline]
    fn borrow_as(owned: &'a Self::Owned) -> Self {
        Self(Err(owned.as_slice()))""", "ReadSlice::clone_onto without truncate")
m("M28b", "c14", "src/impls/option.rs",
  """            (None, target) => *target = None,""",
  """            (None, Some(_)) => {}
            (None, target) => *target = None,""", "Option::clone_onto leaves Some when source is None")
# --- C15
m("M29", "c15", "src/impls/huffman_container.rs",
  """                (Ok(decode1), Err(bytes2)) => decode1.partial_cmp(bytes2.iter()),""",
  """                (Ok(decode1), Err(bytes2)) => bytes2.iter().partial_cmp(decode1),""",
  "Wrapped::partial_cmp mixed arm with swapped operands")
m("M29b", "c15", "src/impls/slice.rs",
  """    fn cmp(&self, other: &Self) -> Ordering {
        self.iter().cmp(*other)""",
  """    fn cmp(&self, other: &Self) -> Ordering {
        other.iter().cmp(*self)""", "ReadSlice::cmp reversed")
# --- C16
m("M30", "c16-c11", "src/impls/deduplicate.rs",
  """    /// The index of the last pushed item.
    last_index: Option<R::Index>,""",
  """    /// The index of the last pushed item.
    #[cfg_attr(feature = "serde", serde(skip))]
    last_index: Option<R::Index>,""", "serde(skip) on last_index")
m("M30b", "c16", "src/impls/index.rs",
  """pub struct IndexOptimized<S = Vec<u32>, L = Vec<u64>> {
    strided: Stride,""",
  """pub struct IndexOptimized<S = Vec<u32>, L = Vec<u64>> {
    #[cfg_attr(feature = "serde", serde(default))]
    strided: Stride,""", "serde(default) on strided")
# --- C17
m("M31b", "c17", "src/impls/slice.rs",
  """        self.slices.reserve(items.clone().map(<[T]>::len).sum());
        self.inner.reserve_items(items.flatten());""",
  """        self.inner.reserve_items(items.flatten());""", "SliceRegion reserve_items forgets slices")
m("M32", "c17", "src/impls/slice_owned.rs",
  """        let start = self.slices.len();
        self.slices.push_storage(item);
        (start, self.slices.len())
    }
}

impl<T: Clone, S: Storage<T>> Push<&&[T]> for OwnedRegion<T, S>""",
  """        let start = self.slices.len();
        let owned = item.to_vec();
        self.slices.push_storage(owned.as_slice());
        (start, self.slices.len())
    }
}

impl<T: Clone, S: Storage<T>> Push<&&[T]> for OwnedRegion<T, S>""", "push builds a temporary Vec")
# --- C18
m("M33", "c18", "src/impls/result.rs",
  """        self.oks.heap_size(&mut callback);
        self.errs.heap_size(callback);""",
  """        self.oks.heap_size(callback);""", "ResultRegion::heap_size forgets errs")
m("M33b", "c18", "src/impls/vec.rs",
  """        callback(self.len() * size_of_t, self.capacity() * size_of_t);""",
  """        callback(self.capacity() * size_of_t, self.len() * size_of_t);""", "Vec region reports (capacity, len)")
# --- C19
m("M34", "c19", "src/impls/index.rs",
  """        if self.spilled.is_empty() {
            let inserted = self.strided.push(item);
            if !inserted {
                self.spilled.push(item);
            }
        } else {
            self.spilled.push(item);
        }""",
  """        if self.spilled.is_empty() && self.strided.is_empty() {
            let inserted = self.strided.push(item);
            if !inserted {
                self.spilled.push(item);
            }
        } else {
            self.spilled.push(item);
        }""", "IndexOptimized spills everything after the first element")
m("M34b", "c19", "src/impls/index.rs",
  """        if self.chonk.is_empty() {
            if let Ok(smol) = index.try_into() {
                self.smol.push(smol);
            } else {
                self.chonk.push(index.try_into().unwrap());
            }
        } else {""",
  """        if self.chonk.is_empty() && self.smol.len() < 1024 {
            if let Ok(smol) = index.try_into() {
                self.smol.push(smol);
            } else {
                self.chonk.push(index.try_into().unwrap());
            }
        } else {""", "IndexList uses chonk after 1024 entries even for small values")
# --- C13
m("M27b", "c13", "src/impls/columns.rs",
  """    pub fn get(&self, offset: usize) -> R::ReadItem<'a> {
        self.columns[offset].index(self.index[offset])
    }""",
  """    pub fn get(&self, offset: usize) -> R::ReadItem<'a> {
        let index = self.index.get(offset).or(self.index.last()).unwrap();
        self.columns[offset].index(*index)
    }""", "ReadColumnsInner::get clamps instead of panicking")


def main():
    os.makedirs(OUT, exist_ok=True)
    made = 0
    for (mid, props, file, old, new, note) in M:
        src = open(os.path.join(REPO, file)).read()
        if src.count(old) != 1:
            print("SKIP %s: anchor found %d times in %s" % (mid, src.count(old), file))
            continue
        tmp = tempfile.mkdtemp(prefix="mut.")
        try:
            a = os.path.join(tmp, "a", file)
            b = os.path.join(tmp, "b", file)
            os.makedirs(os.path.dirname(a))
            os.makedirs(os.path.dirname(b))
            open(a, "w").write(src)
            open(b, "w").write(src.replace(old, new))
            p = subprocess.run(["diff", "-u", "a/" + file, "b/" + file], cwd=tmp, capture_output=True, text=True)
            slug = "".join(c if c.isalnum() else "_" for c in note.lower())[:40].strip("_")
            name = "%s_%s_%s.patch" % (mid, props, slug)
            for f in os.listdir(OUT):
                if f.startswith(mid + "_"):
                    os.remove(os.path.join(OUT, f))
            open(os.path.join(OUT, name), "w").write(p.stdout)
            made += 1
        finally:
            shutil.rmtree(tmp)
    print("wrote %d mutants" % made)


if __name__ == "__main__":
    main()
