#!/bin/bash
# tools/verify_seed.sh <seed-dir containing patch.diff, demo.rs>
# Verifies in a scratch copy: suite passes with the change, demo fails with it, demo passes without it.
S=$(readlink -f "$1")
W=/tmp/seedcheck/repo
mkdir -p /tmp/seedcheck
rm -rf $W; mkdir -p $W
(cd /repo && git archive HEAD | tar -x -C $W)
export CARGO_TARGET_DIR=/tmp/seedcheck/target CARGO_NET_OFFLINE=true
cd $W
if ! patch -p1 -s < "$S/patch.diff"; then echo "RESULT patch_fails"; exit 1; fi
suite=$(cargo test --workspace --no-fail-fast --offline 2>&1 | grep -E "^test result" | awk '{p+=$4; f+=$6} END {print p" passed "f" failed"}')
cp "$S/demo.rs" tests/seed_demo.rs
# a demonstration may need a dev-dependency that builds offline (never part of the source patch)
for dd in "$S/cargo_dev_dependency.diff" "$(dirname "$S")/cargo_dev_dependency.diff"; do
  if [ -f "$dd" ]; then patch -p1 -s < "$dd"; break; fi
done
with=$(timeout 300 cargo test --offline --test seed_demo 2>&1 | grep -E "^test result|error(\[|:)" | head -2 | tr '\n' ' ')
patch -p1 -R -s < "$S/patch.diff"
without=$(timeout 300 cargo test --offline --test seed_demo 2>&1 | grep -E "^test result|error(\[|:)" | head -2 | tr '\n' ' ')
echo "RESULT suite_with_change=[$suite] demo_with_change=[$with] demo_without_change=[$without]"
