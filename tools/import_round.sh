#!/bin/bash
# tools/import_round.sh <src-prefix> <letter> <round-label> <P>... : verify (tools/verify_seed.sh) and
# import sub-agent deliverables <src-prefix><P>/a<k>/{patch.diff,demo.rs,README.md} as
# /verif/seeded/<P>_<letter><k>/ with a meta.json recording what was run and observed.
SRC="$1"; L="$2"; ROUND="$3"; shift 3
for P in "$@"; do
  for d in ${SRC}${P}/a*; do
    [ -f $d/patch.diff ] && [ -f $d/demo.rs ] || continue
    n=$(basename $d | sed "s/^a/$L/")
    out=$(/verif/tools/verify_seed.sh $d 2>&1 | grep RESULT)
    echo "$P/$n: $out" | cut -c1-330
    dest=/verif/seeded/${P}_$n
    mkdir -p $dest
    cp $d/patch.diff $dest/patch.diff; cp $d/demo.rs $dest/demo.rs; [ -f $d/README.md ] && cp $d/README.md $dest/README.md
    [ -f ${SRC}${P}/cargo_dev_dependency.diff ] && cp ${SRC}${P}/cargo_dev_dependency.diff $dest/
    python3 - "$P" "$n" "$out" "$dest" "$ROUND" <<'PY'
import json,sys,re
P,n,out,dest,rnd=sys.argv[1:6]
ok = re.search(r"suite_with_change=\[\d+ passed 0 failed\]", out) and re.search(r"demo_with_change=\[.*FAILED", out) and re.search(r"demo_without_change=\[.*test result: ok", out)
meta={"property":P,"id":"%s_%s"%(P,n),"source":"independent sub-agent (%s) given only the property text, short descriptions of earlier seeds, and a scratch worktree"%rnd,
 "verified":bool(ok),"verification":out,
 "what_ran":"tools/verify_seed.sh: scratch copy of /repo HEAD; cargo test --workspace --no-fail-fast --offline with the patch (must pass); cargo test --test seed_demo with the patch (must fail) and without it (must pass)",
 "needs_to_manifest":"see README.md","expected_checks":[P]}
json.dump(meta,open(dest+"/meta.json","w"),indent=1)
PY
  done
done
