#!/bin/bash
# tools/import_seeds.sh C01 C02 ... : verify each /tmp/seed_<P>/aN and import it as /verif/seeded/<P>_aN
for P in "$@"; do
  for d in /tmp/seed_$P/a*; do
    [ -f $d/patch.diff ] && [ -f $d/demo.rs ] || continue
    n=$(basename $d)
    out=$(/verif/tools/verify_seed.sh $d 2>&1 | grep RESULT)
    echo "$P/$n: $out"
    dest=/verif/seeded/${P}_$n
    mkdir -p $dest
    cp $d/patch.diff $dest/patch.diff; cp $d/demo.rs $dest/demo.rs; [ -f $d/README.md ] && cp $d/README.md $dest/README.md; [ -f /tmp/seed_$P/cargo_dev_dependency.diff ] && cp /tmp/seed_$P/cargo_dev_dependency.diff $dest/
    python3 - "$P" "$n" "$out" "$dest" <<'PY'
import json,sys,re
P,n,out,dest=sys.argv[1:5]
ok = ("failed" in out) and re.search(r"suite_with_change=\[\d+ passed 0 failed\]", out) and re.search(r"demo_with_change=\[test result: FAILED", out) and re.search(r"demo_without_change=\[test result: ok", out)
readme=open(dest+"/README.md").read() if __import__('os').path.exists(dest+"/README.md") else ""
meta={"property":P,"id":"%s_%s"%(P,n),"source":"independent sub-agent given only the property text and a scratch worktree",
 "verified":bool(ok),"verification":out,
 "what_ran":"tools/verify_seed.sh: scratch copy of /repo HEAD; cargo test --workspace --no-fail-fast --offline with the patch (must pass); cargo test --test seed_demo with the patch (must fail) and without it (must pass)",
 "needs_to_manifest":"see README.md",
 "expected_checks":[P]}
json.dump(meta,open(dest+"/meta.json","w"),indent=1)
PY
  done
done
