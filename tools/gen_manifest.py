#!/usr/bin/env python3
"""Regenerates /verif/MANIFEST.json from rules/registry.py (level texts list decided / not decided clauses)."""
import json, sys
sys.path.insert(0, '/verif/rules')
import registry
props = [json.loads(l) for l in open('/verif/properties.jsonl')]
checks = []
for p in props:
    pid = p['id']; spec = registry.PROPS[pid]
    checks.append({
        "property_id": pid,
        "quick_cmd": "./check %s --tier quick" % pid,
        "thorough_cmd": "./check %s --tier thorough" % pid,
        "evidence_file": "evidence/%s.json" % pid,
        "replay_cmd_template": "./check %s --replay {path}" % pid,
        "engine": "fcfacts+rules",
        "level_claimed": {
            "category": "other",
            "text": "Static analysis of the type-checked, un-instantiated MIR of /repo's current tree (all instantiations, all paths; local helper functions inlined, Option/Result combinators normalised). " + spec["explanation"] + " DECIDED: " + " | ".join(spec["decided"]) + " NOT DECIDED (left to dynamic techniques): " + " | ".join(spec["not_decided"]) + " A construct the rules cannot recognise is reported as undecided in the evidence, not as a violation.",
            "design_ref": "DESIGN.md §5 " + pid + ", §10"},
        "level_note": "Trusted base: " + "; ".join(registry.TRUSTED) + ". Decides the listed structural clauses (necessary conditions of the behaviour), not the behaviour itself.",
        "technique": "static analysis: MIR effect / provenance / dominating-guard / interval rules over a rustc_private fact base" + (" + compile_fail witnesses" if spec.get("thorough") else "")
    })
m = {"version": 1,
     "setup_cmd": "cd /verif/driver && CARGO_NET_OFFLINE=true cargo build --offline",
     "hooks": {"guard": "flatcontainer_verif", "enable": "none needed: the analysis reads the unmodified source of /repo; no hook code is compiled in (the guard names an unused cfg)", "baseline_off_cmd": "cd /repo && cargo test --workspace --no-fail-fast --offline", "source_commits": [], "add_only": True},
     "engines": [
         {"name": "fcfacts", "path": "driver/", "serves_properties": [p['id'] for p in props], "kind_free_text": "rustc_private driver (RUSTC_WORKSPACE_WRAPPER under cargo +nightly check) dumping MIR/ADT/impl/unsafe facts of the current tree as JSON"},
         {"name": "rules", "path": "rules/", "serves_properties": [p['id'] for p in props], "kind_free_text": "python3 stdlib rule engine: MIR helper inlining, provenance, effect classification, closure substitution, semantic value alternatives, linear forms, dominating guards, intervals; one rule module per family"},
         {"name": "witness", "path": "witness/", "serves_properties": ["C02", "C03", "C04", "C16"], "kind_free_text": "compile_fail,E0xxx doc-tests with compiling twins (cargo +nightly test --doc), thorough tier"}],
     "checks": checks,
     "notes": "All 20 properties are claimed at level 'other': each check decides the structural clauses listed in its level text for every instantiation and path and says which value-level clauses it does not decide. Known findings: known_findings.json. fix: commits in /repo: 6084a15 (C13), 1ab7474 (C17), 0a2d8c2 (C05), 5dc9d5d and 04a8e5b (C07), 6c0c033 (C06). Corpora: mutants/ (46 one-hunk breakages), seeded/ (43 independent regressions), controls/ (behaviour-preserving refactorings that no check may fire on).",
     "not_applicable": []}
json.dump(m, open('/verif/MANIFEST.json', 'w'), indent=1)
print("MANIFEST regenerated")
