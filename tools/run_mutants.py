#!/usr/bin/env python3
"""Applies every /verif/mutants/*.patch (or /verif/seeded/*/patch.diff with --seeded) to a scratch
copy of /repo's current tree under /tmp, runs the checks named in the file name (cNN tokens) against
the copy and reports whether each fires.  With --verify-tests also runs the crate's test suite on
the copy (a mutant must compile and pass it).  Scratch copies are removed afterwards."""
import argparse
import concurrent.futures as cf
import glob
import json
import os
import re
import shutil
import subprocess
import sys
import tempfile

VERIF = os.path.dirname(os.path.dirname(os.path.abspath(__file__)))


def props_of(name):
    return sorted({"C" + x for x in re.findall(r"c(\d\d)", name.split("_", 1)[1] if "_" in name else name)})


def run_one(patch, props, verify_tests, all_props):
    name = os.path.basename(os.path.dirname(patch)) if patch.endswith("patch.diff") else os.path.basename(patch)
    tmp = tempfile.mkdtemp(prefix="fc-mut.")
    res = {"mutant": name, "props": props, "applied": False, "fired": {}, "tests": None, "others": {}}
    try:
        work = os.path.join(tmp, "repo")
        shutil.copytree("/repo", work, ignore=shutil.ignore_patterns("target", ".git"))
        p = subprocess.run(["patch", "-p1", "-s", "-i", patch], cwd=work, capture_output=True, text=True)
        if p.returncode != 0:
            res["error"] = "patch does not apply: " + (p.stdout + p.stderr)[-300:]
            return res
        res["applied"] = True
        if verify_tests:
            env = dict(os.environ)
            env["CARGO_TARGET_DIR"] = os.path.join(tmp, "target")
            t = subprocess.run(["cargo", "test", "--workspace", "--no-fail-fast", "--offline"], cwd=work,
                               env=env, capture_output=True, text=True)
            ok = t.returncode == 0
            res["tests"] = "pass" if ok else "FAIL"
            if not ok:
                res["tests_tail"] = (t.stdout + t.stderr)[-600:]
        todo = list(props) + ([p_ for p_ in all_props if p_ not in props] if all_props else [])
        for prop in todo:
            c = subprocess.run([os.path.join(VERIF, "check"), prop, "--repo", work, "--no-evidence"],
                               capture_output=True, text=True)
            if c.returncode == 2 and "internal error" in c.stdout:
                sys.stderr.write("retrying %s on %s after: %s\n" % (prop, name, c.stderr[-600:]))
                c = subprocess.run([os.path.join(VERIF, "check"), prop, "--repo", work, "--no-evidence"],
                                   capture_output=True, text=True)
            viol = [l.strip() for l in c.stdout.splitlines() if l.strip().startswith("violation:")]
            rec = {"exit": c.returncode, "violations": [v[len("violation: "):] for v in viol]}
            if c.returncode == 2:
                rec["infra"] = c.stdout[-400:]
            if prop in props:
                res["fired"][prop] = rec
            elif c.returncode != 0:
                res["others"][prop] = rec
        return res
    finally:
        shutil.rmtree(tmp, ignore_errors=True)


def main():
    ap = argparse.ArgumentParser()
    ap.add_argument("--seeded", action="store_true")
    ap.add_argument("--controls", action="store_true",
                    help="behaviour-preserving refactorings under /verif/controls: no check may fire")
    ap.add_argument("--verify-tests", action="store_true")
    ap.add_argument("--all-props", action="store_true", help="also run every other property's check")
    ap.add_argument("--only", default=None)
    ap.add_argument("-j", type=int, default=6)
    ap.add_argument("--json", default=None)
    args = ap.parse_args()
    items = []
    if args.controls:
        args.all_props = True
        for d in sorted(glob.glob(os.path.join(VERIF, "controls", "*"))):
            patch = os.path.join(d, "patch.diff")
            if os.path.exists(patch):
                items.append((patch, []))
    elif args.seeded:
        for d in sorted(glob.glob(os.path.join(VERIF, "seeded", "*"))):
            meta = os.path.join(d, "meta.json")
            patch = os.path.join(d, "patch.diff")
            if os.path.exists(meta) and os.path.exists(patch):
                m = json.load(open(meta))
                items.append((patch, m.get("expected_checks") or [m["property"]]))
    else:
        for f in sorted(glob.glob(os.path.join(VERIF, "mutants", "*.patch"))):
            items.append((f, props_of(os.path.basename(f))))
    if args.only:
        items = [i for i in items if re.search(args.only, i[0])]
    allp = ["C%02d" % i for i in range(1, 21)] if args.all_props else []
    # warm the fact cache for the unmodified tree is not needed: every mutant has its own tree hash
    results = []
    with cf.ThreadPoolExecutor(max_workers=args.j) as ex:
        futs = [ex.submit(run_one, p, props, args.verify_tests, allp) for (p, props) in items]
        for f in futs:
            r = f.result()
            results.append(r)
            fired = {k: (v["exit"] == 1) for k, v in r["fired"].items()}
            status = "OK " if r["applied"] and fired and all(fired.values()) else "MISS"
            if args.controls:
                status = "OK " if r["applied"] and not r["others"] else "FALSE-ALARM"
            if not r["applied"]:
                status = "SKIP"
            print("%s %-70s tests=%s fired=%s%s" % (status, r["mutant"][:70], r["tests"], fired,
                                                   " also:%s" % sorted(r["others"]) if r["others"] else ""))
            if status == "FALSE-ALARM":
                for k, v in r["others"].items():
                    for vv in v["violations"][:4]:
                        print("      %s: %s" % (k, vv[:230]))
                    if v["exit"] == 2:
                        print("      %s infra: %s" % (k, v.get("infra", "")[-200:].replace("\n", " ")))
            if status == "MISS":
                for k, v in r["fired"].items():
                    if v["exit"] == 2:
                        print("      infra: " + v.get("infra", "")[-200:].replace("\n", " "))
            sys.stdout.flush()
    if args.json:
        json.dump(results, open(args.json, "w"), indent=1)
    miss = [r for r in results if r["applied"] and not (r["fired"] and all(v["exit"] == 1 for v in r["fired"].values()))]
    print("%d mutants, %d applied, %d missed" % (len(results), sum(r["applied"] for r in results), len(miss)))


if __name__ == "__main__":
    main()
