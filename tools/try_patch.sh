#!/bin/bash
# tools/try_patch.sh <patch> <prop>... : apply a patch to /repo, run the named checks, undo the patch
P=$(readlink -f "$1"); shift
cd /repo || exit 2
if ! git diff --quiet; then echo "/repo has uncommitted changes"; exit 2; fi
git apply "$P" || { echo "patch does not apply"; exit 3; }
trap 'git -C /repo checkout -- . ; git -C /repo clean -fdq' EXIT
for p in "$@"; do
  /verif/check "$p" --no-evidence 2>&1 | grep -E "violation:|VIOLATION|INFRA|KNOWN|obligations" | sed "s/^/[$p] /"
done
