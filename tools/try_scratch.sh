#!/bin/bash
# tools/try_scratch.sh <patch> <prop>... : apply a patch to a scratch copy of /repo's tree, run the
# named checks against the copy (-v output kept), remove the copy.  /repo itself is not touched.
P=$(readlink -f "$1"); shift
W=$(mktemp -d /tmp/fc-try.XXXXXX)
trap 'rm -rf "$W"' EXIT
(cd /repo && git archive HEAD | tar -x -C "$W")
(cd "$W" && patch -p1 -s < "$P") || { echo "patch does not apply"; exit 3; }
for p in "$@"; do
  /verif/check "$p" --repo "$W" --no-evidence $TRY_FLAGS 2>&1 | grep -E "${TRY_GREP:-violation:|VIOLATION|INFRA|KNOWN|obligations|    at }" | sed "s/^/[$p] /"
done
