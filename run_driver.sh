#!/bin/bash
# usage: run_driver.sh <crate-dir> <out-dir> [cargo args...]
set -e
CR=$1; OUT=$2; shift 2
T=$(mktemp -d /tmp/fc-target.XXXXXX)
trap 'rm -rf "$T"' EXIT
cd "$CR"
LD_LIBRARY_PATH=$(rustc +nightly --print sysroot)/lib \
RUSTFLAGS="-Zmir-opt-level=0 -Coverflow-checks=on -Cdebug-assertions=on -Awarnings" \
RUSTC_WORKSPACE_WRAPPER=/verif/driver/target/debug/fcfacts \
FCFACTS_OUT=$OUT CARGO_TARGET_DIR=$T CARGO_NET_OFFLINE=true \
cargo +nightly check --offline --lib "$@"
