//! Minimal JSON value + writer (no dependencies).

pub enum J {
    Null,
    Bool(bool),
    Num(i64),
    Str(String),
    Arr(Vec<J>),
    Obj(Vec<(&'static str, J)>),
}

impl J {
    pub fn s<S: Into<String>>(s: S) -> J {
        J::Str(s.into())
    }
    pub fn n(n: i64) -> J {
        J::Num(n)
    }
    pub fn b(b: bool) -> J {
        J::Bool(b)
    }
    pub fn obj(v: Vec<(&'static str, J)>) -> J {
        J::Obj(v)
    }

    pub fn write(&self, out: &mut String) {
        match self {
            J::Null => out.push_str("null"),
            J::Bool(b) => out.push_str(if *b { "true" } else { "false" }),
            J::Num(n) => out.push_str(&n.to_string()),
            J::Str(s) => write_str(s, out),
            J::Arr(v) => {
                out.push('[');
                for (i, x) in v.iter().enumerate() {
                    if i > 0 {
                        out.push(',');
                    }
                    x.write(out);
                }
                out.push(']');
            }
            J::Obj(v) => {
                out.push('{');
                for (i, (k, x)) in v.iter().enumerate() {
                    if i > 0 {
                        out.push(',');
                    }
                    write_str(k, out);
                    out.push(':');
                    x.write(out);
                }
                out.push('}');
            }
        }
    }
}

fn write_str(s: &str, out: &mut String) {
    out.push('"');
    for c in s.chars() {
        match c {
            '"' => out.push_str("\\\""),
            '\\' => out.push_str("\\\\"),
            '\n' => out.push_str("\\n"),
            '\r' => out.push_str("\\r"),
            '\t' => out.push_str("\\t"),
            c if (c as u32) < 0x20 => out.push_str(&format!("\\u{:04x}", c as u32)),
            c => out.push(c),
        }
    }
    out.push('"');
}
