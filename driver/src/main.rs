//! fcfacts — fact extractor for the flatcontainer static checks.
//!
//! Runs as RUSTC_WORKSPACE_WRAPPER.  For every crate named in FCFACTS_CRATES it writes
//! `$FCFACTS_OUT/<crate>.json` containing the un-instantiated MIR (opt-level 0) of every local
//! fn / method / closure with resolved callees, the ADTs, impl headers, HIR `unsafe` inventory
//! and attributes.  Nothing of the analysed crate is executed.
#![feature(rustc_private)]
#![allow(clippy::all)]

extern crate rustc_abi;
extern crate rustc_driver;
extern crate rustc_hir;
extern crate rustc_interface;
extern crate rustc_middle;
extern crate rustc_session;
extern crate rustc_span;

mod json;

use json::J;
use rustc_hir as hir;
use rustc_hir::def::DefKind;
use rustc_hir::def_id::{DefId, LocalDefId, LOCAL_CRATE};
use rustc_hir::intravisit::{self, Visitor};
use rustc_middle::mir::{
    self, AggregateKind, AssertKind, BasicBlockData, Body, Operand, Place, ProjectionElem, Rvalue,
    StatementKind, TerminatorKind,
};
use rustc_middle::ty::print::PrintTraitRefExt;
use rustc_middle::ty::{self, Ty, TyCtxt};
use rustc_span::Span;

struct Cb;

impl rustc_driver::Callbacks for Cb {
    fn after_analysis<'tcx>(
        &mut self,
        _compiler: &rustc_interface::interface::Compiler,
        tcx: TyCtxt<'tcx>,
    ) -> rustc_driver::Compilation {
        let name = tcx.crate_name(LOCAL_CRATE).to_string();
        let wanted = std::env::var("FCFACTS_CRATES").unwrap_or_else(|_| "flatcontainer".into());
        if wanted.split(',').any(|w| w == name) {
            let out_dir = std::env::var("FCFACTS_OUT").expect("FCFACTS_OUT not set");
            let facts = dump_crate(tcx, &name);
            let mut s = String::new();
            facts.write(&mut s);
            let path = format!("{}/{}.json", out_dir, name);
            std::fs::write(&path, s).expect("cannot write facts");
        }
        rustc_driver::Compilation::Continue
    }
}

fn main() {
    let mut args: Vec<String> = std::env::args().collect();
    // invoked as `fcfacts <path-to-rustc> <args...>`; drop our own argv[0].
    args.remove(0);
    rustc_driver::run_compiler(&args, &mut Cb);
}

// ---------------------------------------------------------------------------------------------

fn span_json(tcx: TyCtxt<'_>, sp: Span) -> J {
    let sm = tcx.sess.source_map();
    let lo = sm.lookup_char_pos(sp.lo());
    let hi = sm.lookup_char_pos(sp.hi());
    let file = format!("{}", lo.file.name.prefer_local_unconditionally());
    J::obj(vec![
        ("file", J::s(file)),
        ("line", J::n(lo.line as i64)),
        ("col", J::n(lo.col.0 as i64)),
        ("line_hi", J::n(hi.line as i64)),
        ("exp", J::b(sp.from_expansion())),
    ])
}

/// The span of the outermost macro call site (or the span itself), for reporting.
fn root_line(tcx: TyCtxt<'_>, sp: Span) -> i64 {
    let sp = sp.source_callsite();
    tcx.sess.source_map().lookup_char_pos(sp.lo()).line as i64
}

fn ty_json<'tcx>(tcx: TyCtxt<'tcx>, t: Ty<'tcx>) -> J {
    let mut peeled = t;
    let mut is_ref = false;
    let mut is_mut = false;
    let mut depth = 0;
    loop {
        match peeled.kind() {
            ty::Ref(_, inner, m) => {
                if depth == 0 {
                    is_ref = true;
                    is_mut = m.is_mut();
                }
                peeled = *inner;
                depth += 1;
            }
            _ => break,
        }
    }
    let (kind, adt) = match peeled.kind() {
        ty::Adt(def, _) => ("adt", Some(tcx.def_path_str(def.did()))),
        ty::Param(_) => ("param", None),
        ty::Tuple(_) => ("tuple", None),
        ty::Slice(_) => ("slice", None),
        ty::Array(..) => ("array", None),
        ty::Closure(did, _) => ("closure", Some(def_key(tcx, *did))),
        ty::FnDef(did, _) => ("fndef", Some(tcx.def_path_str(*did))),
        ty::Alias(..) => ("alias", None),
        ty::Bool => ("bool", None),
        ty::Int(_) => ("int", None),
        ty::Uint(_) => ("uint", None),
        ty::Str => ("str", None),
        ty::Never => ("never", None),
        ty::RawPtr(..) => ("rawptr", None),
        ty::FnPtr(..) => ("fnptr", None),
        _ => ("other", None),
    };
    let mut v = vec![
        ("s", J::s(format!("{}", t))),
        ("k", J::s(kind)),
        ("ref", J::b(is_ref)),
        ("mut", J::b(is_mut)),
        ("peeled", J::s(format!("{}", peeled))),
    ];
    if let Some(a) = adt {
        v.push(("adt", J::s(a)));
    }
    J::obj(v)
}

fn def_key(tcx: TyCtxt<'_>, did: DefId) -> String {
    format!(
        "{}::{}",
        tcx.crate_name(did.krate),
        tcx.def_path(did).to_string_no_crate_verbose().trim_start_matches("::")
    )
}

fn place_json<'tcx>(tcx: TyCtxt<'tcx>, body: &Body<'tcx>, p: &Place<'tcx>) -> J {
    let mut proj = Vec::new();
    for (base, elem) in p.iter_projections() {
        let e = match elem {
            ProjectionElem::Deref => J::obj(vec![("k", J::s("deref"))]),
            ProjectionElem::Field(f, fty) => {
                let bty = base.ty(&body.local_decls, tcx);
                let mut v = vec![("k", J::s("field")), ("i", J::n(f.index() as i64))];
                match bty.ty.kind() {
                    ty::Adt(def, _) => {
                        let vi = bty.variant_index.unwrap_or(rustc_abi::FIRST_VARIANT);
                        if def.is_enum() || def.is_struct() || def.is_union() {
                            let var = def.variant(vi);
                            if let Some(fd) = var.fields.get(f) {
                                v.push(("name", J::s(fd.name.to_string())));
                            }
                            v.push(("adt", J::s(tcx.def_path_str(def.did()))));
                        }
                    }
                    ty::Closure(did, _) => {
                        v.push(("closure", J::s(def_key(tcx, *did))));
                    }
                    _ => {}
                }
                v.push(("ty", J::s(format!("{}", fty))));
                J::obj(v)
            }
            ProjectionElem::Downcast(name, vi) => J::obj(vec![
                ("k", J::s("downcast")),
                ("v", J::n(vi.index() as i64)),
                ("name", name.map(|n| J::s(n.to_string())).unwrap_or(J::Null)),
            ]),
            ProjectionElem::Index(l) => {
                J::obj(vec![("k", J::s("index")), ("local", J::n(l.index() as i64))])
            }
            ProjectionElem::ConstantIndex { offset, min_length, from_end } => J::obj(vec![
                ("k", J::s("constindex")),
                ("offset", J::n(offset as i64)),
                ("min_length", J::n(min_length as i64)),
                ("from_end", J::b(from_end)),
            ]),
            ProjectionElem::Subslice { from, to, from_end } => J::obj(vec![
                ("k", J::s("subslice")),
                ("from", J::n(from as i64)),
                ("to", J::n(to as i64)),
                ("from_end", J::b(from_end)),
            ]),
            other => J::obj(vec![("k", J::s("other")), ("dbg", J::s(format!("{:?}", other)))]),
        };
        proj.push(e);
    }
    J::obj(vec![("l", J::n(p.local.index() as i64)), ("p", J::Arr(proj))])
}

fn fn_ref_json<'tcx>(
    tcx: TyCtxt<'tcx>,
    owner: LocalDefId,
    did: DefId,
    args: ty::GenericArgsRef<'tcx>,
) -> J {
    let mut v = vec![
        ("path", J::s(tcx.def_path_str(did))),
        ("pretty", J::s(tcx.def_path_str_with_args(did, args))),
        ("key", J::s(def_key(tcx, did))),
        ("local", J::b(did.is_local())),
        ("krate", J::s(tcx.crate_name(did.krate).to_string())),
        ("name", J::s(tcx.opt_item_name(did).map(|s| s.to_string()).unwrap_or_default())),
        ("args", J::Arr(args.iter().map(|a| J::s(format!("{}", a))).collect())),
    ];
    let kind = tcx.def_kind(did);
    v.push(("kind", J::s(format!("{:?}", kind))));
    if matches!(kind, DefKind::AssocFn | DefKind::AssocConst { .. } | DefKind::AssocTy) {
        let parent = tcx.parent(did);
        match tcx.def_kind(parent) {
            DefKind::Trait => {
                v.push(("trait", J::s(tcx.def_path_str(parent))));
                if args.len() > 0 {
                    if let Some(t) = args.get(0).and_then(|a| a.as_type()) {
                        v.push(("self_ty", ty_json(tcx, t)));
                    }
                }
            }
            DefKind::Impl { of_trait } => {
                let self_ty = tcx.type_of(parent).skip_binder();
                v.push(("impl_self", ty_json(tcx, self_ty)));
                if of_trait {
                    let tr = tcx.impl_trait_ref(parent).skip_binder();
                    v.push(("trait", J::s(tcx.def_path_str(tr.def_id))));
                }
                v.push(("impl_key", J::s(def_key(tcx, parent))));
            }
            _ => {}
        }
    }
    // try to resolve to a concrete instance (impl method) in the caller's typing env
    if matches!(kind, DefKind::AssocFn | DefKind::Fn) {
        let env = ty::TypingEnv::post_analysis(tcx, owner.to_def_id());
        let res = std::panic::catch_unwind(std::panic::AssertUnwindSafe(|| {
            let args = tcx.erase_and_anonymize_regions(args);
            ty::Instance::try_resolve(tcx, env, did, args)
        }));
        if let Ok(Ok(Some(inst))) = res {
            let rd = inst.def_id();
            if rd != did {
                v.push((
                    "resolved",
                    J::obj(vec![
                        ("path", J::s(tcx.def_path_str(rd))),
                        ("key", J::s(def_key(tcx, rd))),
                        ("local", J::b(rd.is_local())),
                        ("inst", J::s(format!("{}", inst))),
                    ]),
                ));
            }
        }
    }
    J::obj(v)
}

fn operand_json<'tcx>(
    tcx: TyCtxt<'tcx>,
    owner: LocalDefId,
    body: &Body<'tcx>,
    op: &Operand<'tcx>,
) -> J {
    match op {
        Operand::Copy(p) => J::obj(vec![("k", J::s("copy")), ("place", place_json(tcx, body, p))]),
        Operand::Move(p) => J::obj(vec![("k", J::s("move")), ("place", place_json(tcx, body, p))]),
        Operand::Constant(c) => {
            let cty = c.const_.ty();
            let mut v = vec![
                ("k", J::s("const")),
                ("s", J::s(format!("{}", c.const_))),
                ("ty", J::s(format!("{}", cty))),
            ];
            if let ty::FnDef(did, args) = cty.kind() {
                v.push(("fn", fn_ref_json(tcx, owner, *did, args)));
            }
            let env = ty::TypingEnv::post_analysis(tcx, owner.to_def_id());
            if cty.is_integral() || cty.is_bool() || cty.is_char() {
                if let Some(si) = c.const_.try_eval_scalar_int(tcx, env) {
                    let sz = si.size();
                    let val = si.to_bits(sz);
                    v.push(("int", J::s(format!("{}", val))));
                }
            }
            J::obj(v)
        }
        #[allow(unreachable_patterns)]
        other => J::obj(vec![("k", J::s("other")), ("dbg", J::s(format!("{:?}", other)))]),
    }
}

fn rvalue_json<'tcx>(
    tcx: TyCtxt<'tcx>,
    owner: LocalDefId,
    body: &Body<'tcx>,
    rv: &Rvalue<'tcx>,
) -> J {
    let op = |o: &Operand<'tcx>| operand_json(tcx, owner, body, o);
    match rv {
        Rvalue::Use(o, _) => J::obj(vec![("k", J::s("use")), ("op", op(o))]),
        Rvalue::Repeat(o, n) => {
            J::obj(vec![("k", J::s("repeat")), ("op", op(o)), ("n", J::s(format!("{}", n)))])
        }
        Rvalue::Ref(_, bk, p) => J::obj(vec![
            ("k", J::s("ref")),
            ("mut", J::b(matches!(bk, mir::BorrowKind::Mut { .. }))),
            ("bk", J::s(format!("{:?}", bk))),
            ("place", place_json(tcx, body, p)),
        ]),
        Rvalue::RawPtr(kind, p) => J::obj(vec![
            ("k", J::s("rawptr")),
            ("kind", J::s(format!("{:?}", kind))),
            ("place", place_json(tcx, body, p)),
        ]),
        Rvalue::Cast(kind, o, t) => J::obj(vec![
            ("k", J::s("cast")),
            ("kind", J::s(format!("{:?}", kind))),
            ("op", op(o)),
            ("ty", J::s(format!("{}", t))),
        ]),
        Rvalue::BinaryOp(bop, pair) => J::obj(vec![
            ("k", J::s("binop")),
            ("op", J::s(format!("{:?}", bop))),
            ("a", op(&pair.0)),
            ("b", op(&pair.1)),
        ]),
        Rvalue::UnaryOp(uop, o) => {
            J::obj(vec![("k", J::s("unop")), ("op", J::s(format!("{:?}", uop))), ("a", op(o))])
        }
        Rvalue::Discriminant(p) => {
            J::obj(vec![("k", J::s("discr")), ("place", place_json(tcx, body, p))])
        }
        Rvalue::CopyForDeref(p) => J::obj(vec![
            ("k", J::s("use")),
            ("op", J::obj(vec![("k", J::s("copy")), ("place", place_json(tcx, body, p))])),
        ]),
        Rvalue::Aggregate(kind, ops) => {
            let mut v = vec![("k", J::s("aggregate"))];
            match &**kind {
                AggregateKind::Array(t) => {
                    v.push(("agg", J::s("array")));
                    v.push(("ty", J::s(format!("{}", t))));
                }
                AggregateKind::Tuple => v.push(("agg", J::s("tuple"))),
                AggregateKind::Adt(did, vi, _args, _, _) => {
                    v.push(("agg", J::s("adt")));
                    v.push(("adt", J::s(tcx.def_path_str(*did))));
                    let def = tcx.adt_def(*did);
                    let var = def.variant(*vi);
                    v.push(("variant", J::n(vi.index() as i64)));
                    v.push(("variant_name", J::s(var.name.to_string())));
                    v.push((
                        "fields",
                        J::Arr(var.fields.iter().map(|f| J::s(f.name.to_string())).collect()),
                    ));
                }
                AggregateKind::Closure(did, _args) => {
                    v.push(("agg", J::s("closure")));
                    v.push(("closure", J::s(def_key(tcx, *did))));
                }
                other => {
                    v.push(("agg", J::s("other")));
                    v.push(("dbg", J::s(format!("{:?}", other))));
                }
            }
            v.push(("ops", J::Arr(ops.iter().map(|o| op(o)).collect())));
            J::obj(v)
        }
        other => J::obj(vec![("k", J::s("other")), ("dbg", J::s(format!("{:?}", other)))]),
    }
}

fn block_json<'tcx>(
    tcx: TyCtxt<'tcx>,
    owner: LocalDefId,
    body: &Body<'tcx>,
    bb: &BasicBlockData<'tcx>,
) -> J {
    let mut stmts = Vec::new();
    for st in &bb.statements {
        match &st.kind {
            StatementKind::Assign(b) => {
                let (place, rv) = &**b;
                stmts.push(J::obj(vec![
                    ("k", J::s("assign")),
                    ("place", place_json(tcx, body, place)),
                    ("rv", rvalue_json(tcx, owner, body, rv)),
                    ("line", J::n(root_line(tcx, st.source_info.span))),
                    ("exp", J::b(st.source_info.span.from_expansion())),
                ]));
            }
            StatementKind::SetDiscriminant { place, variant_index } => {
                stmts.push(J::obj(vec![
                    ("k", J::s("setdiscr")),
                    ("place", place_json(tcx, body, place)),
                    ("variant", J::n(variant_index.index() as i64)),
                    ("line", J::n(root_line(tcx, st.source_info.span))),
                ]));
            }
            _ => {}
        }
    }
    let term = bb.terminator();
    let tspan = term.source_info.span;
    let bbn = |b: mir::BasicBlock| J::n(b.index() as i64);
    let unwind_json = |u: &mir::UnwindAction| match u {
        mir::UnwindAction::Cleanup(b) => bbn(*b),
        _ => J::Null,
    };
    let mut t = match &term.kind {
        TerminatorKind::Goto { target } => vec![("k", J::s("goto")), ("target", bbn(*target))],
        TerminatorKind::SwitchInt { discr, targets } => {
            let mut arms = Vec::new();
            for (val, b) in targets.iter() {
                arms.push(J::Arr(vec![J::s(format!("{}", val)), bbn(b)]));
            }
            vec![
                ("k", J::s("switch")),
                ("discr", operand_json(tcx, owner, body, discr)),
                ("discr_ty", J::s(format!("{}", discr.ty(&body.local_decls, tcx)))),
                ("arms", J::Arr(arms)),
                ("otherwise", bbn(targets.otherwise())),
            ]
        }
        TerminatorKind::Return => vec![("k", J::s("return"))],
        TerminatorKind::Unreachable => vec![("k", J::s("unreachable"))],
        TerminatorKind::UnwindResume => vec![("k", J::s("resume"))],
        TerminatorKind::UnwindTerminate(_) => vec![("k", J::s("terminate"))],
        TerminatorKind::Drop { place, target, unwind, .. } => vec![
            ("k", J::s("drop")),
            ("place", place_json(tcx, body, place)),
            ("target", bbn(*target)),
            ("unwind", unwind_json(unwind)),
        ],
        TerminatorKind::Call { func, args, destination, target, unwind, .. } => {
            let fty = func.ty(&body.local_decls, tcx);
            let mut v = vec![("k", J::s("call"))];
            match fty.kind() {
                ty::FnDef(did, gargs) => {
                    v.push(("callee", fn_ref_json(tcx, owner, *did, gargs)));
                }
                _ => {
                    v.push(("callee", J::Null));
                    v.push(("func", operand_json(tcx, owner, body, func)));
                }
            }
            v.push((
                "args",
                J::Arr(args.iter().map(|a| operand_json(tcx, owner, body, &a.node)).collect()),
            ));
            v.push(("dest", place_json(tcx, body, destination)));
            v.push(("target", target.map(bbn).unwrap_or(J::Null)));
            v.push(("unwind", unwind_json(unwind)));
            v
        }
        TerminatorKind::Assert { cond, expected, msg, target, unwind } => {
            let mut v = vec![
                ("k", J::s("assert")),
                ("cond", operand_json(tcx, owner, body, cond)),
                ("expected", J::b(*expected)),
                ("target", bbn(*target)),
                ("unwind", unwind_json(unwind)),
            ];
            match &**msg {
                AssertKind::Overflow(bop, a, b) => {
                    v.push(("msg", J::s("overflow")));
                    v.push(("op", J::s(format!("{:?}", bop))));
                    v.push(("a", operand_json(tcx, owner, body, a)));
                    v.push(("b", operand_json(tcx, owner, body, b)));
                }
                AssertKind::OverflowNeg(a) => {
                    v.push(("msg", J::s("overflow_neg")));
                    v.push(("a", operand_json(tcx, owner, body, a)));
                }
                AssertKind::BoundsCheck { len, index } => {
                    v.push(("msg", J::s("bounds")));
                    v.push(("len", operand_json(tcx, owner, body, len)));
                    v.push(("index", operand_json(tcx, owner, body, index)));
                }
                AssertKind::DivisionByZero(a) => {
                    v.push(("msg", J::s("div_zero")));
                    v.push(("a", operand_json(tcx, owner, body, a)));
                }
                AssertKind::RemainderByZero(a) => {
                    v.push(("msg", J::s("rem_zero")));
                    v.push(("a", operand_json(tcx, owner, body, a)));
                }
                other => {
                    v.push(("msg", J::s("other")));
                    v.push(("dbg", J::s(format!("{:?}", other))));
                }
            }
            v
        }
        TerminatorKind::FalseEdge { real_target, .. } => {
            vec![("k", J::s("goto")), ("target", bbn(*real_target))]
        }
        TerminatorKind::FalseUnwind { real_target, .. } => {
            vec![("k", J::s("goto")), ("target", bbn(*real_target))]
        }
        other => vec![("k", J::s("other")), ("dbg", J::s(format!("{:?}", other)))],
    };
    t.push(("line", J::n(root_line(tcx, tspan))));
    t.push(("exp", J::b(tspan.from_expansion())));
    if tspan.from_expansion() {
        // the macros this terminator was expanded from, innermost first (`panic,assert,debug_assert`)
        let mut names: Vec<String> = Vec::new();
        for e in tspan.macro_backtrace() {
            if let rustc_span::ExpnKind::Macro(_, sym) = e.kind {
                names.push(sym.to_string());
            }
        }
        t.push(("mac", J::s(names.join(","))));
    }
    J::obj(vec![
        ("stmts", J::Arr(stmts)),
        ("term", J::obj(t)),
        ("cleanup", J::b(bb.is_cleanup)),
    ])
}

fn parent_impl_json(tcx: TyCtxt<'_>, did: DefId) -> J {
    // walk up through closures to the enclosing item
    let mut cur = did;
    loop {
        let k = tcx.def_kind(cur);
        if matches!(k, DefKind::Closure | DefKind::InlineConst | DefKind::AnonConst) {
            cur = tcx.parent(cur);
        } else {
            break;
        }
    }
    let mut v = vec![("item_key", J::s(def_key(tcx, cur))), ("item_path", J::s(tcx.def_path_str(cur)))];
    if matches!(tcx.def_kind(cur), DefKind::AssocFn) {
        let parent = tcx.parent(cur);
        match tcx.def_kind(parent) {
            DefKind::Impl { of_trait } => {
                v.push(("impl_key", J::s(def_key(tcx, parent))));
                v.push(("impl_self", ty_json(tcx, tcx.type_of(parent).skip_binder())));
                if of_trait {
                    let tr = tcx.impl_trait_ref(parent).skip_binder();
                    v.push(("trait", J::s(tcx.def_path_str(tr.def_id))));
                    v.push(("trait_ref", J::s(format!("{}", tr.print_only_trait_path()))));
                    v.push((
                        "trait_args",
                        J::Arr(tr.args.iter().map(|a| J::s(format!("{}", a))).collect()),
                    ));
                }
            }
            DefKind::Trait => {
                v.push(("in_trait", J::s(tcx.def_path_str(parent))));
            }
            _ => {}
        }
    }
    J::obj(v)
}

fn body_json<'tcx>(tcx: TyCtxt<'tcx>, ldid: LocalDefId) -> Option<J> {
    let did = ldid.to_def_id();
    let kind = tcx.def_kind(did);
    if !matches!(kind, DefKind::Fn | DefKind::AssocFn | DefKind::Closure) {
        return None;
    }
    let body: &Body<'tcx> = tcx.optimized_mir(did);
    let mut locals = Vec::new();
    for (l, decl) in body.local_decls.iter_enumerated() {
        let _ = l;
        locals.push(J::obj(vec![
            ("ty", ty_json(tcx, decl.ty)),
            ("mut", J::b(decl.mutability.is_mut())),
        ]));
    }
    let mut dbg = Vec::new();
    for vdi in &body.var_debug_info {
        match &vdi.value {
            mir::VarDebugInfoContents::Place(p) => dbg.push(J::obj(vec![
                ("name", J::s(vdi.name.to_string())),
                ("place", place_json(tcx, body, p)),
                ("arg", vdi.argument_index.map(|i| J::n(i as i64)).unwrap_or(J::Null)),
            ])),
            mir::VarDebugInfoContents::Const(c) => dbg.push(J::obj(vec![
                ("name", J::s(vdi.name.to_string())),
                ("const", J::s(format!("{}", c.const_))),
            ])),
        }
    }
    let blocks: Vec<J> =
        body.basic_blocks.iter().map(|bb| block_json(tcx, ldid, body, bb)).collect();
    let mut v = vec![
        ("key", J::s(def_key(tcx, did))),
        ("path", J::s(tcx.def_path_str(did))),
        ("kind", J::s(format!("{:?}", kind))),
        ("name", J::s(tcx.opt_item_name(did).map(|s| s.to_string()).unwrap_or_default())),
        ("span", span_json(tcx, body.span)),
        ("arg_count", J::n(body.arg_count as i64)),
        ("owner", parent_impl_json(tcx, did)),
        ("locals", J::Arr(locals)),
        ("debug", J::Arr(dbg)),
        ("blocks", J::Arr(blocks)),
    ];
    if matches!(kind, DefKind::Fn | DefKind::AssocFn) {
        let sig = tcx.fn_sig(did).skip_binder();
        v.push(("sig", J::s(format!("{}", sig))));
        v.push(("vis_pub", J::b(tcx.visibility(did).is_public())));
        v.push(("unsafe_fn", J::b(sig.safety().is_unsafe())));
        let generics = tcx.generics_of(did);
        let mut gs = Vec::new();
        let mut g = Some(generics);
        while let Some(gg) = g {
            for p in &gg.own_params {
                gs.push(J::s(p.name.to_string()));
            }
            g = gg.parent.map(|p| tcx.generics_of(p));
        }
        v.push(("generics", J::Arr(gs)));
    }
    if matches!(kind, DefKind::Closure) {
        let caps: Vec<J> = tcx
            .closure_captures(ldid)
            .iter()
            .map(|c| {
                J::obj(vec![
                    ("place", J::s(c.to_string(tcx))),
                    ("by_ref", J::b(matches!(c.info.capture_kind, ty::UpvarCapture::ByRef(_)))),
                    (
                        "mut",
                        J::b(matches!(
                            c.info.capture_kind,
                            ty::UpvarCapture::ByRef(ty::BorrowKind::Mutable)
                                | ty::UpvarCapture::ByRef(ty::BorrowKind::UniqueImmutable)
                        )),
                    ),
                ])
            })
            .collect();
        v.push(("captures", J::Arr(caps)));
    }
    let auto = tcx.is_automatically_derived(tcx.parent(did))
        || tcx.is_automatically_derived(did);
    v.push(("derived", J::b(auto)));
    Some(J::obj(v))
}

fn attrs_json(tcx: TyCtxt<'_>, ldid: LocalDefId) -> J {
    let hid = tcx.local_def_id_to_hir_id(ldid);
    let mut out = Vec::new();
    for a in tcx.hir_attrs(hid) {
        let d = format!("{:?}", a);
        // keep only tool / helper attributes that matter (serde, repr, derive markers)
        if d.starts_with("Parsed(DocComment") {
            continue;
        }
        out.push(J::s(d));
    }
    J::Arr(out)
}

fn adt_json(tcx: TyCtxt<'_>, ldid: LocalDefId) -> J {
    let did = ldid.to_def_id();
    let def = tcx.adt_def(did);
    let mut variants = Vec::new();
    for var in def.variants() {
        let mut fields = Vec::new();
        for f in var.fields.iter() {
            let fty = tcx.type_of(f.did).skip_binder();
            let vis = tcx.visibility(f.did);
            let vis_s = match vis {
                ty::Visibility::Public => "pub".to_string(),
                ty::Visibility::Restricted(m) => tcx.def_path_str(m),
            };
            let attrs = f.did.as_local().map(|l| attrs_json(tcx, l)).unwrap_or(J::Arr(vec![]));
            fields.push(J::obj(vec![
                ("name", J::s(f.name.to_string())),
                ("ty", ty_json(tcx, fty)),
                ("pub", J::b(vis.is_public())),
                ("vis", J::s(vis_s)),
                ("attrs", attrs),
            ]));
        }
        variants.push(J::obj(vec![("name", J::s(var.name.to_string())), ("fields", J::Arr(fields))]));
    }
    let generics: Vec<J> =
        tcx.generics_of(did).own_params.iter().map(|p| J::s(p.name.to_string())).collect();
    J::obj(vec![
        ("path", J::s(tcx.def_path_str(did))),
        ("key", J::s(def_key(tcx, did))),
        ("kind", J::s(if def.is_enum() { "enum" } else if def.is_struct() { "struct" } else { "union" })),
        ("pub", J::b(tcx.visibility(did).is_public())),
        ("variants", J::Arr(variants)),
        ("generics", J::Arr(generics)),
        ("attrs", attrs_json(tcx, ldid)),
        ("span", span_json(tcx, tcx.def_span(did))),
    ])
}

fn impl_json(tcx: TyCtxt<'_>, ldid: LocalDefId, of_trait: bool) -> J {
    let did = ldid.to_def_id();
    let self_ty = tcx.type_of(did).skip_binder();
    let mut v = vec![
        ("key", J::s(def_key(tcx, did))),
        ("self_ty", ty_json(tcx, self_ty)),
        ("span", span_json(tcx, tcx.def_span(did))),
        ("derived", J::b(tcx.is_automatically_derived(did))),
    ];
    if of_trait {
        let tr = tcx.impl_trait_ref(did).skip_binder();
        v.push(("trait", J::s(tcx.def_path_str(tr.def_id))));
        v.push(("trait_ref", J::s(format!("{}", tr.print_only_trait_path()))));
        v.push(("trait_args", J::Arr(tr.args.iter().map(|a| J::s(format!("{}", a))).collect())));
        let mut targs = Vec::new();
        for a in tr.args.iter() {
            if let Some(t) = a.as_type() {
                targs.push(ty_json(tcx, t));
            } else {
                targs.push(J::Null);
            }
        }
        v.push(("trait_arg_tys", J::Arr(targs)));
        let trait_def = tcx.trait_def(tr.def_id);
        v.push(("unsafe_trait", J::b(trait_def.safety.is_unsafe())));
    }
    let preds: Vec<J> = tcx
        .predicates_of(did)
        .predicates
        .iter()
        .map(|(c, _)| J::s(format!("{}", c)))
        .collect();
    v.push(("predicates", J::Arr(preds)));
    let mut items = Vec::new();
    for it in tcx.associated_items(did).in_definition_order() {
        let mut iv = vec![
            ("name", J::s(it.name().to_string())),
            ("kind", J::s(format!("{:?}", tcx.def_kind(it.def_id)))),
            ("key", J::s(def_key(tcx, it.def_id))),
        ];
        if matches!(tcx.def_kind(it.def_id), DefKind::AssocTy) {
            iv.push(("ty", J::s(format!("{}", tcx.type_of(it.def_id).skip_binder()))));
        }
        items.push(J::obj(iv));
    }
    v.push(("items", J::Arr(items)));
    let generics: Vec<J> =
        tcx.generics_of(did).own_params.iter().map(|p| J::s(p.name.to_string())).collect();
    v.push(("generics", J::Arr(generics)));
    J::obj(v)
}

struct UnsafeVisitor<'tcx> {
    tcx: TyCtxt<'tcx>,
    out: Vec<J>,
    seen: std::collections::HashSet<(u32, u32)>,
}

impl<'tcx> Visitor<'tcx> for UnsafeVisitor<'tcx> {
    type NestedFilter = rustc_middle::hir::nested_filter::All;
    fn maybe_tcx(&mut self) -> TyCtxt<'tcx> {
        self.tcx
    }
    fn visit_block(&mut self, b: &'tcx hir::Block<'tcx>) {
        if let hir::BlockCheckMode::UnsafeBlock(src) = b.rules {
            let key = (b.span.lo().0, b.span.hi().0);
            if self.seen.insert(key) {
                let owner = self.tcx.hir_enclosing_body_owner(b.hir_id);
                self.out.push(J::obj(vec![
                    ("what", J::s("block")),
                    ("user", J::b(matches!(src, hir::UnsafeSource::UserProvided))),
                    ("span", span_json(self.tcx, b.span)),
                    ("owner_key", J::s(def_key(self.tcx, owner.to_def_id()))),
                    ("owner_path", J::s(self.tcx.def_path_str(owner.to_def_id()))),
                ]));
            }
        }
        intravisit::walk_block(self, b);
    }
}

fn dump_crate(tcx: TyCtxt<'_>, name: &str) -> J {
    let mut bodies = Vec::new();
    let mut keys: Vec<LocalDefId> = tcx.mir_keys(()).iter().copied().collect();
    keys.sort_by_key(|k| def_key(tcx, k.to_def_id()));
    for k in keys {
        if let Some(b) = body_json(tcx, k) {
            bodies.push(b);
        }
    }
    let mut adts = Vec::new();
    let mut impls = Vec::new();
    let mut traits = Vec::new();
    let mut unsafe_items = Vec::new();
    for ldid in tcx.hir_crate_items(()).definitions() {
        let did = ldid.to_def_id();
        match tcx.def_kind(did) {
            DefKind::Struct | DefKind::Enum | DefKind::Union => adts.push(adt_json(tcx, ldid)),
            DefKind::Impl { of_trait } => {
                let j = impl_json(tcx, ldid, of_trait);
                if of_trait {
                    let tr = tcx.impl_trait_ref(did).skip_binder();
                    if tcx.trait_def(tr.def_id).safety.is_unsafe()
                        && !tcx.is_automatically_derived(did)
                        && !tcx.def_span(did).from_expansion()
                    {
                        unsafe_items.push(J::obj(vec![
                            ("what", J::s("impl")),
                            ("user", J::b(true)),
                            ("span", span_json(tcx, tcx.def_span(did))),
                            ("owner_key", J::s(def_key(tcx, did))),
                            ("owner_path", J::s(tcx.def_path_str(tr.def_id))),
                        ]));
                    }
                }
                impls.push(j);
            }
            DefKind::Trait => {
                let td = tcx.trait_def(did);
                let items: Vec<J> = tcx
                    .associated_items(did)
                    .in_definition_order()
                    .map(|it| {
                        J::obj(vec![
                            ("name", J::s(it.name().to_string())),
                            ("kind", J::s(format!("{:?}", tcx.def_kind(it.def_id)))),
                            ("has_default", J::b(it.defaultness(tcx).has_value())),
                        ])
                    })
                    .collect();
                traits.push(J::obj(vec![
                    ("path", J::s(tcx.def_path_str(did))),
                    ("unsafe", J::b(td.safety.is_unsafe())),
                    ("items", J::Arr(items)),
                ]));
                if td.safety.is_unsafe() {
                    unsafe_items.push(J::obj(vec![
                        ("what", J::s("trait")),
                        ("user", J::b(true)),
                        ("span", span_json(tcx, tcx.def_span(did))),
                        ("owner_key", J::s(def_key(tcx, did))),
                        ("owner_path", J::s(tcx.def_path_str(did))),
                    ]));
                }
            }
            DefKind::Fn | DefKind::AssocFn => {
                let sig = tcx.fn_sig(did).skip_binder();
                if sig.safety().is_unsafe() {
                    unsafe_items.push(J::obj(vec![
                        ("what", J::s("fn")),
                        ("user", J::b(!tcx.def_span(did).from_expansion())),
                        ("span", span_json(tcx, tcx.def_span(did))),
                        ("owner_key", J::s(def_key(tcx, did))),
                        ("owner_path", J::s(tcx.def_path_str(did))),
                    ]));
                }
            }
            _ => {}
        }
    }
    let mut uv = UnsafeVisitor { tcx, out: Vec::new(), seen: Default::default() };
    tcx.hir_visit_all_item_likes_in_crate(&mut uv);
    unsafe_items.extend(uv.out);

    let features: Vec<J> = tcx
        .sess
        .opts
        .cg
        .target_feature
        .split(',')
        .filter(|s| !s.is_empty())
        .map(|s| J::s(s.to_string()))
        .collect();
    let _ = features;
    let cfgs: Vec<J> = tcx
        .sess
        .config
        .iter()
        .filter(|(k, _)| k.as_str() == "feature")
        .map(|(_, v)| J::s(v.map(|s| s.to_string()).unwrap_or_default()))
        .collect();
    J::obj(vec![
        ("crate", J::s(name.to_string())),
        ("rustc", J::s(rustc_interface::util::rustc_version_str().unwrap_or("?").to_string())),
        ("features", J::Arr(cfgs)),
        ("overflow_checks", J::b(tcx.sess.overflow_checks())),
        ("bodies", J::Arr(bodies)),
        ("adts", J::Arr(adts)),
        ("impls", J::Arr(impls)),
        ("traits", J::Arr(traits)),
        ("unsafe", J::Arr(unsafe_items)),
    ])
}
