"""C05 (and parts of C03/C19): index containers — R-OVF, panic-edge inventory,
R-NOWRITE-ON-REJECT, concatenation agreement of the two-level containers, R-ITER for their
iterators."""
import re
from core import Ctx, callee_tag, classify, describe, short, base_places, closure_sites
from model import Catalogue, self_field_targets, constructed
from expr import (infeasible, trees, tree, show, facts_at, operand_tree, place_tree, lin, lin_eq, reach_strict,
                  CMP_OPS)
from r_append import two_level, fmt_facts
from r_bound import norm_len, nlin

STRIDE = "impls::index::Stride"


def places_in(t, out=None):
    out = out if out is not None else []
    if isinstance(t, tuple):
        if t and t[0] == "place":
            out.append(t)
        else:
            for x in t:
                if isinstance(x, tuple):
                    places_in(x, out)
    return out


def tainted_fields(F, cat):
    """variant fields of Stride that may hold a pushed value: fixpoint over the aggregates that
    Stride::push stores into *self"""
    b = stride_push(F)
    if b is None:
        return set(), None
    ctx = Ctx(b)
    taint = set()
    changed = True
    while changed:
        changed = False
        for bi in b.live_blocks():
            for si, st in enumerate(b.blocks[bi]["stmts"]):
                if st["k"] != "assign":
                    continue
                rv = st["rv"]
                if rv["k"] == "aggregate" and rv.get("adt") == STRIDE:
                    for idx, op in enumerate(rv["ops"]):
                        t = operand_tree(ctx, op)
                        if is_tainted(t, taint):
                            key = ("v:" + rv["variant_name"], "f:%d" % idx)
                            if key not in taint:
                                taint.add(key)
                                changed = True
                else:
                    # stores through field references: (*self as V).k = value
                    pl = st["place"]
                    if pl["p"]:
                        tgt = place_tree(ctx, pl)
                        val = trees(ctx, ctx.org.rvalue(rv, bi, si))
                        if tgt[0] == "place" and tgt[2] == ("arg", 1) and len(tgt[3]) == 2 and \
                                is_tainted(val, taint):
                            key = tuple(tgt[3])
                            if key not in taint:
                                taint.add(key)
                                changed = True
    return taint, b


def is_tainted(t, taint):
    for p in places_in(t):
        if p[2] == ("arg", 2):
            return True
        if p[2] == ("arg", 1) and tuple(p[3][:2]) in taint:
            return True
        if p[2] == ("arg", 1) and len(p[3]) >= 3 and tuple(p[3][-2:]) in taint:
            return True
    return False


def stride_push(F):
    bs = [b for b in F.bodies.values() if b.self_adt == STRIDE and b.name == "push" and b.trait is None]
    return bs[0] if bs else None


def is_last_element_form(t, taint):
    """stride * (count - 1) with both operands fields of the same variant"""
    if t[0] != "bin" or t[1] != "Mul":
        return False
    a, b = t[2], t[3]
    for (s, c) in ((a, b), (b, a)):
        if s[0] == "place" and s[2] == ("arg", 1) and tuple(s[3][-2:]) in taint:
            if c[0] == "bin" and c[1] == "Sub" and c[3] == ("const", "1") and c[2][0] == "place" \
                    and c[2][2] == ("arg", 1) and c[2][3][:-1] == s[3][:-1]:
                return True
    return False


def r_accept_exact(F, R, cat=None):
    """`Stride::push` accepts a value by comparing it with the next element of the progression,
    stride * count.  The comparison has to be with the exact product: `checked_mul` (None when it
    overflows) compares equal to no value.  Arithmetic that *substitutes* a value on overflow --
    saturating_mul / saturating_add / wrapping_mul / wrapping_add -- makes an ordinary pushed value
    (usize::MAX, or the wrapped product) compare equal to a product that does not exist: the
    value is accepted as a step, and `index` (which multiplies exactly) reads something else or
    overflows.  Positive evidence: a branch of Stride::push whose condition relates the pushed
    value to such a call on the stored state."""
    from core import all_ctxs
    from expr import edge_facts, nobb
    from r_alloc import walk
    SUBST = ("saturating_mul", "saturating_add", "wrapping_mul", "wrapping_add", "unchecked_mul", "unchecked_add")
    n = 0
    for b in F.bodies.values():
        if b.self_adt != STRIDE or b.name != "push" or b.trait is not None or b.in_tests():
            continue
        R.saw(b)
        for ctx in all_ctxs(F, b):
            body = ctx.body
            for s_ in sorted(body.live_blocks()):
                if body.term(s_)["k"] != "switch":
                    continue
                seen_here = False
                for (_tgt, fs) in edge_facts(ctx, s_):
                    for f in fs:
                        xs = [nobb(x) for x in f[1:3] if isinstance(x, tuple)]
                        calls = [nd for x in xs for nd in walk(x) if nd[0] == "call" and nd[1][1] in SUBST]
                        item = any(nd[0] == "place" and nd[2] == ("arg", 2) for x in xs for nd in walk(x))
                        state = any(nd[0] == "place" and nd[2] == ("arg", 1) for c in calls for nd in walk(c))
                        if f[0] in ("Eq", "Ne", "truthy") and item:
                            n += 1
                        if calls and item and state and not seen_here:
                            seen_here = True
                            if any(callee_tag(t_.get("callee"))[1] in ("checked_mul", "overflowing_mul", "checked_add", "overflowing_add",
                                                                      "widening_mul", "carrying_mul")
                                   for c_ in all_ctxs(F, b) for (_b, t_) in c_.body.calls()):
                                R.undecided_site("R-OVF", b.label(), "the pushed value is compared with %s, and the function also checks "
                                                 "for overflow separately: whether the check covers this comparison is not decided" %
                                                 show(calls[0])[:80])
                                continue
                            R.check("R-OVF", b.label(), False, construct="acceptance compares with the exact next element",
                                    where="%s:%s" % (body.file, body.term(s_).get("line", b.line)),
                                    detail="the pushed value is compared with %s: on overflow the call substitutes a value "
                                           "(usize::MAX / the wrapped product) that an ordinary pushed value can equal, which is then "
                                           "accepted as a step although stride * count does not exist" % show(calls[0])[:80])
    R.info("R-OVF: %d comparisons of the pushed value in Stride::push inspected" % n)


def r_ovf(F, R, cat=None):
    cat = cat or Catalogue(F)
    taint, pb = tainted_fields(F, cat)
    if pb is None:
        R.floor("R-OVF", "Stride::push", 0, 1)
        return
    R.extra["tainted_stride_fields"] = sorted("%s.%s" % (a[2:], b[2:]) for (a, b) in taint)
    R.floor("R-OVF", "Stride fields tainted by pushed values", len(taint), 2)
    write_side = [pb] + [b for b in F.bodies.values() if not b.in_tests() and (
        (b.self_adt in ("impls::index::IndexList", "impls::index::IndexOptimized") and
         b.name in ("push", "extend")))]
    read_side = [b for b in F.bodies.values() if b.self_adt == STRIDE and b.name in ("index", "len")
                 and b.trait is None]
    # count field of every variant (from the last-element forms stride * (count - 1)), and the
    # variants whose len() is exactly that count
    counts = {}
    for b in [pb] + read_side:
        c0 = Ctx(b)
        for bi in sorted(b.live_blocks()):
            t = b.term(bi)
            if t["k"] == "assert" and t.get("msg") == "overflow" and t["op"] == "Mul":
                node = ("bin", "Mul", operand_tree(c0, t["a"]), operand_tree(c0, t["b"]))
                if is_last_element_form(node, taint):
                    for x in (node[2], node[3]):
                        if x[0] == "bin" and x[1] == "Sub":
                            counts[tuple(x[2][3][:-1])] = tuple(x[2][3])
    len_is_count = set()
    from expr import ret_alts, nobb
    for lb in [b for b in read_side if b.name == "len"]:
        for alt in ret_alts(Ctx(lb)):
            alt = nobb(alt)
            if alt[0] == "place" and alt[2] == ("arg", 1):
                for (variant, cnt) in counts.items():
                    if tuple(alt[3]) == cnt:
                        len_is_count.add(variant)
    R.extra["stride_count_fields"] = sorted("%s -> %s%s" % ("/".join(v), "/".join(c), " (= len)" if v in len_is_count else "")
                                            for (v, c) in counts.items())
    n = 0
    for b in write_side + read_side:
        R.saw(b)
        ctx = Ctx(b)
        writing = b in write_side
        for bi in sorted(b.live_blocks()):
            t = b.term(bi)
            if t["k"] != "assert" or t.get("msg") != "overflow":
                continue
            n += 1
            a = operand_tree(ctx, t["a"])
            c = operand_tree(ctx, t["b"])
            node = ("bin", t["op"], a, c)
            tainted = is_tainted(a, taint) or is_tainted(c, taint)
            where = "%s:%s" % (b.file, t["line"])
            if not tainted:
                R.check("R-OVF", b.label(), True, construct="%s(%s) counter arithmetic" % (t["op"], show(node)),
                        where=where, detail="operands hold no pushed value", nontrivial=True)
                continue
            ok = False
            why = "overflow-checked arithmetic on a pushed value: panics in overflow-checked builds, wraps otherwise"
            if is_last_element_form(node, taint):
                ok = True
                why = "stride*(count-1) = the last accepted element, which was compared equal to a usize"
            elif not writing and t["op"] == "Mul":
                # read side: stride * position, position is the (guarded) parameter.  The product
                # is known to fit only for position <= count - 1 (stride * (count - 1) is an
                # element that was pushed).  Where the variant's length *is* its count, the
                # caller's position < len (R-BOUND at every call site) gives that; where the
                # length is larger (a repeated tail), the multiplication itself must sit under
                # position < count.
                for (s, p, p_op) in ((a, c, t["b"]), (c, a, t["a"])):
                    if p[0] == "phi" and s[0] == "place" and s[2] == ("arg", 1) and p_op.get("k") in ("copy", "move") and \
                            counts.get(tuple(s[3][:-1])) is not None:
                        # `let position = if index < steps { index } else { steps - 1 }; stride * position`:
                        # each alternative is judged where it is selected
                        from r_codec import literal_selection_blocks
                        from expr import nobb
                        cnt_ = counts[tuple(s[3][:-1])]
                        all_ok = True
                        for alt in p[1]:
                            na = nobb(alt)
                            if na[0] == "bin" and na[1] == "Sub" and na[3] == ("const", "1") and na[2][0] == "place" and \
                                    tuple(na[2][3]) == cnt_:
                                continue  # the last accepted element
                            if na == ("place", b.key, ("arg", 2), ()):
                                sel = literal_selection_blocks(ctx, p_op, (("arg", 2), ()))
                                good_sel = bool(sel) and all(any(
                                    (f[0] == "Lt" and nobb(f[1]) == na and f[2][0] == "place" and tuple(f[2][3]) == cnt_) or
                                    (f[0] == "Gt" and nobb(f[2]) == na and f[1][0] == "place" and tuple(f[1][3]) == cnt_)
                                    for f in facts_at(ctx, sb)) for sb in sel)
                                if good_sel:
                                    continue
                            all_ok = False
                        if all_ok:
                            ok = True
                            why = "stride * (position under position < count, else count - 1): bounded by the last accepted element"
                            continue
                for (s, p) in ((a, c), (c, a)):
                    if p[0] == "call" and p[1][1] == "min" and len(p[2]) == 2 and s[0] == "place" and s[2] == ("arg", 1):
                        # stride * min(position, count - 1): never beyond the last accepted element
                        cnt_ = counts.get(tuple(s[3][:-1]))
                        if cnt_ is not None and any(
                                x[0] == "bin" and x[1] == "Sub" and x[3] == ("const", "1") and x[2][0] == "place" and
                                tuple(x[2][3]) == cnt_ for x in p[2]):
                            ok = True
                            why = "stride * min(.., count - 1): bounded by the last accepted element"
                            continue
                    if p == ("place", b.key, ("arg", 2), ()) and s[0] == "phi" and len(s[1]) > 1 and all(
                            x[0] == "place" and x[2] == ("arg", 1) and x[3] for x in s[1]):
                        # one multiplication shared by several variants (an or-pattern arm
                        # `Striding(stride, _) | Saturated(stride, _, _) => stride * index`): each
                        # variant's way into the block is judged on its own
                        vnames = [v["name"] for v in F.adts[STRIDE]["variants"]] if STRIDE in F.adts else []
                        self_p = ("place", b.key, ("arg", 1), ())
                        all_ok = True
                        for alt in s[1]:
                            variant = tuple(alt[3][:-1])
                            cnt = counts.get(variant)
                            if cnt is None or variant in len_is_count:
                                continue
                            # blocks through which this variant reaches the multiplication
                            seen, stack, ends = set(), [bi], []
                            while stack:
                                x = stack.pop()
                                if x in seen:
                                    continue
                                seen.add(x)
                                vf = [f[2] for f in facts_at(ctx, x) if f[0] == "variant" and f[1] == self_p and isinstance(f[2], str)]
                                if vf:
                                    ends.append((x, vf[0]))
                                else:
                                    stack.extend(b.preds(x))
                            for (x, vi) in ends:
                                if not (vi.isdigit() and int(vi) < len(vnames) and ("v:" + vnames[int(vi)],) == variant[-1:]):
                                    continue
                                if not any((f[0] == "Lt" and f[1] == p and f[2][0] == "place" and tuple(f[2][3]) == cnt) or
                                           (f[0] == "Gt" and f[2] == p and f[1][0] == "place" and tuple(f[1][3]) == cnt)
                                           for f in facts_at(ctx, x)):
                                    all_ok = False
                        ok = all_ok
                        why = ("stride * position shared by several variants; the variant with a repeated tail reaches it only under position < count"
                               if ok else "stride * position shared by several variants: the variant whose len() exceeds its count "
                               "reaches it without position < count (panics in overflow-checked builds, wraps otherwise)")
                        continue
                    if p == ("place", b.key, ("arg", 2), ()) and s[0] == "place" and s[2] == ("arg", 1):
                        variant = tuple(s[3][:-1])
                        cnt = counts.get(variant)
                        if cnt is None:
                            ok = True
                            why = "stride * position; position < len is the caller's obligation (R-BOUND at every call site); no count field known for this variant"
                        elif variant in len_is_count:
                            ok = True
                            why = "stride * position; this variant's len() is its count, and position < len is the caller's obligation (R-BOUND at every call site)"
                        else:
                            guarded = False
                            for f in facts_at(ctx, bi):
                                if f[0] == "Lt" and f[1] == p and f[2][0] == "place" and f[2][2] == ("arg", 1) \
                                        and tuple(f[2][3]) == cnt:
                                    guarded = True
                                if f[0] == "Gt" and f[2] == p and f[1][0] == "place" and f[1][2] == ("arg", 1) \
                                        and tuple(f[1][3]) == cnt:
                                    guarded = True
                            ok = guarded
                            why = ("stride * position under position < count" if guarded else
                                   "stride * position in a variant whose len() exceeds its count, without a dominating "
                                   "position < count: for a position in the repeated tail the product need not fit "
                                   "(panics in overflow-checked builds, wraps otherwise)")
            R.check("R-OVF", b.label(), ok, construct=ovf_key(t["op"], a, c), where=where, detail=why + ": " + show(node))
    R.floor("R-OVF", "overflow assertions inspected", n, 1)


def ovf_key(op, a, c):
    def nm(t):
        if t[0] == "place" and t[2] == ("arg", 1) and t[3]:
            v = [x for x in t[3] if x.startswith("v:")]
            f = t[3][-1][2:]
            names = {("Striding", "0"): "stride", ("Striding", "1"): "count",
                     ("Saturated", "0"): "stride", ("Saturated", "1"): "count",
                     ("Saturated", "2"): "reps"}
            return names.get((v[-1][2:] if v else "", f), show(t))
        if t[0] == "place" and t[2] == ("arg", 2):
            return "item"
        return show(t)
    return "%s(%s, %s)" % (op, nm(a), nm(c))


# ---------------------------------------------------------------------------------------------
# panic-edge inventory of the state-writing functions


def _types_behind(b, ctx, l, depth=0):
    """type names of local l and of the locals it is a plain copy of (generic `T` of an inlined
    helper resolves to the caller's concrete type)"""
    out = {b.locals[l]["ty"]["s"]}
    if depth > 5:
        return out
    for d_ in ctx.org.defs.get(l, ()):
        if d_[0] == () and d_[1] == "stmt":
            rv = ctx.org.stmt(*d_[2])["rv"]
            if rv["k"] in ("use", "cast") and rv["op"]["k"] in ("copy", "move") and not rv["op"]["place"]["p"]:
                out |= _types_behind(b, ctx, rv["op"]["place"]["l"], depth + 1)
    return out


def _payload_receivers(b, res_local):
    """types of the locals that receive the Ok payload of the Result held in res_local"""
    out = set()
    recv = set()
    for bi in b.live_blocks():
        for st in b.blocks[bi]["stmts"]:
            if st["k"] == "assign" and st["rv"]["k"] == "use" and st["rv"]["op"]["k"] in ("copy", "move"):
                pl = st["rv"]["op"]["place"]
                if pl["l"] == res_local and any(e["k"] == "downcast" and e.get("name") == "Ok" for e in pl["p"]) \
                        and not st["place"]["p"]:
                    recv.add(st["place"]["l"])
    for _ in range(3):
        for bi in b.live_blocks():
            for st in b.blocks[bi]["stmts"]:
                if st["k"] == "assign" and st["rv"]["k"] == "use" and st["rv"]["op"]["k"] in ("copy", "move") and \
                        not st["rv"]["op"]["place"]["p"] and st["rv"]["op"]["place"]["l"] in recv and not st["place"]["p"]:
                    recv.add(st["place"]["l"])
    for l in recv:
        out.add(b.locals[l]["ty"]["s"])
    return out


def _assertion_expansion(b, bi):
    """the diverging call at bi comes out of an assert-family macro: `assert_failed` (the _eq/_ne
    forms) or a panic whose message starts with `assertion failed`"""
    t = b.term(bi)
    tag = callee_tag(t.get("callee"))
    if tag[1] in ("assert_failed", "assert_failed_inner"):
        return True
    macs = [m for m in str(t.get("mac") or "").split(",") if m]
    if any(m in ("assert", "debug_assert", "assert_eq", "assert_ne", "debug_assert_eq", "debug_assert_ne") for m in macs):
        return True  # (with a custom message the text does not say "assertion failed")
    for a in t.get("args", []):
        if a.get("k") == "const" and "assertion failed" in str(a.get("s", "")):
            return True
    # panic_fmt(format_args!("assertion failed: ..")) -- look at the constants feeding the call
    for st in b.blocks[bi]["stmts"]:
        if "assertion failed" in repr(st.get("rv", "")):
            return True
    for p in b.preds(bi):
        for st in b.blocks[p]["stmts"]:
            if "assertion failed" in repr(st.get("rv", "")):
                return True
        pt = b.term(p)
        if pt["k"] == "call" and any("assertion failed" in str(a.get("s", "")) for a in pt.get("args", []) if isinstance(a, dict)):
            return True
    return False


def r_panic_edges(F, R):
    bodies = [b for b in F.bodies.values() if not b.in_tests() and (
        (b.self_adt in (STRIDE, "impls::index::IndexList", "impls::index::IndexOptimized") and
         b.name in ("push", "extend")) or
        (b.trait == "IndexContainer" and b.name in ("push", "extend")))]
    n = 0
    for b in bodies:
        R.saw(b)
        ctx = Ctx(b)
        for bi in sorted(b.live_blocks()):
            t = b.term(bi)
            where = "%s:%s" % (b.file, t["line"])
            if t["k"] == "assert":
                if t.get("msg") == "overflow":
                    continue  # R-OVF
                n += 1
                R.check("R-PANIC", b.label(), False, construct="assert %s" % t.get("msg"),
                        where=where, detail="unexpected panic edge in an index-container write path")
            elif t["k"] == "call":
                ce = t.get("callee")
                tag = callee_tag(ce)
                if t["target"] is None:
                    n += 1
                    if infeasible(ctx, bi):
                        R.info("R-PANIC: %s: the panic at %s is unreachable (its branch condition contradicts "
                               "a dominating branch on the same operands)" % (b.label(), where))
                        continue
                    # the Err arm of a usize -> u64 conversion (`match index.try_into() { Ok(v) => v,
                    # Err(_) => cold_panic() }`): same as the accepted `.unwrap()` of that conversion
                    dead_conv = False
                    for f in facts_at(ctx, bi):
                        x = f[1]
                        if f[0] == "variant" and x[0] == "call" and x[1] in (("TryInto", "try_into"), ("TryFrom", "try_from")) \
                                and len(x) == 5 and (f[2] == "1" or (isinstance(f[2], tuple) and f[2][0] == "not" and "0" in f[2][1])):
                            ct = b.term(x[4])
                            a0 = ct["args"][0] if ct["k"] == "call" and ct["args"] else None
                            if a0 is None or a0["k"] not in ("move", "copy") or ct["k"] != "call":
                                continue
                            # concrete types, also when the conversion sits in an inlined generic helper
                            src_tys = _types_behind(b, ctx, a0["place"]["l"])
                            dst = b.locals[ct["dest"]["l"]]["ty"]["s"]
                            dst_tys = {m.group(1) for m in [re.search(r"Result<([A-Za-z0-9_]+),", dst)] if m}
                            dst_tys |= _payload_receivers(b, ct["dest"]["l"])
                            if "usize" in src_tys and dst_tys & {"u64", "u128", "usize"} and \
                                    not (dst_tys & {"u8", "u16", "u32", "i8", "i16", "i32", "i64", "isize"}):
                                dead_conv = True
                    if dead_conv:
                        R.check("R-PANIC", b.label(), True, construct="panic on the Err arm of usize -> u64",
                                where=where, detail="accepted: the conversion cannot fail on supported targets")
                        continue
                    if t.get("exp") and tag[1] in ("assert_failed", "assert_failed_inner", "panic", "panic_fmt") and \
                            _assertion_expansion(b, bi):
                        # an assertion macro (`debug_assert!`, `assert!`): a deliberate fail-stop on a
                        # stated invariant; whether its condition can be false is value-level
                        R.undecided_site("R-PANIC", b.label(), "assertion at %s: that its condition always holds is not decided" % where)
                        continue
                    R.check("R-PANIC", b.label(), False, construct="diverging call %s" % tag[1],
                            where=where, detail="unexpected panic in an index-container write path")
                elif tag[1] in ("unwrap", "expect"):
                    n += 1
                    arg = operand_tree(ctx, t["args"][0])
                    ok = arg[0] == "call" and arg[1] in (("TryInto", "try_into"), ("TryFrom", "try_from")) \
                        and len(arg) == 5
                    if ok:
                        # the conversion's source is a usize (the pushed index itself or an element
                        # of the pushed batch): decided on the operand's type, not its provenance
                        ct = b.term(arg[4])
                        a0 = ct["args"][0] if ct["k"] == "call" and ct["args"] else None
                        ok = a0 is not None and a0["k"] in ("move", "copy") and \
                            b.locals[a0["place"]["l"]]["ty"]["s"] == "usize"
                    dst = ctx.body.locals[t["dest"]["l"]]["ty"]["s"]
                    ok = ok and dst in ("u64", "u128", "usize")
                    if not ok:
                        from expr import nobb as _nb3
                        a_ = _nb3(arg)
                        alts_ = a_[1] if a_[0] == "phi" else (a_,)
                        internal = all((x[0] == "agg" and str(x[1]).startswith(("Result::Ok", "Option::Some"))) or
                                       (x[0] == "call" and x[1][1] in ("from_residual",)) or
                                       (x[0] == "call" and x[1][0] not in ("Option", "Result", "Vec", "slice", "Iterator", "BTreeMap")
                                        and b.self_adt and x[1][0] == short(b.self_adt)) or
                                       (x[0] == "call" and x[1][1] in ("push", "index", "extend") and x[1][0] in ("IndexContainer", "IndexList", "Stride"))
                                       for x in alts_) and bool(alts_)
                        if internal:
                            # `self.try_push(x).unwrap()`: the crate's own fallible twin, unwrapped at the public boundary;
                            # which of its errors can arise is value-level (on the pinned tree: a usize -> u64 conversion)
                            R.undecided_site("R-PANIC", b.label(), "unwrap of an internal Result at %s (%s): whether its error can arise "
                                             "is not decided" % (where, show(a_)[:60]))
                            continue
                    R.check("R-PANIC", b.label(), ok,
                            construct="%s of %s" % (tag[1], show(arg)), where=where,
                            detail="accepted: usize -> %s conversion cannot fail on supported targets" % dst
                            if ok else "unwrap on a value that may be absent")
    R.floor("R-PANIC", "write-path bodies of index containers", len(bodies), 8)


# ---------------------------------------------------------------------------------------------
# R-NOWRITE-ON-REJECT


def r_nowrite_on_reject(F, R):
    b = stride_push(F)
    if b is None:
        R.floor("R-NOWRITE-ON-REJECT", "Stride::push", 0, 1)
        return
    R.saw(b)
    ctx = Ctx(b)
    false_blocks = []
    true_blocks = []

    def const_defs(l, depth=0):
        """[(block, is_false)] when local l is only ever assigned boolean constants (directly or
        through plain copies of such locals) -- `let accepted = match .. { .. => true, .. => false }`
        -- else None"""
        out = []
        for bi_ in sorted(b.live_blocks()):
            for st_ in b.blocks[bi_]["stmts"]:
                if st_["k"] == "assign" and st_["place"]["l"] == l and not st_["place"]["p"]:
                    rv_ = st_["rv"]
                    if rv_["k"] == "use" and rv_["op"]["k"] == "const":
                        out.append((bi_, rv_["op"].get("int") == "0"))
                    elif rv_["k"] == "use" and rv_["op"]["k"] in ("copy", "move") and not rv_["op"]["place"]["p"] and depth < 3:
                        sub = const_defs(rv_["op"]["place"]["l"], depth + 1)
                        if sub is None:
                            return None
                        out += sub
                    else:
                        return None
            t_ = b.term(bi_)
            if t_["k"] == "call" and t_["dest"]["l"] == l:
                return None
        return out or None
    merged_false = set()  # definition blocks of a `false` that reaches the exit through a result local
    for bi in sorted(b.live_blocks()):
        for st in b.blocks[bi]["stmts"]:
            if st["k"] == "assign" and st["place"]["l"] == 0 and not st["place"]["p"]:
                rv = st["rv"]
                if rv["k"] == "use" and rv["op"]["k"] == "const":
                    (false_blocks if rv["op"].get("int") == "0" else true_blocks).append(bi)
                elif rv["k"] == "use" and rv["op"]["k"] in ("copy", "move") and not rv["op"]["place"]["p"] and \
                        const_defs(rv["op"]["place"]["l"]) is not None:
                    for (db, is_false) in const_defs(rv["op"]["place"]["l"]):
                        if is_false:
                            false_blocks.append(db)
                            merged_false.add(db)
                        else:
                            true_blocks.append(db)
                else:
                    false_blocks.append(bi)  # non-constant result: treat as possibly false
    # a result computed by a call (e.g. a recursive self.push) may be false as well
    for bi in sorted(b.live_blocks()):
        t = b.term(bi)
        if t["k"] == "call" and t["dest"]["l"] == 0 and not t["dest"]["p"]:
            false_blocks.append(bi)
    stores = []
    for bi in sorted(b.live_blocks()):
        for st in b.blocks[bi]["stmts"]:
            if st["k"] == "assign" and st["place"]["p"]:
                tgt = place_tree(ctx, st["place"])
                if tgt[0] == "place" and tgt[2] == ("arg", 1):
                    stores.append((bi, st["line"]))
        t = b.term(bi)
        if t["k"] == "call":
            # calls handing out &mut self
            for a in t["args"]:
                if a["k"] in ("move", "copy"):
                    l = a["place"]["l"]
                    ty = b.locals[l]["ty"]
                    if ty["mut"] and any(r == ("arg", 1) for (r, p) in ctx.org.operand(a)):
                        stores.append((bi, t["line"]))
    R.floor("R-NOWRITE-ON-REJECT", "rejecting exits of Stride::push", len(false_blocks), 1)
    R.floor("R-NOWRITE-ON-REJECT", "state writes of Stride::push", len(stores), 1)
    # result trees of the non-constant exits: a write is fine when it happens under a guard that
    # makes that very result true (`let accepted = cond; if accepted { write } accepted`)
    result_tree = {}
    for bi in sorted(b.live_blocks()):
        for si, st in enumerate(b.blocks[bi]["stmts"]):
            if st["k"] == "assign" and st["place"]["l"] == 0 and not st["place"]["p"]:
                rv = st["rv"]
                if not (rv["k"] == "use" and rv["op"]["k"] == "const"):
                    result_tree[bi] = trees(ctx, ctx.org.rvalue(rv, bi, si))

    def guarded_true(sb, fb):
        tr = result_tree.get(fb)
        if tr is None:
            return False
        from expr import nobb as _nb
        for f in facts_at(ctx, sb):
            if tr[0] == "bin" and f[0] == tr[1] and f[1] == tr[2] and f[2] == tr[3]:
                return True
            if f[0] == "truthy" and f[1] == tr and f[2] is True:
                return True
            # `if let Some(n) = next { *self = n } next.is_some()`: the write sits on the Some edge of
            # the very option whose is_some() is the result
            if f[0] == "variant" and tr[0] == "call" and tr[1][1] in ("is_some", "is_ok") and tr[2] and not tr[3] and \
                    _nb(f[1]) == _nb(tr[2][0]) and f[2] == ("1" if tr[1][1] == "is_some" else "0"):
                return True
        return False
    def on_some_edge_of_result(sb, fb):
        """the result is `x.is_some()` / `x.is_ok()` of a local option x computed at fb, and the
        store at sb sits on the Some / Ok arm of a branch on that same local (nothing assigns x
        in between): the write happens exactly when the result is true"""
        t_ = b.term(fb)
        if t_["k"] != "call" or callee_tag(t_.get("callee"))[1] not in ("is_some", "is_ok") or len(t_["args"]) != 1:
            return False
        want = "1" if callee_tag(t_.get("callee"))[1] == "is_some" else "0"
        a_ = t_["args"][0]
        xl = None
        if a_["k"] in ("copy", "move") and not a_["place"]["p"]:
            for st_ in b.blocks[fb]["stmts"]:
                if st_["k"] == "assign" and st_["place"]["l"] == a_["place"]["l"] and st_["rv"]["k"] == "ref" and not st_["rv"]["place"]["p"]:
                    xl = st_["rv"]["place"]["l"]
        if xl is None:
            return False
        for s_ in b.live_blocks():
            ts_ = b.term(s_)
            if ts_["k"] != "switch" or ts_["discr"]["k"] not in ("copy", "move"):
                continue
            dl = ts_["discr"]["place"]["l"]
            if not any(st_["k"] == "assign" and st_["place"]["l"] == dl and st_["rv"]["k"] == "discr" and
                       st_["rv"]["place"]["l"] == xl and not st_["rv"]["place"]["p"] for st_ in b.blocks[s_]["stmts"]):
                continue
            arm = [tg for (v, tg) in ts_["arms"] if v == want]
            def builds_variant(p_):
                last = None
                for st_ in b.blocks[p_]["stmts"]:
                    if st_["k"] == "assign" and st_["place"]["l"] == xl and not st_["place"]["p"]:
                        last = st_["rv"]
                return last is not None and last["k"] == "aggregate" and str(last.get("variant")) == want
            if arm and (sb == arm[0] or b.dominates(arm[0], sb)) and \
                    all(p_ == s_ or builds_variant(p_) for p_ in b.preds(arm[0])):  # (jump threading sends known variants straight to the arm)
                # x is not reassigned between the branch and the result
                reass = [bi_ for bi_ in b.live_blocks() for st_ in b.blocks[bi_]["stmts"]
                         if st_["k"] == "assign" and st_["place"]["l"] == xl and not st_["place"]["p"]
                         and (bi_ == arm[0] or b.dominates(arm[0], bi_))]
                if not reass:
                    return True
        return False
    for fb in false_blocks:
        bad = [(sb, ln) for (sb, ln) in stores if (sb == fb or fb in reach_strict(b, sb) or
                                                   (fb in merged_false and sb in reach_strict(b, fb)))
               and not guarded_true(sb, fb) and not on_some_edge_of_result(sb, fb)]
        R.check("R-NOWRITE-ON-REJECT", b.label(), not bad,
                construct="rejecting exit reached after a write through self",
                where="%s (rejecting block bb%d)" % (b.where(), fb),
                detail="writes at lines %s precede `false`" % [ln for (_, ln) in bad] if bad
                else "no write through self on any path to this `false`")


# ---------------------------------------------------------------------------------------------
# concatenation agreement + R-ITER of index iterators


def field_place(b, fld):
    return ("place", b.key, ("arg", 1), ("f:" + fld,))


def nobb_(t):
    from expr import nobb
    return nobb(t)


def _verdict_from_first(ctx, bi, first_place):
    """a dominating branch of block bi is taken on the discriminant of a value returned by a call
    (other than len) whose receiver is the first level"""
    from expr import guards
    def has_call_on(t):
        if not isinstance(t, tuple):
            return False
        if t and t[0] == "call" and len(t) >= 3 and not (isinstance(t[1], tuple) and t[1][-1] in ("len", "is_empty")):
            if _mentions(t[2:], first_place):
                return True
        return any(has_call_on(x) for x in t)
    for g in guards(ctx, bi):
        cond = g[0]
        if isinstance(cond, tuple) and cond and cond[0] == "discr" and has_call_on(cond):
            return True
    return False


def _mentions(t, place):
    if t == place:
        return True
    if isinstance(t, tuple):
        if len(t) == 4 and t[0] == "place" and place[0] == "place" and t[:3] == place[:3] and t[3][:len(place[3])] == place[3]:
            return True
        return any(_mentions(x, place) for x in t)
    return False


def r_concat(F, R, cat=None):
    cat = cat or Catalogue(F)
    tl = two_level(F, cat)
    R.floor("R-CONCAT", "two-level index containers", len(tl), 2)
    for (adt, first, second, ib) in tl:
        # index: else-branch position = i - len(first)
        ctx = Ctx(ib)
        R.saw(ib)
        for (bi, t) in ib.calls():
            tag = callee_tag(t.get("callee"))
            if tag[1] != "index" or len(t["args"]) < 2:
                continue
            recv = operand_tree(ctx, t["args"][0])
            pos = norm_len(operand_tree(ctx, t["args"][1]))
            param = ("place", ib.key, ("arg", 2), ())
            if recv == field_place(ib, first):
                ok = lin_eq(nlin(pos), nlin(param))
                R.check("R-CONCAT", ib.label(), ok, construct="%s.index(i)" % first,
                        where="%s:%s" % (ib.file, t["line"]), detail="position " + show(pos))
            elif recv == field_place(ib, second):
                want = ("bin", "Sub", param, call_len_of(ib, first, pos))
                d = nlin(pos)
                ok = len(d) == 2 and d.get(param) == 1 and any(
                    v == -1 and isinstance(k, tuple) and is_len_of(k, field_place(ib, first))
                    for k, v in d.items() if k != param)
                R.check("R-CONCAT", ib.label(), ok, construct="%s.index(i - %s.len())" % (second, first),
                        where="%s:%s" % (ib.file, t["line"]), detail="position " + show(pos))
                # ... and only for positions that are not in the first level: i >= first.len()
                ge = False
                for f in facts_at(ctx, bi):
                    if f[0] in ("Ge", "Le", "Lt", "Gt"):
                        op, x, y = f[0], norm_len(f[1]), norm_len(f[2])
                        if op in ("Le", "Lt"):
                            op = {"Le": "Ge", "Lt": "Gt"}[op]
                            x, y = y, x
                        if op == "Ge" and lin_eq(nlin(x), nlin(param)) and is_len_of(nobb_(y), field_place(ib, first)):
                            ge = True
                if not ge and (_verdict_from_first(ctx, bi, field_place(ib, first)) or
                               any("Stride" in p_ and p_.split("::")[-1] not in ("index", "len") for p_ in ib.d.get("inlined", []))):
                    # the branch is taken on the Option an unmodelled lookup of the first level
                    # returned (`match self.first.get(i) { None => self.second.index(i - len) }`):
                    # whether None means exactly i >= len is that helper's contract -- undecided
                    R.undecided_site("R-CONCAT", ib.label(), "%s is consulted on the outcome of a lookup helper of %s "
                                     "the rule has no model for" % (second, first))
                    continue
                R.check("R-CONCAT", ib.label(), ge, construct="%s consulted only for i >= %s.len()" % (second, first),
                        where="%s:%s" % (ib.file, t["line"]),
                        detail="dominating fact i >= %s.len()" % first if ge else
                        "no dominating fact i >= %s.len(): a position that lies in %s would be looked up in %s "
                        "(at i - %s.len(), which underflows)" % (first, first, second, first))
            elif recv[0] == "place" and recv[2] == ("arg", 1) and len(recv[3]) == 2 and recv[3][0] == "f:" + second:
                # the second level is itself a two-level container and index() resolves the
                # position in one of its levels directly: position = i - (lengths of all levels
                # that come before it in the flattened order)
                fty = next((f["ty"]["s"] for f in F.adts[adt]["variants"][0]["fields"] if f["name"] == second), "")
                nested = next(((a2, f2, s2) for (a2, f2, s2, _) in tl if a2 != adt and a2.split("::")[-1] in fty), None)
                leaf = recv[3][1][2:]
                if nested is None or leaf not in (nested[1], nested[2]):
                    R.undecided_site("R-CONCAT", ib.label(), "index() reaches into %s.%s, which is not a level of a known two-level container" % (second, leaf))
                    continue
                before = [("f:" + first,)]
                if leaf == nested[2]:
                    before.append(("f:" + second, "f:" + nested[1]))
                d = nlin(pos)
                terms = {k: v for k, v in d.items() if k != param}
                matched = set()
                ok = d.get(param) == 1 and d.get(1, 0) == 0
                for k, v in terms.items():
                    if k == 1:
                        continue
                    hit = next((pth for pth in before if isinstance(k, tuple) and
                                is_len_of(nobb_(k), ("place", ib.key, ("arg", 1), pth))), None)
                    if hit is None or v != -1 or hit in matched:
                        ok = False
                    else:
                        matched.add(hit)
                ok = ok and matched == set(before)
                R.check("R-CONCAT", ib.label(), ok,
                        construct="%s.%s.index(i - lengths of the levels before it)" % (second, leaf),
                        where="%s:%s" % (ib.file, t["line"]),
                        detail="position %s; levels before it: %s" % (show(pos), [".".join(x[2:] for x in pth) for pth in before]))
        # len = len(first) + len(second)
        for b in [x for x in F.bodies.values() if x.self_adt == adt and x.name == "len"
                  and not x.in_tests()]:
            c = Ctx(b)
            if forwards(b, c, "len"):
                continue
            R.saw(b)
            forms = [norm_len(tree(c, o)) for o in c.org.local(0)]
            ok = bool(forms)
            n_full = 0
            for (o, fm) in zip(c.org.local(0), forms):
                d = nlin(fm)
                ks = [k for k in d if k != 1]
                full = len(ks) == 2 and all(d[k] == 1 for k in ks) and \
                    {which_field(k, b) for k in ks} == {first, second} and d.get(1, 0) == 0
                if not full and len(ks) >= 2 and all(d[k] == 1 for k in ks) and d.get(1, 0) == 0:
                    # the nested list's two levels added directly (`strided.len() + spilled.smol.len()
                    # + spilled.chonk.len()`): the same sum, flattened
                    full = _flattened_levels({_len_path(k) for k in ks}, F, adt, first, second, tl)
                if full:
                    n_full += 1
                    continue
                # fast path: one level's length, returned where the other level is known to be empty
                part = len(ks) == 1 and d[ks[0]] == 1 and d.get(1, 0) == 0 and which_field(ks[0], b) in (first, second)
                if part and o[0][0] == "call":
                    other = second if which_field(ks[0], b) == first else first
                    known_empty = any(
                        f[0] == "truthy" and f[2] is True and f[1][0] == "call" and f[1][1][1] == "is_empty" and
                        f[1][2] and f[1][2][0] == field_place(b, other) for f in facts_at(c, o[0][1]))
                    if known_empty:
                        continue
                ok = False
            ok = ok and n_full >= 1
            R.check("R-CONCAT", b.label(), ok, construct="len = %s.len() + %s.len()" % (first, second),
                    where=b.where(), detail="len() returns %s" % [show(f) for f in forms])
        # is_empty = both empty
        for b in [x for x in F.bodies.values() if x.self_adt == adt and x.name == "is_empty"
                  and not x.in_tests()]:
            c = Ctx(b)
            if forwards(b, c, "is_empty"):
                continue
            R.saw(b)
            fields = set()
            consts = set()
            for o in c.org.local(0):
                t = tree(c, o)
                if t[0] == "const":
                    consts.add(t[1])
                elif t[0] == "call" and t[1][1] == "is_empty" and t[2] and t[2][0][0] == "place":
                    fields.add(t[2][0][3][0][2:] if t[2][0][3] else "?")
                else:
                    fields.add("?" + show(t))
            # every is_empty call of both fields must occur, and `true` is never a constant result
            called = set()
            for (bi, t) in b.calls():
                if callee_tag(t.get("callee"))[1] == "is_empty":
                    r = operand_tree(c, t["args"][0])
                    if r[0] == "place" and r[3]:
                        called.add(r[3][0][2:])
            ok = called == {first, second} and consts <= {"false"} and fields <= {first, second}
            if not ok and consts <= {"false"}:
                # is_empty over the flattened levels (`strided.is_empty() && spilled.smol.is_empty() && ..`)
                paths = set()
                for (bi, t) in b.calls():
                    if callee_tag(t.get("callee"))[1] == "is_empty":
                        r = operand_tree(c, t["args"][0])
                        if r[0] == "place" and r[2] == ("arg", 1) and r[3]:
                            paths.add(tuple(x[2:] for x in r[3] if x.startswith("f:")))
                # a level that is an enum may be tested by its discriminant (`matches!(self.strided, Stride::Empty)`)
                for blk in b.blocks:
                    for st in blk["stmts"]:
                        if st["k"] == "assign" and st["rv"]["k"] == "discr":
                            for (r_, p_) in c.org.place(st["rv"]["place"]):
                                if r_ == ("arg", 1) and p_ and p_[0].startswith("f:"):
                                    paths.add((p_[0][2:],))
                ok = _flattened_levels(paths, F, adt, first, second, tl)
            R.check("R-CONCAT", b.label(), ok,
                    construct="is_empty = %s.is_empty() && %s.is_empty()" % (first, second),
                    where=b.where(), detail="result from %s / constants %s; calls on %s" % (
                        sorted(fields), sorted(consts), sorted(called)))
        # iter(): first then second, and the iterator's next() prefers its first field
        for b in [x for x in F.bodies.values() if x.self_adt == adt and x.name == "iter"
                  and not x.in_tests()]:
            c = Ctx(b)
            R.saw(b)
            aggs = [(r, p) for (r, p) in c.org.local(0) if r[0] == "agg"]
            ok = len(aggs) == 1
            iter_adt = None
            mapping = {}
            if ok:
                rv = c.org.stmt(aggs[0][0][1], aggs[0][0][2])["rv"]
                iter_adt = rv.get("adt")
                for nm, op in zip(rv.get("fields", []), rv["ops"]):
                    t = operand_tree(c, op)
                    if t[0] == "call" and t[1][1] == "iter" and t[2] and t[2][0][0] == "place" and t[2][0][3]:
                        mapping[nm] = t[2][0][3][0][2:]
                ok = sorted(mapping.values()) == sorted([first, second])
            R.check("R-ITER", b.label(), ok, construct="iter() builds {%s.iter(), %s.iter()}" % (first, second),
                    where=b.where(), detail="iterator fields: %s" % mapping)
            if ok and iter_adt:
                check_iter_next(F, R, iter_adt, mapping, first, second)
                check_iter_others(F, R, iter_adt, mapping, first, second)


def call_len_of(b, fld, _):
    return None


def is_len_of(k, place):
    return (k[0] == "len" and k[1] == place) or \
        (k[0] == "call" and k[1][1] == "len" and k[2] and k[2][0] == place)


def which_field(k, b):
    if k[0] == "len" and k[1][0] == "place" and k[1][3]:
        return k[1][3][0][2:]
    if k[0] == "call" and k[1][1] == "len" and k[2] and k[2][0][0] == "place" and k[2][0][3]:
        return k[2][0][3][0][2:]
    return None


def forwards(b, ctx, name):
    calls = b.calls()
    if len(calls) == 1:
        (bi, t) = calls[0]
        tag = callee_tag(t.get("callee"))
        if tag[1] == name and t["args"]:
            r = operand_tree(ctx, t["args"][0])
            return r == ("place", b.key, ("arg", 1), ())
    return False


def check_iter_next(F, R, iter_adt, mapping, first, second):
    """next() consults the first iterator, and the second only once the first reported None"""
    from expr import ret_alts, nobb, NONE
    from r_bracket import walk
    nb = [b for b in F.bodies.values() if b.self_adt == iter_adt and b.name == "next"
          and b.trait == "Iterator"]
    if not nb:
        R.check("R-ITER", iter_adt, False, construct="Iterator::next exists", detail="no next() found")
        return
    b = nb[0]
    R.saw(b)
    c = Ctx(b)
    ffield = [k for k, v in mapping.items() if v == first][0]
    sfield = [k for k, v in mapping.items() if v == second][0]
    fplace = ("place", b.key, ("arg", 1), ("f:" + ffield,))
    splace = ("place", b.key, ("arg", 1), ("f:" + sfield,))
    n1 = [(bi, t) for (bi, t) in b.calls() if callee_tag(t.get("callee")) == ("Iterator", "next")
          and operand_tree(c, t["args"][0]) == fplace]
    n2 = [(bi, t) for (bi, t) in b.calls() if callee_tag(t.get("callee")) == ("Iterator", "next")
          and operand_tree(c, t["args"][0]) == splace]
    why = []
    ok = bool(n1)
    if not n1:
        why.append("never calls %s.next()" % ffield)
    # second consulted directly in this body: must be under "first is exhausted"
    for (bi, t) in n2:
        facts = facts_at(c, bi)
        exhausted = False
        for f in facts:
            x = f[1]
            if f[0] == "variant" and x[0] == "call" and x[1] == ("Iterator", "next") and x[2] == (fplace,):
                if f[2] == "0" or (isinstance(f[2], tuple) and f[2][0] == "not" and "1" in f[2][1]):
                    exhausted = True
            if f[0] == "truthy" and x[0] == "call" and x[1][1] in ("is_some", "is_none") and x[2] and \
                    x[2][0][0] == "call" and x[2][0][1] == ("Iterator", "next") and x[2][0][2] == (fplace,):
                if (x[1][1] == "is_some" and f[2] is False) or (x[1][1] == "is_none" and f[2] is True):
                    exhausted = True
        if not exhausted:
            # reached under a test of *another* field of the iterator (a phase flag set once the
            # first part reported None): that the flag means "first part exhausted" is an invariant
            # of the type across calls, not a path property of next()
            state = [f for f in facts if f[0] in ("variant", "truthy", "Eq", "Ne") and isinstance(f[1], tuple) and
                     any(nd[0] == "place" and nd[2] == ("arg", 1) and nd[3] and nd[3][0] not in ("f:" + ffield, "f:" + sfield)
                         for nd in walk(f[1]))]
            if state:
                R.undecided_site("R-ITER", b.label(), "%s.next() at line %s runs under a test of other iterator state (%s): "
                                 "that this state implies %s is exhausted is not decided" % (
                                     sfield, t["line"], show(state[0][1])[:50], ffield))
                continue
            ok = False
            why.append("%s.next() at line %s is not conditional on %s being exhausted" % (sfield, t["line"], ffield))
    # second consulted in an or_else fallback of the first
    in_closure = False
    for (cbi, si, ckey, ops) in closure_sites(b):
        cb = F.body(ckey)
        cc = Ctx(cb)
        for (xbi, xt) in cb.calls():
            if callee_tag(xt.get("callee")) != ("Iterator", "next"):
                continue
            recv = operand_tree(cc, xt["args"][0])
            cap = None
            if recv[0] == "place" and recv[2] == ("arg", 1) and recv[3] and recv[3][0].startswith("u:"):
                cap = operand_tree(c, ops[int(recv[3][0][2:])])
            if cap == splace:
                in_closure = True
                # the closure must be the fallback of an or_else whose receiver comes from first.next()
                good = False
                for (bi, t) in b.calls():
                    if callee_tag(t.get("callee")) in (("Option", "or_else"),) and len(t["args"]) == 2:
                        clo = operand_tree(c, t["args"][1])
                        rc = operand_tree(c, t["args"][0])
                        if clo[0] == "agg" and clo[1] == "closure:" + ckey and has_next_of(rc, b.key, ffield):
                            good = True
                if not good:
                    ok = False
                    why.append("%s.next() in a closure that is not the or_else fallback of %s.next()" % (sfield, ffield))
            elif cap == fplace:
                ok = False
                why.append("%s.next() called from a fallback closure" % ffield)
    if not n2 and not in_closure:
        ok = False
        why.append("never consults %s" % sfield)
    # no reversing / skipping adaptors
    bad = [callee_tag(t.get("callee"))[1] for (_, t) in b.calls()
           if callee_tag(t.get("callee"))[1] in ("next_back", "rev", "skip", "step_by", "nth", "last")]
    ok = ok and not bad
    R.check("R-ITER", b.label(), ok, construct="next() yields %s then %s" % (first, second),
            where=b.where(), detail="; ".join(why) or "first consulted always, second only when the first is exhausted"
            + ("; forbidden adaptors %s" % bad if bad else ""))


def check_iter_others(F, R, iter_adt, mapping, first, second):
    """every other method of the concatenating iterator (nth, fold, last, ... overrides; inherent
    helpers) consumes from the second part only once the first is known to be exhausted.  Decided
    per consuming call on the second part: accepted when a dominating fact says `first.next()` was
    None (or a measure of the first part is 0); `undecided` when something on the way there
    consumed from / wrote to the first part (its state is then unknown to this rule); a violation
    when the first part is provably untouched and not known to be exhausted."""
    from core import all_ctxs
    from r_bracket import walk
    ffield0 = [k for k, v in mapping.items() if v == first][0]
    sfield0 = [k for k, v in mapping.items() if v == second][0]
    first0, second0 = first, second
    for b in F.bodies.values():
        if b.self_adt != iter_adt or b.kind != "AssocFn" or b.in_tests() or b.derived:
            continue
        if b.name in ("next", "size_hint") and b.trait == "Iterator":
            continue
        if b.trait not in (None, "Iterator", "DoubleEndedIterator", "ExactSizeIterator", "FusedIterator"):
            continue
        # methods that read from the back take from the second part first: the roles swap
        back = b.trait == "DoubleEndedIterator" or (b.trait == "Iterator" and b.name == "last")
        ffield, sfield, first, second = (sfield0, ffield0, second0, first0) if back else (ffield0, sfield0, first0, second0)
        ctxs = all_ctxs(F, b)
        top = ctxs[0]
        if b.name in ("last", "next_back") and b.trait in ("Iterator", "DoubleEndedIterator"):
            # read from the back: the answer is the second part's unless that part is empty.
            # Decided for the `a.or(b)` / `a.or_else(|| b)` shape on positive evidence only.
            from expr import nobb, apply_fn
            rt = nobb(trees(top, top.org.local(0)))
            if rt[0] == "call" and rt[1] in (("Option", "or"), ("Option", "or_else")) and len(rt[2]) == 2 and not rt[3]:
                pref = rt[2][0]
                fall = rt[2][1]
                if rt[1][1] == "or_else":
                    alts = apply_fn(F, fall, [])
                    fall = ("phi", tuple(sorted((nobb(x) for x in alts), key=repr)))

                def parts_in(t):
                    out = set()
                    for nd in walk(t):
                        if nd and nd[0] == "place" and nd[2] == ("arg", 1) and nd[3]:
                            if nd[3][0] == "f:" + ffield0:
                                out.add("first")
                            if nd[3][0] == "f:" + sfield0:
                                out.add("second")
                    return out
                pp, fp = parts_in(pref), parts_in(fall)
                if pp and fp and len(pp) == 1 and len(fp) == 1:
                    R.saw(b)
                    R.check("R-ITER", b.label(), pp == {"second"} and fp == {"first"},
                            construct="%s() answers from %s unless it is empty" % (b.name, second0), where=b.where(),
                            detail="preferred answer from the %s part (%s), fallback from the %s part" % (
                                next(iter(pp)), mapping[ffield0] if pp == {"first"} else mapping[sfield0], next(iter(fp))) +
                            ("" if pp == {"second"} else ": elements of %s come after those of %s, so the last "
                             "element is %s's whenever that part is not empty" % (second0, first0, second0)))
                    continue

        def part_of(ctx, op):
            """'first' / 'second' / None: which part an operand is rooted in, when handed over
            mutably or by value"""
            if op["k"] not in ("move", "copy"):
                return None
            ty = ctx.body.locals[op["place"]["l"]]["ty"]
            byval = op["k"] == "move" and not ty.get("ref") and not ty["s"].startswith("&") and \
                ty.get("k") not in ("uint", "int", "bool", "char", "float")  # a copied number is a read
            if not (ty.get("mut") or byval):
                return None
            for o in ctx.org.operand(op):
                for (c2, (r, pth)) in base_places(ctx, o):
                    if c2 is top and r == ("arg", 1) and pth[:1] == ("f:" + ffield,):
                        return "first"
                    if c2 is top and r == ("arg", 1) and pth[:1] == ("f:" + sfield,):
                        return "second"
            return None

        touches = []  # (ctx, bb) of calls / stores that may change the first part
        sites = []
        for ctx in ctxs:
            for (bi, t) in ctx.body.calls():
                tag = callee_tag(t.get("callee"))
                if classify(t.get("callee")) in ("measure", "read") or tag[1] in ("size_hint", "len", "clone"):
                    continue
                parts = {part_of(ctx, a) for a in t["args"]}
                if "first" in parts:
                    touches.append((ctx, bi))
                if "second" in parts:
                    sites.append((ctx, bi, t))
            for bi in ctx.body.live_blocks():
                for st in ctx.body.blocks[bi]["stmts"]:
                    if st["k"] == "assign" and st["place"]["p"]:
                        for o in ctx.org.place(st["place"]):
                            for (c2, (r, pth)) in base_places(ctx, o):
                                if c2 is top and r == ("arg", 1) and pth[:1] == ("f:" + ffield,):
                                    touches.append((ctx, bi))
        if not sites:
            continue
        R.saw(b)
        fplace = ("place", b.key, ("arg", 1), ("f:" + ffield,))

        def chain(ctx, bi):
            """[(ctx, bb)] of the site and of the points in the enclosing bodies it runs under"""
            out = [(ctx, bi)]
            while ctx.parent is not None:
                bi = ctx.consumer[0] if ctx.consumer else ctx.site_bb
                ctx = ctx.parent
                out.append((ctx, bi))
            return out

        for (ctx, bi, t) in sites:
            exhausted = False
            for f in facts_at(ctx, bi):
                x = f[1]
                if f[0] == "variant" and x[0] == "call" and x[1][1] in ("next", "next_back", "last", "nth", "nth_back") and \
                        x[1][0] in ("Iterator", "DoubleEndedIterator") and x[2] and x[2][0] == fplace:
                    if f[2] == "0" or (isinstance(f[2], tuple) and f[2][0] == "not" and "1" in f[2][1]):
                        exhausted = True
                if f[0] in ("Eq", "Le") and (f[2] == ("const", "0") or f[1] == ("const", "0")):
                    other = f[1] if f[2] == ("const", "0") else f[2]
                    if f[0] == "Eq" or f[2] == ("const", "0"):
                        if any(nd[0] == "place" and nd[1:3] == fplace[1:3] and tuple(nd[3][:1]) == fplace[3]
                               for nd in walk(other) if isinstance(nd, tuple) and nd):
                            exhausted = True
                if f[0] == "truthy" and f[2] is True and x[0] == "call" and x[1][1] == "is_empty" and \
                        any(nd[0] == "place" and nd[1:3] == fplace[1:3] and tuple(nd[3][:1]) == fplace[3]
                            for nd in walk(x) if isinstance(nd, tuple) and nd):
                    exhausted = True
            where = "%s:%s" % (b.file, t["line"])
            cons = "%s consumed only after %s is exhausted" % (second, first)
            if exhausted:
                R.check("R-ITER", b.label(), True, construct=cons, where=where,
                        detail="dominating fact: %s is exhausted" % first)
                continue
            touched = False
            for (sc, sb) in chain(ctx, bi):
                for (tc, tb) in touches:
                    if tc is sc and (tb == sb and (tc, tb) != (ctx, bi) or sb in reach_strict(sc.body, tb)):
                        touched = True
                    # a touch inside a closure that runs before the site
                    if tc is not sc:
                        for (uc, ub) in chain(tc, tb)[1:]:
                            if uc is sc and (ub == sb or sb in reach_strict(sc.body, ub)) and (tc, tb) != (ctx, bi):
                                touched = True
            if touched:
                R.undecided_site("R-ITER", b.label(), "%s is consumed at %s after code that advances or rewrites %s; "
                                 "whether %s is exhausted there is not decided" % (second, where, first, first))
                continue
            R.check("R-ITER", b.label(), False, construct=cons, where=where,
                    detail="%s is advanced although nothing on the way there consumed %s and no dominating fact "
                           "says %s is exhausted: elements of %s that were not yet yielded would come after "
                           "elements of %s" % (second, first, first, first, second))


def has_next_of(t, key, fld):
    if not isinstance(t, tuple):
        return False
    if t and t[0] == "call" and t[1] == ("Iterator", "next") and t[2] and \
            t[2][0] == ("place", key, ("arg", 1), ("f:" + fld,)):
        return True
    if t and t[0] == "call" and t[1][0] == "Option" and t[1][1] in ("map",) and t[2]:
        return has_next_of(t[2][0], key, fld)
    return False


def walk_(t):
    if isinstance(t, tuple):
        yield t
        for x in t:
            if isinstance(x, tuple):
                for y in walk_(x):
                    yield y


def r_stride_iter(F, R, cat=None):
    """StrideIter::next yields strided.index(self.index) and advances self.index by one after the
    read; Stride::iter starts at 0 with a copy of the stride"""
    from expr import ret_alts, nobb, NONE
    cat = cat or Catalogue(F)
    nb = [b for b in F.bodies.values() if b.self_adt == "impls::index::StrideIter" and b.name == "next"]
    R.floor("R-ITER", "StrideIter::next", len(nb), 1)
    for b in nb:
        R.saw(b)
        c, effs = cat.effects(b)
        idx_place = ("place", b.key, ("arg", 1), ("f:index",))
        str_place = ("place", b.key, ("arg", 1), ("f:strided",))
        somes = [nobb(t) for t in ret_alts(c) if t != NONE]
        want = ("agg", "Option::Some", (("call", ("Stride", "index"), (str_place, idx_place), ()),), ())
        hand_written = bool(somes) and not any(nd and nd[0] == "call" and nd[1] == ("Stride", "index") for t in somes for nd in walk_(t))
        if not somes:
            R.undecided_site("R-ITER", b.label(), "yielded value not recognised")
        elif hand_written:
            # next() computes the element itself, per variant, instead of asking Stride::index.
            # The element at position i is 0 (Zero), stride*i (Striding, and Saturated below its
            # step count) or stride*(steps-1) (the saturated tail): a yielded product of the
            # stride with another field of the variant *as it is* (stride*steps) is none of them --
            # positive evidence; any other arithmetic is value-level
            def fld(t, k=None):
                return t[0] == "place" and t[2] == ("arg", 1) and len(t[3]) == 3 and t[3][0] == "f:strided" and \
                    t[3][1].startswith("v:") and (k is None or t[3][2] == "f:%d" % k)
            bad_forms, odd = [], []
            for t in somes:
                v = t[2][0] if t[0] == "agg" and t[1] == "Option::Some" and t[2] else t
                if v == ("const", "0"):
                    continue
                if v[0] == "bin" and v[1] == "Mul" and any(fld(x, 0) for x in v[2:4]):
                    other = v[3] if fld(v[2], 0) else v[2]
                    if other == idx_place:
                        continue
                    if other[0] == "bin" and other[1] == "Sub" and fld(other[2], 1) and other[3] == ("const", "1"):
                        continue
                    if fld(other):
                        bad_forms.append(show(v))
                        continue
                odd.append(show(v)[:50])
            if bad_forms:
                R.check("R-ITER", b.label(), False, construct="yields the stride's element at the cursor",
                        where=b.where(), detail="next() yields %s: the product of the stride with a stored count is not an element of "
                        "the progression (positions below the step count read stride*position, the saturated tail stride*(steps-1))" % bad_forms)
            elif odd:
                R.undecided_site("R-ITER", b.label(), "next() does not go through Stride::index (yields %s): that these are the "
                                 "stride's elements at the cursor is not decided" % odd[:4])
            else:
                R.check("R-ITER", b.label(), True, construct="yields the stride's element at the cursor", where=b.where(),
                        detail="hand-written per variant: 0, stride*cursor, stride*(steps-1)")
        else:
            R.check("R-ITER", b.label(), all(t == want for t in somes), construct="yields strided.index(self.index)",
                    where=b.where(), detail="yields %s" % [show(t) for t in somes])
        # a running element advanced by the stride must not be advanced past the last element:
        # stride*count (the element *after* the last) is exactly the product Stride::push only ever
        # forms with checked_mul -- for a long stride it does not exist, and an eager
        # `current += stride` after yielding the last element overflows
        if hand_written:
            for bi_ in sorted(b.live_blocks()):
                t_ = b.term(bi_)
                if not (t_["k"] == "assert" and t_.get("msg") == "overflow" and t_["op"] == "Add"):
                    continue
                ops_ = [operand_tree(c, t_["a"]), operand_tree(c, t_["b"])]

                def stride_fld(x):
                    return x[0] == "place" and x[2] == ("arg", 1) and len(x[3]) == 3 and x[3][0] == "f:strided" and x[3][2] == "f:0"
                if not any(stride_fld(x) for x in ops_):
                    continue
                bounded = False
                for f in facts_at(c, bi_):
                    if f[0] in ("Lt", "Le", "Gt", "Ge") and any(isinstance(x, tuple) and any(
                            nd == idx_place for nd in walk_(x)) for x in f[1:3]) and any(
                            isinstance(x, tuple) and any(nd and nd[0] == "place" and nd[2] == ("arg", 1) and nd[3][:1] == ("f:strided",)
                                                         and len(nd[3]) == 3 and nd[3][2] in ("f:1", "f:2") for nd in walk_(x)) for x in f[1:3]):
                        bounded = True
                if bounded:
                    R.undecided_site("R-ITER", b.label(), "a running element is advanced by the stride at %s:%s under a bound on the cursor: "
                                     "whether the bound stops before the last element is not decided" % (b.file, t_["line"]))
                else:
                    R.check("R-OVF", b.label(), False, construct="the running element is not advanced past the last element",
                            where="%s:%s" % (b.file, t_["line"]),
                            detail="%s is computed with overflow checks on every step, also after the last element was yielded: for a "
                                   "stride whose next multiple does not fit in usize (accepted by push through checked_mul) iteration "
                                   "panics / wraps" % show(("bin", "Add", ops_[0], ops_[1]))[:80])
        # increment by one, after the read, in the same context as the read
        reads = [e for e in effs if e.tag == ("Stride", "index")]
        incs = []
        others = []
        for e in effs:
            if e.cls != "assign":
                continue
            for (cc, (r, p)) in e.targets or ():
                if cc is c and r == ("arg", 1) and p == ("f:index",):
                    val = trees(e.ctx, e.value)
                    d = lin(val)
                    if d.get(idx_place) == 1 and d.get(1) == 1 and len(d) == 2:
                        incs.append(e)
                    else:
                        others.append(show(val))
        ok = bool(incs) and not others
        for e in ([] if hand_written else incs):
            same = [r_ for r_ in reads if r_.ctx is e.ctx]
            if not same or not any(e.bb == r_.bb or e.bb in reach_strict(e.ctx.body, r_.bb) for r_ in same):
                ok = False
        R.check("R-ITER", b.label(), ok, construct="self.index += 1 after the read",
                where=b.where(), detail="%d increments, other stores to the cursor: %s" % (len(incs), others))
    # size_hint, where overridden: what is left is len - cursor (never the total length)
    for b in [x for x in F.bodies.values() if x.self_adt == "impls::index::StrideIter" and x.name == "size_hint"
              and x.trait == "Iterator"]:
        R.saw(b)
        c = Ctx(b)
        idx_place = ("place", b.key, ("arg", 1), ("f:index",))
        str_place = ("place", b.key, ("arg", 1), ("f:strided",))
        lows = []
        for o in c.org.local(0):
            t = nobb_(tree(c, o))
            if t[0] == "agg" and t[1] == "tuple" and t[2]:
                lows.append(t[2][0])
        if not lows:
            R.undecided_site("R-ITER", b.label(), "size_hint result not recognised")
        for low in lows:
            d = lin(low)
            len_terms = [k for k in d if isinstance(k, tuple) and k[0] == "call" and k[1] == ("Stride", "len")
                         and k[2] and k[2][0] == str_place]
            if not len_terms:
                R.undecided_site("R-ITER", b.label(), "size_hint lower bound %s not recognised" % show(low)[:60])
                continue
            ok = d.get(len_terms[0]) == 1 and d.get(idx_place) == -1 and len(d) == 2
            R.check("R-ITER", b.label(), ok, construct="size_hint = len - cursor", where=b.where(),
                    detail="lower bound %s" % show(low)[:100] + ("" if ok else
                           ": the remaining length is the stride's length minus the cursor"))
    # overrides that enumerate positions themselves (fold, nth, count, last ... taking the stride
    # apart): every range of positions or repetitions they walk depends on the cursor -- a range
    # that does not mention it, under no branch on it, ignores what next() already handed out
    from core import all_ctxs
    from r_bracket import walk as _walk
    for b in [x for x in F.bodies.values() if x.self_adt == "impls::index::StrideIter" and x.kind == "AssocFn" and
              x.trait in ("Iterator", "DoubleEndedIterator", "ExactSizeIterator") and
              x.name not in ("next", "size_hint") and not x.in_tests() and not x.derived]:
        top = Ctx(b)
        idx_place = ("place", b.key, ("arg", 1), ("f:index",))
        for c in all_ctxs(F, b):
            for bi in sorted(c.body.live_blocks()):
                for si, st in enumerate(c.body.blocks[bi]["stmts"]):
                    if not (st["k"] == "assign" and st["rv"]["k"] == "aggregate" and st["rv"].get("agg") == "adt" and
                            (st["rv"].get("adt") or "").endswith("ops::Range")):
                        continue
                    rng = nobb_(trees(c, c.org.rvalue(st["rv"], bi, si)))
                    mentions = any(nd == idx_place for nd in _walk(rng))
                    guarded = any(any(nd == idx_place for x in f[1:3] if isinstance(x, tuple) for nd in _walk(nobb_(x)))
                                  for f in facts_at(c, bi))
                    R.saw(b)
                    if mentions or guarded:
                        R.check("R-ITER", b.label(), True, construct="positions walked by %s() depend on the cursor" % b.name,
                                where="%s:%s" % (c.body.file, st["line"]), detail="range %s" % show(rng)[:80])
                    else:
                        R.check("R-ITER", b.label(), False, construct="positions walked by %s() depend on the cursor" % b.name,
                                where="%s:%s" % (c.body.file, st["line"]),
                                detail="the range %s neither mentions the cursor nor sits under a branch on it: elements "
                                       "that next() already yielded are yielded again" % show(rng)[:80])
    ib = [b for b in F.bodies.values() if b.self_adt == STRIDE and b.name == "iter" and b.trait is None]
    for b in ib:
        R.saw(b)
        c = Ctx(b)
        ok = False
        for o in c.org.local(0):
            t = tree(c, o)
            if t[0] == "agg" and t[1].startswith("StrideIter") and o[0][0] == "agg":
                # by field name, not position: the declaration order is free
                rv = c.org.stmt(o[0][1], o[0][2])["rv"]
                byname = {nm: operand_tree(c, op) for nm, op in zip(rv.get("fields", []), rv["ops"])}
                ok = byname.get("strided") == ("place", b.key, ("arg", 1), ()) and byname.get("index") == ("const", "0")
        R.check("R-ITER", b.label(), ok, construct="iter() = StrideIter{strided: *self, index: 0}",
                where=b.where(), detail="")


# ---------------------------------------------------------------------------------------------
# R-LEN-STEP: an accepted Stride::push grows Stride::len by exactly one


def _subst(t, fn):
    r = fn(t)
    if r is not None:
        return r
    if isinstance(t, tuple):
        return tuple(_subst(x, fn) if isinstance(x, tuple) else x for x in t)
    return t


def r_len_step(F, R):
    """Stride is a little state machine whose length is a function of its state (Stride::len:
    a linear form per variant).  Every state write of Stride::push -- a whole-state assignment
    `*self = Variant(..)` or an in-place field update -- is evaluated in that linear domain: the
    length of the written state must be the length of the state the write is dominated by, plus
    one.  (Positions in the containers built on Stride are `i - strided.len()`: a transition that
    grows len by two shifts every later element.)  Shapes the domain cannot express (a state
    produced by a call, two writes on one path, an unknown source variant) are undecided."""
    from fractions import Fraction
    b = stride_push(F)
    lens = [x for x in F.inherent_methods("impls::index::Stride", "len")]
    if b is None or not lens or "impls::index::Stride" not in F.adts:
        R.floor("R-LEN-STEP", "Stride::push / Stride::len", 0, 1)
        return
    lb = lens[0]
    lc = Ctx(lb)
    R.saw(b)
    R.saw(lb)
    variants = [v["name"] for v in F.adts["impls::index::Stride"]["variants"]]
    self_l = ("place", lb.key, ("arg", 1), ())
    formula = {}  # variant name -> tree over places of len's self
    for bi in sorted(lb.live_blocks()):
        for st in lb.blocks[bi]["stmts"]:
            if st["k"] == "assign" and st["place"]["l"] == 0 and not st["place"]["p"] and st["rv"]["k"] == "use":
                vs = [f[2] for f in facts_at(lc, bi) if f[0] == "variant" and f[1] == self_l and isinstance(f[2], str)]
                if len(vs) == 1 and vs[0].isdigit() and int(vs[0]) < len(variants):
                    formula[variants[int(vs[0])]] = operand_tree(lc, st["rv"]["op"])
    if set(formula) != set(variants):
        R.undecided_site("R-LEN-STEP", lb.label(), "Stride::len is not one linear form per variant (found %s)" % sorted(formula))
        return
    ctx = Ctx(b)
    self_p = ("place", b.key, ("arg", 1), ())

    def len_of(variant, field_vals):
        """linear form of len in a state of `variant` whose fields are field_vals[i] (default: the
        current field place of push's self)"""
        def fn(t):
            if isinstance(t, tuple) and t and t[0] == "place" and t[1] == lb.key and t[2] == ("arg", 1):
                pth = t[3]
                if len(pth) == 2 and pth[0] == "v:" + variant and pth[1].startswith("f:"):
                    i = int(pth[1][2:])
                    if i in field_vals:
                        return field_vals[i]
                return ("place", b.key, ("arg", 1), pth)
            return None
        return lin(_subst(formula[variant], fn))

    writes = []
    for bi in sorted(b.live_blocks()):
        for si, st in enumerate(b.blocks[bi]["stmts"]):
            if st["k"] != "assign" or not any(e["k"] == "deref" for e in st["place"]["p"]):
                continue
            tgts = {(r, p) for (r, p) in ctx.org.place(st["place"])}
            if not any(r == ("arg", 1) for (r, p) in tgts):
                continue
            writes.append((bi, si, st, tgts))
    n = 0
    for (bi, si, st, tgts) in writes:
        where = "%s:%s" % (b.file, st["line"])
        if any(b2 != bi and (b2 in reach_strict(b, bi)) for (b2, _, _, _) in writes) or \
                sum(1 for w in writes if w[0] == bi) > 1:
            R.undecided_site("R-LEN-STEP", b.label(), "several state writes on one path (line %s)" % st["line"])
            continue
        if len(tgts) != 1 or st["rv"]["k"] != "use":
            R.undecided_site("R-LEN-STEP", b.label(), "state write at line %s is not a plain value" % st["line"])
            continue
        (r, p) = next(iter(tgts))
        val = operand_tree(ctx, st["rv"]["op"])
        if p != ():
            vs = [f[2] for f in facts_at(ctx, bi) if f[0] == "variant" and f[1] == self_p and isinstance(f[2], str)]
            if len(vs) != 1 or not vs[0].isdigit() or int(vs[0]) >= len(variants):
                R.undecided_site("R-LEN-STEP", b.label(), "state write at line %s without a known source variant" % st["line"])
                continue
            src = variants[int(vs[0])]
            old = len_of(src, {})
        if p == ():
            # the value may be built in several places that join before the single store
            # (`let next = match *self { .. }; *self = next`): each constructor is evaluated where
            # it is built, against the source variant that dominates it there
            origins = list(ctx.org.operand(st["rv"]["op"]))
            if not origins or not all(o[0][0] == "agg" and not o[1] for o in origins):
                R.undecided_site("R-LEN-STEP", b.label(), "state written at line %s is not a variant constructor" % st["line"])
                continue
            for o in origins:
                a = tree(ctx, o)
                if not (a[0] == "agg" and a[1].startswith("Stride::") and a[1].split("::")[1] in formula):
                    R.undecided_site("R-LEN-STEP", b.label(), "state written at line %s is not a variant constructor" % st["line"])
                    continue
                vs2 = [f[2] for f in facts_at(ctx, o[0][1]) if f[0] == "variant" and f[1] == self_p and isinstance(f[2], str)]
                if len(vs2) != 1 or not vs2[0].isdigit() or int(vs2[0]) >= len(variants):
                    # built after a join of several source states whose fields were merged into
                    # locals (`let (stride, count, reps) = match *self { Striding(s, c) => (s, c, 0),
                    # Saturated(s, c, r) => (s, c, r) }`): judged once per source variant, each merged
                    # value resolved to that variant's alternative
                    srcs = sorted({nd[3][0][2:] for op_ in a[2] for nd in _walk_nodes(op_)
                                   if nd[0] == "place" and nd[1] == b.key and nd[2] == ("arg", 1) and nd[3] and nd[3][0].startswith("v:")})
                    done = False
                    if srcs and all(v_ in formula for v_ in srcs):
                        resolved = {v_: [_resolve_for(op_, v_, b.key) for op_ in a[2]] for v_ in srcs}
                        if all(x is not None for ops_ in resolved.values() for x in ops_):
                            done = True
                            for v_ in srcs:
                                old2 = len_of(v_, {})
                                new = len_of(a[1].split("::")[1], {i: x for i, x in enumerate(resolved[v_])})
                                d = lin_sub_(new, old2)
                                # known values of merged fields (`reps == 0` on this path)
                                from expr import nobb as _nb
                                for f_ in facts_at(ctx, o[0][1]):
                                    if f_[0] == "Eq" and isinstance(f_[1], tuple) and isinstance(f_[2], tuple):
                                        for (x_, c_) in ((f_[1], f_[2]), (f_[2], f_[1])):
                                            if c_[0] == "const" and str(c_[1]).lstrip("-").isdigit():
                                                k_ = _resolve_for(_nb(x_), v_, b.key)
                                                if k_ is not None and k_ in d:
                                                    coef = d.pop(k_)
                                                    d[1] = d.get(1, 0) + coef * int(c_[1])
                                d = {k_: v2 for k_, v2 in d.items() if v2 != 0}
                                ok = d == {1: Fraction(1)}
                                n += 1
                                R.check("R-LEN-STEP", b.label(), ok,
                                        construct="accepted push grows len by one: %s -> %s" % (v_, ("*self = %s(..)" % a[1])[:60]),
                                        where=where, detail="len before %s, len after %s" % (_showlin(old2), _showlin(new)) +
                                        ("" if ok else ": the state written is not one element longer than the state it replaces; "
                                                       "every position behind it (i - strided.len()) shifts"))
                    if not done:
                        R.undecided_site("R-LEN-STEP", b.label(), "constructor %s (line %s) without a known source variant" % (a[1], st["line"]))
                    continue
                src2 = variants[int(vs2[0])]
                old2 = len_of(src2, {})
                new = len_of(a[1].split("::")[1], {i: x for i, x in enumerate(a[2])})
                d = lin_sub_(new, old2)
                ok = d == {1: Fraction(1)}
                n += 1
                R.check("R-LEN-STEP", b.label(), ok, construct="accepted push grows len by one: %s -> %s" % (src2, ("*self = %s" % show(a))[:60]),
                        where=where, detail="len before %s, len after %s" % (_showlin(old2), _showlin(new)) +
                        ("" if ok else ": the state written is not one element longer than the state it replaces; every "
                                       "position behind it (i - strided.len()) shifts"))
            continue
        elif len(p) == 2 and p[0] == "v:" + src and p[1].startswith("f:"):
            new = len_of(src, {int(p[1][2:]): val})
            what = "%s.%s = %s" % (src, p[1][2:], show(val))
        else:
            R.undecided_site("R-LEN-STEP", b.label(), "state write at line %s targets %s in state %s" % (st["line"], p, src))
            continue
        d = lin_sub_(new, old)
        ok = d == {1: Fraction(1)}
        n += 1
        R.check("R-LEN-STEP", b.label(), ok, construct="accepted push grows len by one: %s -> %s" % (src, what[:60]),
                where=where, detail="len before %s, len after %s" % (_showlin(old), _showlin(new)) +
                ("" if ok else ": the state written is not one element longer than the state it replaces; every "
                               "position behind it (i - strided.len()) shifts"))
    R.floor("R-LEN-STEP", "state writes of Stride::push", len(writes), 1)


def lin_sub_(a, b):
    from expr import lin_sub
    return lin_sub(a, b)


def _showlin(d):
    parts = []
    for k, v in d.items():
        if k == 1:
            if v != 0:
                parts.append(str(v))
        else:
            parts.append(("%s*" % v if v != 1 else "") + show(k))
    return " + ".join(parts) or "0"


def _walk_nodes(t):
    if isinstance(t, tuple) and t:
        if isinstance(t[0], str):
            yield t
        for x in t:
            if isinstance(x, tuple):
                yield from _walk_nodes(x)


def _mentions_variant(t, key, v=None):
    for nd in _walk_nodes(t):
        if nd[0] == "place" and len(nd) >= 4 and nd[1] == key and nd[2] == ("arg", 1) and nd[3] and nd[3][0].startswith("v:"):
            if v is None or nd[3][0] == "v:" + v:
                return True
    return False


def _resolve_for(t, v, key):
    """t with every phi resolved to the alternative that belongs to source variant v: the one
    that mentions a field of v, else the only one that mentions no variant at all"""
    if not isinstance(t, tuple) or not t:
        return t
    if t[0] == "phi":
        mine = [a for a in t[1] if _mentions_variant(a, key, v)]
        if len(mine) != 1:
            if mine:
                return None
            mine = [a for a in t[1] if not _mentions_variant(a, key)]
            if len(mine) != 1:
                return None
        return _resolve_for(mine[0], v, key)
    if t[0] == "place":
        if _mentions_variant(t, key) and not _mentions_variant(t, key, v):
            return None
        return t
    if t[0] == "bin":
        a, c = _resolve_for(t[2], v, key), _resolve_for(t[3], v, key)
        return None if a is None or c is None else ("bin", t[1], a, c)
    if t[0] == "const":
        return t
    if _mentions_variant(t, key) and not _mentions_variant(t, key, v):
        return None
    return t


def _len_path(k):
    """field path of a length term"""
    pl = None
    if k[0] == "len" and k[1][0] == "place":
        pl = k[1]
    elif k[0] == "call" and k[1][1] == "len" and k[2] and k[2][0][0] == "place":
        pl = k[2][0]
    if pl is None or pl[2] != ("arg", 1):
        return None
    return tuple(x[2:] for x in pl[3] if x.startswith("f:"))


def _flattened_levels(paths, F, adt, first, second, tl):
    """the set of field paths is {first, second} with a level that is itself a two-level container
    possibly replaced by its own two levels"""
    if None in paths or not paths:
        return False
    paths = set(paths)
    for fld in (first, second):
        fty = next((f["ty"]["s"] for f in F.adts[adt]["variants"][0]["fields"] if f["name"] == fld), "")
        nested = next(((f2, s2) for (a2, f2, s2, _) in tl if a2 != adt and a2.split("::")[-1] in fty), None)
        if nested and (fld, nested[0]) in paths and (fld, nested[1]) in paths:
            paths -= {(fld, nested[0]), (fld, nested[1])}
            paths.add((fld,))
    return paths == {(first,), (second,)}
