"""C16: R-SERDE — the derived Serialize/Deserialize transport every field, unconditionally,
and never substitute a default."""
from core import Ctx, callee_tag
from expr import operand_tree, show, facts_at
from r_index import places_in

SER_FIELD = {("SerializeStruct", "serialize_field"), ("SerializeTupleStruct", "serialize_field"),
             ("SerializeTupleVariant", "serialize_field"), ("SerializeStructVariant", "serialize_field"),
             ("SerializeSeq", "serialize_element"), ("SerializeTuple", "serialize_element"),
             ("Serializer", "serialize_newtype_struct"), ("Serializer", "serialize_newtype_variant")}
SKIP_FIELD = {("SerializeStruct", "skip_field"), ("SerializeStructVariant", "skip_field")}


def serde_types(F):
    out = []
    for i in F.impls:
        t = i.get("trait") or ""
        if t.endswith("Serialize") and i["derived"] and i["self_ty"].get("adt") in F.adts:
            out.append(i["self_ty"]["adt"])
    return sorted(set(out))


def find(F, adt, trait_suffix, name):
    for b in F.bodies.values():
        if b.self_adt == adt and b.name == name and (b.owner.get("trait") or "").endswith(trait_suffix):
            return b
    return None


def all_fields(a):
    out = []
    for v in a["variants"]:
        for f in v["fields"]:
            if f["ty"].get("debug_only"):
                continue  # `#[cfg(debug_assertions)]` bookkeeping: not part of the value (absent in release builds)
            out.append((v["name"], f["name"]))
    return out


def r_serde_buffered(F, R, only=None):
    """No deserialisation path of the crate goes through serde's buffered `Content` tree
    (`#[serde(untagged)]`, `flatten`, internally / adjacently tagged enums): the buffer has no
    128-bit integers and needs a self-describing format, so a region whose item or storage type
    holds u128 / i128 (or any region under a binary format) serialises but does not deserialise.
    The regions are generic over their items, so this is a type-level fact of the impl, not of
    the data.  Positive evidence: a call of serde's `ContentRefDeserializer` / `ContentDeserializer`
    / `ContentVisitor` in a non-test body of the crate."""
    n = 0
    for b in F.bodies.values():
        if b.in_tests():
            continue
        hits = []
        for (bi, t) in b.calls():
            pth = str((t.get("callee") or {}).get("path") or "")
            if "de::content::Content" in pth or "::ContentRefDeserializer" in pth or "::ContentDeserializer" in pth or \
                    "::TaggedContentVisitor" in pth or "::FlatMapDeserializer" in pth:
                hits.append((t["line"], pth.split("::")[-2] if "::" in pth else pth))
        if hits:
            n += 1
            R.saw(b)
            R.check("R-SERDE", b.label(), False, construct="deserialisation does not buffer the input in serde's Content tree",
                    where="%s:%s" % (b.file, hits[0][0]),
                    detail="calls %s: an untagged / flattened / internally tagged form is deserialised from a buffered copy of the "
                           "input, which cannot hold 128-bit integers and needs a self-describing format -- regions over u128 / i128 "
                           "items no longer round-trip" % sorted({h[1] for h in hits}))
    R.info("R-SERDE: %d bodies deserialise through serde's buffered Content" % n)


r_serde_buffered.serde_only = True


def r_serde(F, R, only=None):
    if "serde" not in F.features:
        return
    types = serde_types(F)
    if only:
        types = [t for t in types if t.split("::")[-1] in only]
    R.floor("R-SERDE", "types with derived Serialize", len(types), 28 if not only else 1)
    for adt in types:
        a = F.adts[adt]
        fields = all_fields(a)
        is_enum = a["kind"] == "enum"
        ser = find(F, adt, "Serialize", "serialize")
        de = find(F, adt, "Deserialize", "deserialize")
        R.check("R-SERDE", adt, ser is not None and de is not None and de.derived,
                construct="derived Serialize and Deserialize both exist",
                where="%s:%s" % (a["span"]["file"], a["span"]["line"]), nontrivial=False)
        if ser is None or de is None:
            continue
        R.saw(ser)
        R.saw(de)
        # ---- serialize: every field handed to the serializer, unconditionally
        ctx = Ctx(ser)
        sent = []
        cond = []
        for (bi, t) in ser.calls():
            tag = callee_tag(t.get("callee"))
            if tag in SKIP_FIELD:
                cond.append("skip_field at line %s" % t["line"])
            if tag not in SER_FIELD:
                continue
            val = operand_tree(ctx, t["args"][-1])
            ps = [p for p in places_in(val) if p[2] == ("arg", 1)]
            for p in ps:
                path = [x for x in p[3]]
                var = next((x[2:] for x in path if x.startswith("v:")), a["variants"][0]["name"] if not is_enum else None)
                fld = next((x[2:] for x in path if x.startswith("f:")), None)
                sent.append((var, fld))
            for f in facts_at(ctx, bi):
                if f[0] == "truthy":
                    cond.append("serialize of %s is conditional on %s" % (show(val), show(f[1])))
                if f[0] in ("Eq", "Ne", "Lt", "Le", "Gt", "Ge"):
                    cond.append("serialize of %s is conditional on a comparison" % show(val))
        if is_enum:
            tagged = 0
            untagged = []
            for (bi, t) in ser.calls():
                tag = callee_tag(t.get("callee"))
                if tag[0] == "Serializer":
                    if tag[1].endswith("_variant"):
                        tagged += 1
                    elif tag[1].startswith("serialize_"):
                        untagged.append(tag[1])
            nvar = len(a["variants"])
            R.check("R-SERDE", ser.label(), tagged == nvar and not untagged,
                    construct="every enum variant is serialised with its variant identity",
                    where=ser.where(),
                    detail="%d variants, %d variant-tagged serializer calls, untagged calls %s" % (nvar, tagged, untagged))
        want = sorted(fields)
        got = sorted(set(sent))
        R.check("R-SERDE", ser.label(), want == got and not cond,
                construct="serialize hands every field to the serializer",
                where=ser.where(),
                detail="fields %s; serialized %s%s" % (want, got, "; " + "; ".join(cond) if cond else ""))
        # ---- deserialize: every field read from the input, no defaults
        vis = [b for b in F.bodies.values() if b.key.startswith(de.key + "::") and b.kind == "AssocFn"]
        n_next = 0
        n_value = 0
        n_missing = 0
        defaults = []
        seqs = 0
        for vb in vis:
            R.saw(vb)
            for (bi, t) in vb.calls():
                tag = callee_tag(t.get("callee"))
                if vb.name == "visit_seq":
                    if tag == ("SeqAccess", "next_element"):
                        n_next += 1
                if vb.name == "visit_map":
                    if tag == ("MapAccess", "next_value"):
                        n_value += 1
                    if tag[1] == "missing_field":
                        n_missing += 1
                if tag == ("Default", "default") and vb.name in ("visit_seq", "visit_map", "visit_newtype_struct"):
                    dst = vb.locals[t["dest"]["l"]]["ty"]["s"]
                    if not dst.startswith("std::marker::PhantomData"):
                        defaults.append("%s in %s (line %s)" % (dst, vb.name, t["line"]))
            if vb.name == "visit_seq":
                seqs += 1
        for (bi, t) in de.calls():
            tag = callee_tag(t.get("callee"))
            if tag == ("Default", "default"):
                defaults.append("in deserialize")
        nf = len(fields)
        newtype = (not is_enum) and nf == 1 and a["variants"][0]["fields"][0]["name"] == "0"
        ok_seq = (n_next == nf) or (newtype and n_next in (0, 1))
        ok_map = is_enum or newtype or (n_value >= nf and n_missing == nf) or nf == 0
        R.check("R-SERDE", de.label(), ok_seq and ok_map and not defaults,
                construct="deserialize builds every field from the input",
                where=de.where(),
                detail="%d fields; visit_seq reads %d elements; visit_map reads %d values, %d missing_field errors; defaults: %s" % (
                    nf, n_next, n_value, n_missing, defaults))


r_serde.serde_only = True
