"""C04: R-UNSAFE and R-STRWRITE."""
from core import Ctx, body_effects, callee_tag, classify, describe, short, base_places
from model import Catalogue, self_field_targets, constructed
from expr import trees, show

UNCHECKED_STR = {
    "from_utf8_unchecked", "from_utf8_unchecked_mut", "from_boxed_utf8_unchecked",
    "from_raw_parts", "from_raw_parts_mut", "as_bytes_mut", "as_mut_vec", "from_utf8_lossy_owned_",
}
STRING_REGION = "impls::string::StringRegion"
STRINGY = {"std::string::String", "str", "char", "std::boxed::Box<str>",
           "std::borrow::Cow<'_, str>", "std::borrow::Cow<'a, str>"}


def is_unchecked_str_callee(ce):
    if ce is None:
        return False
    if ce["name"] not in UNCHECKED_STR:
        return False
    p = ce["path"]
    if ce["name"] in ("from_raw_parts", "from_raw_parts_mut"):
        return "str" in p and "slice" not in p
    return "str" in p or "String" in p or "string" in p


def private_helper_of_anchor(F, b):
    """b is a non-public fn/method whose every caller is <StringRegion as Region>::index"""
    if b.d.get("vis_pub") or b.kind not in ("Fn", "AssocFn"):
        return False
    if not b.key.startswith("flatcontainer::impls::string::"):
        return False
    callers = []
    for key, d in F.raw_bodies.items():
        for bl in d["blocks"]:
            t = bl["term"]
            if t["k"] == "call" and t.get("callee") and (t["callee"]["key"] == b.key or
                                                         (t["callee"].get("resolved") or {}).get("key") == b.key):
                callers.append(d)
        for bl in d["blocks"]:
            for st in bl["stmts"]:
                if st["k"] == "assign":
                    # function item taken as a value: treat as an unknown caller
                    if b.key in repr(st["rv"]) and '"fn"' in repr(st["rv"]).replace("'", '"'):
                        return False
    if not callers:
        return False
    for d in callers:
        ow = d["owner"]
        if not (d["name"] == "index" and (ow.get("trait") or "").endswith("Region") and
                (ow.get("impl_self") or {}).get("adt") == STRING_REGION):
            return False
    return True


def r_unsafe(F, R):
    anchors = 0
    sites = 0
    for b in F.bodies.values():
        if b.derived:
            continue
        ctx = None
        for (bi, t) in b.calls():
            ce = t.get("callee")
            if t.get("exp") and ce is not None and ce["name"] in ("new", "new_v1", "from_str"):
                continue
            if not is_unchecked_str_callee(ce):
                continue
            sites += 1
            ctx = ctx or Ctx(b)
            ok = False
            detail = ""
            if b.self_adt == STRING_REGION and b.trait == "Region" and b.name == "index":
                # argument must be exactly the result of self.inner.index(index)
                tr = trees(ctx, ctx.org.operand(t["args"][0]))
                want_ok = (tr[0] == "call" and tr[1] == ("Region", "index") and len(tr[2]) == 2
                           and tr[2][0] == ("place", b.key, ("arg", 1), ("f:inner",))
                           and tr[2][1] == ("place", b.key, ("arg", 2), ()) and tr[3] == ())
                ok = want_ok
                detail = "argument = " + show(tr)
                if ok:
                    anchors += 1
            elif private_helper_of_anchor(F, b):
                # a private helper all of whose callers are the anchor (it is inlined there and the
                # argument is checked at that call site)
                ok = True
                detail = "private helper called only from StringRegion::index (argument checked there)"
            else:
                detail = "unchecked str constructor outside StringRegion::index"
            R.saw(b)
            R.check("R-UNSAFE", b.label(), ok, construct="call " + ce["name"],
                    where="%s:%s" % (b.file, t["line"]), detail=detail)
        # casts producing str pointers / references
        for bi in b.live_blocks():
            for st in b.blocks[bi]["stmts"]:
                if st["k"] == "assign" and st["rv"]["k"] == "cast":
                    ty = st["rv"]["ty"]
                    kind = st["rv"]["kind"]
                    if st.get("exp"):
                        continue
                    op_ = st["rv"].get("op") or {}
                    pp_ = (op_.get("place") or {}).get("p") or []
                    if op_.get("k") in ("copy", "move") and pp_ and any(e.get("adt") == "std::boxed::Box" for e in pp_) and \
                            str(pp_[-1].get("ty", "")).replace(" ", "") in ("std::ptr::NonNull<str>", "core::ptr::NonNull<str>"):
                        continue  # the lowering of `*boxed_str`: the Box's own pointer, already a pointer to str
                    if (ty.endswith(" str") or ty.endswith("&str") or ty == "str"
                            or "std::string::String" == ty) and \
                            ("Transmute" in kind or "PtrToPtr" in kind):
                        sites += 1
                        R.check("R-UNSAFE", b.label(), False, construct="cast to " + ty,
                                where="%s:%s" % (b.file, st["line"]),
                                detail="%s cast produces a str without validation" % kind)
    R.floor("R-UNSAFE", "anchored unchecked conversion (StringRegion::index)", anchors, 1)
    # inventory of user-provided unsafe
    user = [u for u in F.unsafe if u["user"]]
    n_anchor = 0
    for u in user:
        if u["what"] == "block" and u["owner_path"].endswith("StringRegion<R> as Region>::index"):
            n_anchor += 1
            R.check("R-UNSAFE", u["owner_path"], True, construct="unsafe block (anchor)",
                    where="%s:%s" % (u["span"]["file"], u["span"]["line"]), nontrivial=True)
        elif u["what"] == "block" and any(private_helper_of_anchor(F, hb) for hb in F.by_path.get(u["owner_path"], [])):
            # the anchor's unsafe block lives in a private helper that only the anchor calls
            n_anchor += 1
            R.check("R-UNSAFE", u["owner_path"], True, construct="unsafe block (in a private helper of the anchor)",
                    where="%s:%s" % (u["span"]["file"], u["span"]["line"]), nontrivial=True)
        else:
            # not a violation by itself (the property is about str construction), but not analysed
            R.undecided_site("R-UNSAFE", u["owner_path"],
                             "additional user-provided unsafe %s at %s:%s is outside the analysed "
                             "anchor; its operations were scanned only for str constructors/casts"
                             % (u["what"], u["span"]["file"], u["span"]["line"]))
    R.floor("R-UNSAFE", "user unsafe blocks in StringRegion::index", n_anchor, 1)
    R.extra["unsafe_inventory"] = {"user_provided": len(user),
                                   "compiler_generated": len(F.unsafe) - len(user)}


ALLOWED_INNER = {
    # (trait, method) -> allowed effect classes on StringRegion.inner
    ("Push", "push"): {"append"},
    ("ReserveItems", "reserve_items"): {"reserve"},
    ("Region", "reserve_regions"): {"reserve"},
    ("Region", "clear"): {"clear"},
    ("Region", "index"): {"read"},
    ("Region", "heap_size"): {"heap_report"},
    ("Region", "merge_regions"): {"read", "construct"},
    ("Clone", "clone"): {"read"},
    ("Clone", "clone_from"): {"clone_from", "read"},
    ("Default", "default"): set(),
    ("Debug", "fmt"): {"read"},
    ("Serialize", "serialize"): {"read"},
}


def r_strwrite(F, R, cat=None):
    cat = cat or Catalogue(F)
    # (0) field privacy
    adt = F.adts.get(STRING_REGION)
    if adt is None:
        R.floor("R-STRWRITE", "StringRegion ADT", 0, 1)
        return
    fld = adt["variants"][0]["fields"]
    inner = [f for f in fld if f["name"] == "inner"]
    R.check("R-STRWRITE", STRING_REGION, bool(inner) and not inner[0]["pub"] and
            inner[0]["vis"].startswith("impls::string") if inner else False,
            construct="field inner is private to impls::string",
            where="%s:%s" % (adt["span"]["file"], adt["span"]["line"]),
            detail="visibility = %s" % (inner[0]["vis"] if inner else "?"))
    # (1) impl headers
    n_impl = 0
    for i in F.impls:
        if i.get("trait") != "Push" or i["self_ty"].get("adt") != STRING_REGION:
            continue
        n_impl += 1
        x = i["trait_arg_tys"][1]
        ok = x is not None and (x["peeled"] in STRINGY or x["k"] == "param")
        R.check("R-STRWRITE", "impl %s for StringRegion" % i["trait_ref"], ok,
                construct="pushed type is a string type",
                where="%s:%s" % (i["span"]["file"], i["span"]["line"]),
                detail="item type %s" % (x["s"] if x else "?"))
    R.floor("R-STRWRITE", "impl Push<_> for StringRegion", n_impl, 4)
    # (2)+(3) every use of `inner` by any body that can name it (module impls::string)
    n_push = 0
    for b in F.bodies.values():
        if not b.key.startswith("flatcontainer::impls::string::") or b.kind == "Closure":
            continue
        if b.self_adt != STRING_REGION:
            continue
        if b.trait is None and not b.d.get("vis_pub"):
            # private inherent helper: it is inlined into its callers, which are checked there;
            # nobody outside the module can call it
            continue
        R.saw(b)
        ctx, effs = cat.effects(b)
        allowed = ALLOWED_INNER.get((b.trait, b.name))
        if allowed is None and b.trait is None:
            # a *public* inherent method: it may read, reserve or clear, and push only str bytes
            allowed = {"append", "reserve", "clear", "read", "heap_report"}
        for e in effs:
            for (f, rest) in self_field_targets(e, ctx):
                if f != "inner":
                    continue
                if e.cls in ("access", "adaptor", "measure"):
                    continue
                if e.tag[1] in ("shrink_to_fit", "shrink_to"):
                    continue  # changes the capacity only: the stored bytes are untouched
                if allowed is None:
                    ok = e.cls in ("read",)
                    R.check("R-STRWRITE", b.label(), ok,
                            construct="%s %s on inner" % (e.cls, e.tag[1]), where=e.where(),
                            detail="method outside the write/lifecycle API touches the byte region")
                    continue
                ok = e.cls in allowed or e.cls == "read"
                detail = ""
                if ok and e.cls == "append":
                    # pushed bytes must be str::as_bytes(<something>)
                    n_push += 1
                    src = e.argorigins[1] if len(e.argorigins) > 1 else set()
                    tr = trees(e.ctx, src)
                    ok = tr[0] == "call" and tr[1] in (("str", "as_bytes"), ("String", "as_bytes")) \
                        and tr[3] == ()
                    if not ok and tr[0] == "place" and tr[1] == b.key and tr[2] == ("arg", 2) and not tr[3] and b.nargs >= 2 and \
                            str(b.locals[2]["ty"]["s"]).replace("&", "").replace("'a ", "").replace("mut ", "").strip() in (
                                "str", "std::string::String", "String", "alloc::string::String"):
                        # the item itself, a str / String seen through reference-to-reference conversions
                        # only (`AsRef<[u8]>` in a generic helper): its bytes
                        ok = True
                    detail = "pushed bytes = " + show(tr)
                R.check("R-STRWRITE", b.label(), ok,
                        construct="%s %s on inner" % (e.cls, e.tag[1]), where=e.where(), detail=detail)
        # forwarding pushes must target a Push impl of the same StringRegion
        if (b.trait, b.name) == ("Push", "push"):
            for e in effs:
                if e.tag == ("Push", "push") and (None, ()) in self_field_targets(e, ctx):
                    st = e.callee.get("self_ty") or {}
                    ok = st.get("adt") == STRING_REGION
                    R.check("R-STRWRITE", b.label(), ok, construct="forwards to StringRegion push",
                            where=e.where(), detail="callee " + e.callee.get("pretty", ""))
        # no &mut escape of inner
        ret_ty = b.locals[0]["ty"]
        if ret_ty["mut"] or "&mut" in ret_ty["s"]:
            for (r, p) in ctx.org.local(0):
                for (c, (r2, p2)) in base_places(ctx, (r, p)):
                    if c is ctx and r2 == ("arg", 1) and p2[:1] == ("f:inner",):
                        if not b.d.get("vis_pub"):
                            # a crate-private accessor (private fn, or a method of a private trait):
                            # nothing outside the crate can call it; what its callers inside the
                            # crate write through it is judged where they are inlined, otherwise not
                            if F.only_inlined(b):
                                continue
                            R.undecided_site("R-STRWRITE", b.label(), "crate-private accessor returning &mut inner; its in-crate "
                                             "callers could not all be inlined, what they write through it is not decided")
                            continue
                        R.check("R-STRWRITE", b.label(), False, construct="returns &mut inner",
                                where=b.where(),
                                detail="hands out a mutable reference to the byte region")
    R.floor("R-STRWRITE", "byte pushes into StringRegion.inner", n_push, 1)
    # (4) codec decode: result is the argument or a whole dictionary entry
    from expr import ret_alts, nobb, NONE
    for b in F.methods_of_trait("Codec", "decode"):
        R.saw(b)
        ctx = Ctx(b)
        ok = True
        why = []
        for t in ret_alts(ctx):
            t = nobb(t)
            if t == ("place", b.key, ("arg", 2), ()):
                why.append("argument bytes")
            elif t[0] == "call" and t[1] == ("BytesMap", "get") and (tuple(t[3]) in ((), ("v:Some", "f:0")) or (
                    len(t[3]) == 2 and t[3][0].startswith("v:") and t[3][1] == "f:0")):
                why.append("whole BytesMap entry")  # the payload of whatever the lookup's result type calls its occupied variant
            elif t[0] == "call" and t[1][0] == "Option" and t[3] and \
                    any(nd[0] == "call" and nd[1] == ("BytesMap", "get") for nd in walk_nodes(t)):
                why.append("whole BytesMap entry")
            else:
                ok = False
                why.append(show(t)[:100])
        if not ok:
            from r_codec import _table_lookup_present
            if not _table_lookup_present(F, b):
                # the table lookup was written out in decode itself: which byte ranges it can
                # return is then a matter of offset arithmetic
                R.undecided_site("R-STRWRITE", b.label(), "decode does not call the reader table's lookup (inlined or replaced): "
                                 "that it returns whole entries is not decided")
                continue
        R.check("R-STRWRITE", b.label(), ok and bool(why), construct="decode returns argument or whole entry",
                where=b.where(), detail=", ".join(sorted(set(why))))


def walk_nodes(t):
    from r_bracket import walk
    return walk(t)


LOOK_THROUGH = {("Option", "and_then"), ("Option", "map"), ("Option", "or_else"),
                ("Option", "unwrap_or_else"), ("Option", "map_or"), ("Option", "map_or_else")}


def value_sources(F, ctx, origins, depth=0):
    """where a returned value comes from, looking through Option combinators into the closures
    they call (closure results are resolved in the closure body)"""
    from core import Ctx as _Ctx
    out = set()
    for o in origins:
        for (c, (r, p)) in base_places(ctx, o):
            if r[0] == "call" and depth < 6:
                t = c.body.term(r[1])
                tag = callee_tag(t.get("callee"))
                if tag in LOOK_THROUGH:
                    found = False
                    for a in t["args"][1:]:
                        for (r2, p2) in c.org.operand(a):
                            if r2[0] == "agg":
                                rv = c.org.stmt(r2[1], r2[2])["rv"]
                                if rv.get("agg") == "closure":
                                    cb = F.body(rv["closure"])
                                    if cb is not None:
                                        cc = _Ctx(cb)
                                        out |= value_sources(F, cc, cc.org.local(0), depth + 1)
                                        found = True
                    if tag in (("Option", "or_else"), ("Option", "unwrap_or_else"), ("Option", "map_or")):
                        out |= value_sources(F, c, c.org.operand(t["args"][0]), depth + 1)
                    if found:
                        continue
            out.add((c, (r, p)))
    return out
