"""Core of the rule engine: fact loading, CFG utilities, origin (provenance) analysis,
effect extraction with closure substitution and helper summaries.

Pure python3 standard library.  Nothing from the analysed crate is executed.
"""
import json
import re
import sys
from collections import defaultdict

sys.setrecursionlimit(10000)

# --------------------------------------------------------------------------------------------
# facts


class Facts:
    def __init__(self, path):
        import canon as _canon
        with open(path) as f:
            text = f.read()
        d, self.path_renames = _canon.canon_paths(text)
        self.raw = d
        self.field_renames = _canon.apply(d)  # private fields renamed back to the names the rules know
        self.crate = d["crate"]
        self.features = d["features"]
        self.bodies = {}
        self.by_path = defaultdict(list)
        self.raw_bodies = {b["key"]: b for b in d["bodies"]}
        import os as _os
        self._materialise_default_clear(d)
        self.twin_aliases = self._alias_twins(d)
        if _os.environ.get("VERIF_NO_INLINE") == "1":
            body_dicts = d["bodies"]
        else:
            import inline as _inline
            inl = _inline.inline_all(self)
            body_dicts = [inl[b["key"]] for b in d["bodies"]]
            known = {b["key"] for b in d["bodies"]}
            body_dicts += [inl[k] for k in inl if k not in known]  # specialised closures of provided trait methods
        self.n_inlined_sites = sum(len(b.get("inlined", [])) for b in body_dicts)
        for b in body_dicts:
            body = Body(b, self)
            self.bodies[body.key] = body
            self.by_path[body.path].append(body)
        self.adts = {a["path"]: a for a in d["adts"]}
        try:
            import expr as _expr
            _expr.AGG_FIELDS.clear()
            for a in d["adts"]:
                for v in a.get("variants", []):
                    names = [f["name"] for f in v["fields"]]
                    if names and not all(str(n).isdigit() for n in names):
                        _expr.AGG_FIELDS[a["path"].split("::")[-1] + "::" + v["name"]] = names
        except ImportError:
            pass
        # fields that exist only under `#[cfg(debug_assertions)]` (bookkeeping for debug_assert!s): a
        # release build does not have them, so no property can rest on them -- they are treated
        # like PhantomData (no state to reset / copy / serialise / report)
        self.debug_only_fields = set()
        for a in d["adts"]:
            for v in a.get("variants", []):
                for f in v["fields"]:
                    at = " ".join(str(x) for x in (f.get("attrs") or []))
                    if "CfgTrace" in at and 'name: "debug_assertions"' in at and "Not(" not in at:
                        f["ty"]["debug_only"] = True
                        self.debug_only_fields.add((a["path"], f["name"]))
        try:
            import model as _model
            _model.UNIT_ADTS.clear()
            for a in d["adts"]:
                if a.get("kind") == "struct" and a.get("variants") and not a["variants"][0]["fields"] and "<" not in a["path"]:
                    _model.UNIT_ADTS.add(a["path"])
        except ImportError:
            pass
        self.impls = d["impls"]
        self.impl_by_key = {i["key"]: i for i in d["impls"]}
        self.traits = {t["path"]: t for t in d["traits"]}
        self.unsafe = d["unsafe"]
        # closures by parent item
        self.closures_of = defaultdict(list)
        for b in self.bodies.values():
            if b.kind == "Closure":
                self.closures_of[b.owner.get("item_key")].append(b)

    def _materialise_default_clear(self, d):
        """A lifecycle method that a crate trait *provides* (`fn clear(&mut self) { self.truncate(0) }`)
        and an impl does not override is that type's `clear` all the same: the rules about clear
        look at the methods of each type, so the provided body is instantiated for every such impl
        -- a copy with the `Self` calls resolved to the impl's own methods, owned by the impl -- and
        analysed like a hand-written one.  (Only `clear`: the pinned tree's provided
        merge_regions / reserve_regions are read through the trait body as before.)"""
        try:
            import inline as _inline
        except ImportError:
            return
        provided = {}
        for b in d["bodies"]:
            it = (b.get("owner") or {}).get("in_trait")
            if it and b["kind"] == "AssocFn" and b["name"] == "clear":
                provided[it] = b
        if not provided:
            return
        have = {((b.get("owner") or {}).get("impl_key"), b["name"]) for b in d["bodies"]}
        for im in d["impls"]:
            prov = provided.get(im.get("trait"))
            st = im.get("self_ty") or {}
            if prov is None or (im["key"], "clear") in have or not st.get("adt"):
                continue
            sp = dict(_inline.specialise_default(self, prov, {"self_ty": st}))
            key = prov["key"] + "@" + st["adt"]
            path = "<%s as %s>::clear" % (st.get("s"), im.get("trait_ref") or im.get("trait"))
            sp["key"] = key
            sp["path"] = path
            sp["owner"] = {"item_key": key, "item_path": path, "impl_key": im["key"], "impl_self": st,
                           "trait": im.get("trait"), "trait_ref": im.get("trait_ref"), "trait_args": im.get("trait_args")}
            sp["materialised_from"] = prov["key"]
            d["bodies"].append(sp)
            self.raw_bodies[key] = sp

    def _alias_twins(self, d):
        """A method that does nothing but forward to a private method of the same type with extra
        trailing arguments of zero-sized or generic type (`fn push(&mut self, x) {
        self.push_traced(x, &mut NoTrace) }`, the twin carrying a pluggable hook), or to a private
        *fallible* twin whose Result / Option it unwraps (`fn push(&mut self, x) {
        self.try_push(x).unwrap() }`), *is* that twin as far as callers are concerned: a call of the twin from elsewhere in the crate
        (`self.strided.push_traced(item, tracer)`) is read as a call of the method it implements,
        with the extra arguments dropped.  The twin's body is then analysed once, inlined into its
        forwarder.  Returns {twin key: forwarder key}."""
        by_key = {b["key"]: b for b in d["bodies"]}
        adts = {a["path"]: a for a in d["adts"]}

        def hook_like(ty):
            if ty.get("k") == "param":
                return True
            a = adts.get(ty.get("adt"))
            return bool(a) and a.get("kind") == "struct" and bool(a.get("variants")) and not a["variants"][0]["fields"]
        cand = {}
        for b in d["bodies"]:
            if b["kind"] not in ("Fn", "AssocFn") or "::tests::" in b["key"]:
                continue
            live = [blk for blk in b["blocks"] if not blk["cleanup"]]
            if len(live) > 8 or any(blk["term"]["k"] == "assert" for blk in live):
                continue
            calls = [blk["term"] for blk in live if blk["term"]["k"] == "call"]

            def adapter(t_):
                """what a forwarder may do with the twin's result: unwrap it, or panic on its error"""
                ce_ = t_.get("callee") or {}
                if t_.get("target") is None:
                    return True  # diverges (the panic of a `match .. { Err(e) => panic!(..) }` arm)
                pth_ = str(ce_.get("path") or "")
                return (not ce_.get("local")) and ce_.get("name") in ("unwrap", "expect", "unwrap_or_else", "into", "from", "branch") \
                    and ("Result" in pth_ or "Option" in pth_ or "convert" in pth_ or "Try" in pth_)
            main_calls = [t_ for t_ in calls if not adapter(t_)]
            if len(main_calls) != 1:
                continue
            unwrapped = len(calls) > 1 or any(blk["term"]["k"] == "switch" for blk in live)
            if sum(1 for blk in live if blk["term"]["k"] == "switch") > 1:
                continue
            t = main_calls[0]
            ce = t.get("callee") or {}
            k2 = (ce.get("resolved") or {}).get("key") or ce.get("key")
            tgt = by_key.get(k2)
            if not ce.get("local") or tgt is None or tgt is b or tgt.get("vis_pub") or tgt["kind"] != "AssocFn":
                continue
            n, m = b["arg_count"], tgt["arg_count"]
            if not (m >= n >= 1) or len(t["args"]) != m:
                continue
            if m == n and not unwrapped:
                continue  # same signature, result untouched: an ordinary delegation, left to the inliner
            if m == n and not str(tgt["locals"][0]["ty"].get("s") or "").replace("std::result::", "").replace("std::option::", "").startswith(("Result<", "Option<")):
                continue  # (the fallible twin returns Result / Option, the forwarder unwraps it)
            if not unwrapped and t["dest"]["l"] != 0 and (tgt["locals"][0]["ty"].get("s") != "()" or b["locals"][0]["ty"].get("s") != "()"):
                continue
            sa = ((b.get("owner") or {}).get("impl_self") or {}).get("adt")
            if not sa or sa != ((tgt.get("owner") or {}).get("impl_self") or {}).get("adt"):
                continue
            if not all(hook_like(tgt["locals"][i]["ty"]) for i in range(n + 1, m + 1)):
                continue
            # the forwarder's own parameters are handed on, in order, as they are (possibly
            # reborrowed): `self.push_traced(item, ..)`, not `helper(&self.a, &self.b, ..)`
            src = {}
            for blk in live:
                for st in blk["stmts"]:
                    if st["k"] != "assign" or st["place"]["p"]:
                        continue
                    rv = st["rv"]
                    pl = None
                    if rv["k"] == "use" and rv["op"]["k"] in ("copy", "move"):
                        pl = rv["op"]["place"]
                    elif rv["k"] == "ref":
                        pl = rv["place"]
                    if pl is not None and all(e["k"] == "deref" for e in pl["p"]):
                        src[st["place"]["l"]] = pl["l"]

            def param_of(op):
                if op.get("k") not in ("copy", "move") or op["place"]["p"]:
                    return None
                l = op["place"]["l"]
                for _ in range(6):
                    if 1 <= l <= n:
                        return l
                    if l not in src:
                        return None
                    l = src[l]
                return None
            if [param_of(a) for a in t["args"][:n]] != list(range(1, n + 1)):
                continue
            cand.setdefault(k2, []).append(b)
        alias = {k2: bs[0] for k2, bs in cand.items() if len(bs) == 1}
        if not alias:
            return {}
        # a callee record for each forwarder: an existing one if the crate calls it somewhere
        recs = {}
        for x in d["bodies"]:
            for blk in x["blocks"]:
                t = blk["term"]
                if t["k"] == "call" and t.get("callee"):
                    ce = t["callee"]
                    k = (ce.get("resolved") or {}).get("key") or ce.get("key")
                    recs.setdefault(k, ce)
        for k2, fwd in alias.items():
            rec = recs.get(fwd["key"])
            if rec is None:
                ow = fwd.get("owner") or {}
                rec = {"path": fwd["path"], "pretty": fwd["path"], "key": fwd["key"], "local": True, "name": fwd["name"],
                       "kind": fwd["kind"], "trait": ow.get("trait"), "self_ty": ow.get("impl_self"),
                       "impl_self": ow.get("impl_self"), "impl_key": ow.get("impl_key"),
                       "resolved": {"local": True, "key": fwd["key"]}}
            for x in d["bodies"]:
                if x is fwd or x["key"] == k2:
                    continue
                for blk in x["blocks"]:
                    t = blk["term"]
                    if t["k"] != "call" or not t.get("callee"):
                        continue
                    ce = t["callee"]
                    if ((ce.get("resolved") or {}).get("key") or ce.get("key")) != k2:
                        continue
                    nce = dict(rec)
                    if ce.get("self_ty") and not nce.get("self_ty"):
                        nce["self_ty"] = ce["self_ty"]
                    t["callee"] = nce
                    t["args"] = t["args"][:fwd["arg_count"]]
                    t["twin_of"] = k2
        return {k2: fwd["key"] for k2, fwd in alias.items()}

    def custom_iterator_adts(self):
        """crate types with a hand-written `Iterator` impl that the pinned tree does not have
        (`struct CellPusher<..>` in place of a closure handed to `map`)"""
        if getattr(self, "_custom_iters", None) is None:
            import json as _json
            import os as _os
            out = set()
            try:
                pinned = set(_json.load(open(_os.path.join(_os.path.dirname(_os.path.abspath(__file__)), "pinned_adts.json"))))
            except (OSError, ValueError):
                pinned = None
            if pinned is not None:
                for im in self.impls:
                    if (im.get("trait") or "") in ("std::iter::Iterator", "core::iter::Iterator") and not im.get("derived"):
                        a_ = (im.get("self_ty") or {}).get("adt")
                        if a_ and a_ in self.adts and a_ not in pinned and "::tests::" not in a_:
                            out.add(a_)
            self._custom_iters = out
        return self._custom_iters

    def custom_newtype_adts(self):
        """single-field structs the pinned tree does not have that carry arithmetic or ordering of
        their own (`struct BitPos(usize)` with `impl Add`, derived `PartialOrd`): positions and
        lengths wrapped in them are computed and compared through calls the rules do not read"""
        if getattr(self, "_custom_newtypes", None) is None:
            import json as _json
            import os as _os
            out = set()
            try:
                pinned = set(_json.load(open(_os.path.join(_os.path.dirname(_os.path.abspath(__file__)), "pinned_adts.json"))))
            except (OSError, ValueError):
                pinned = None
            if pinned is not None:
                ops = ("std::ops::", "core::ops::", "std::cmp::PartialOrd", "core::cmp::PartialOrd", "std::cmp::Ord", "core::cmp::Ord")
                for im in self.impls:
                    tr = im.get("trait") or ""
                    if not tr.startswith(ops):
                        continue
                    a_ = (im.get("self_ty") or {}).get("adt")
                    ad = self.adts.get(a_) if a_ else None
                    if ad and a_ not in pinned and "::tests::" not in a_ and ad.get("kind") == "struct" and ad.get("variants") and \
                            len(ad["variants"][0]["fields"]) == 1 and ad["variants"][0]["fields"][0]["ty"]["s"] in (
                                "usize", "u8", "u16", "u32", "u64", "u128", "isize", "i64", "i32"):
                        out.add(a_)
            self._custom_newtypes = out
        return self._custom_newtypes

    def body(self, key):
        return self.bodies.get(key)

    def only_inlined(self, b):
        """b is a crate-private function or method (not `pub`, or a method of a private trait)
        that, after inlining, no body calls or mentions as a value any more: each of its uses is
        analysed in place, in its caller's context, so obligations that depend on the caller's
        guards (a precondition `i < len`) are judged there and not on the helper alone"""
        if b.kind not in ("Fn", "AssocFn") or b.d.get("vis_pub") or b.in_tests():
            return False
        if getattr(self, "_still_called", None) is None:
            called = set()
            for x in self.bodies.values():
                for blk in x.blocks:
                    t = blk["term"]
                    if t["k"] != "call":
                        continue
                    ce = t.get("callee") or {}
                    if ce.get("key"):
                        called.add(ce["key"])
                    if (ce.get("resolved") or {}).get("key"):
                        called.add(ce["resolved"]["key"])
                    for a in t.get("args", []):
                        if a.get("k") == "const" and a.get("fn"):
                            called.add(a["fn"].get("key"))
                            if (a["fn"].get("resolved") or {}).get("key"):
                                called.add(a["fn"]["resolved"]["key"])
                    if t.get("func", {}).get("k") == "const" and t["func"].get("fn"):
                        called.add(t["func"]["fn"].get("key"))
            self._still_called = called
            self._inlined_somewhere = {p for x in self.bodies.values() for p in x.d.get("inlined", [])}
        return b.key not in self._still_called and b.path in self._inlined_somewhere

    def methods_of_trait(self, trait, name=None):
        """All local bodies that are methods in `impl <trait> for ...` (trait = last path segment
        or full path)."""
        out = []
        for b in self.bodies.values():
            if b.kind != "AssocFn":
                continue
            t = b.owner.get("trait")
            if t is None:
                continue
            if t == trait or t.split("::")[-1] == trait:
                if name is None or b.name == name:
                    out.append(b)
        return out

    def inherent_methods(self, adt_path, name=None):
        out = []
        for b in self.bodies.values():
            if b.kind != "AssocFn" or b.owner.get("trait") is not None:
                continue
            st = b.owner.get("impl_self")
            if st and st.get("adt") == adt_path:
                if name is None or b.name == name:
                    out.append(b)
        return out


def short(path):
    """last path segment of a def path, generic args stripped"""
    p = re.sub(r"::<[^>]*>", "", path)
    return p.split("::")[-1]


def strip_generics(s):
    """remove all <...> groups (nested) from a string"""
    out = []
    depth = 0
    for ch in s:
        if ch == "<":
            depth += 1
        elif ch == ">":
            depth -= 1
        elif depth == 0:
            out.append(ch)
    return "".join(out)


# --------------------------------------------------------------------------------------------
# bodies / CFG


class Body:
    def __init__(self, d, facts):
        self.d = d
        self.facts = facts
        self.key = d["key"]
        self.path = d["path"]
        self.kind = d["kind"]
        self.name = d["name"]
        self.blocks = d["blocks"]
        self.nargs = d["arg_count"]
        self.owner = d["owner"]
        self.span = d["span"]
        self.file = d["span"]["file"]
        self.line = d["span"]["line"]
        self.derived = d.get("derived", False)
        self.locals = d["locals"]
        self._succ = None
        self._pred = None
        self._dom = None
        self._orig = None
        self.debug_names = {}
        for dbg in d["debug"]:
            if "place" in dbg and not dbg["place"]["p"]:
                self.debug_names[dbg["place"]["l"]] = dbg["name"]

    # -- identification -------------------------------------------------------------------
    @property
    def trait(self):
        t = self.owner.get("trait")
        return t.split("::")[-1] if t else None

    @property
    def self_adt(self):
        st = self.owner.get("impl_self")
        return st.get("adt") if st else None

    @property
    def self_ty(self):
        st = self.owner.get("impl_self")
        return st.get("s") if st else None

    @property
    def trait_ref(self):
        return self.owner.get("trait_ref")

    def where(self):
        return "%s:%d" % (self.file, self.line)

    def label(self):
        """line-free, stable identification used in violation keys"""
        return self.path

    def in_tests(self):
        return "::tests::" in self.key or self.key.endswith("::tests")

    # -- CFG ------------------------------------------------------------------------------
    def term(self, bb):
        return self.blocks[bb]["term"]

    def succs(self, bb):
        if self._succ is None:
            self._build_cfg()
        return self._succ[bb]

    def preds(self, bb):
        if self._pred is None:
            self._build_cfg()
        return self._pred[bb]

    def _build_cfg(self):
        n = len(self.blocks)
        succ = [[] for _ in range(n)]
        for i, b in enumerate(self.blocks):
            if b["cleanup"]:
                continue
            t = b["term"]
            k = t["k"]
            if k == "goto":
                succ[i] = [t["target"]]
            elif k == "switch":
                s = [a[1] for a in t["arms"]] + [t["otherwise"]]
                succ[i] = list(dict.fromkeys(s))
            elif k in ("drop",):
                succ[i] = [t["target"]]
            elif k == "call":
                succ[i] = [t["target"]] if t["target"] is not None else []
            elif k == "assert":
                succ[i] = [t["target"]]
            else:
                succ[i] = []
        pred = [[] for _ in range(n)]
        for i, ss in enumerate(succ):
            for s in ss:
                pred[s].append(i)
        self._succ = succ
        self._pred = pred

    def live_blocks(self):
        """blocks reachable from entry over normal edges"""
        seen = set()
        st = [0]
        while st:
            b = st.pop()
            if b in seen:
                continue
            seen.add(b)
            st.extend(self.succs(b))
        return seen

    def return_blocks(self):
        return [i for i in self.live_blocks() if self.term(i)["k"] == "return"]

    def reachable(self, frm, avoid=()):
        """set of blocks reachable from `frm` (inclusive) without entering blocks in avoid"""
        avoid = set(avoid)
        seen = set()
        st = [frm] if frm not in avoid else []
        while st:
            b = st.pop()
            if b in seen:
                continue
            seen.add(b)
            for s in self.succs(b):
                if s not in avoid:
                    st.append(s)
        return seen

    def can_return_avoiding(self, avoid, frm=0):
        r = self.reachable(frm, avoid)
        return any(self.term(b)["k"] == "return" for b in r)

    def dominators(self):
        if self._dom is not None:
            return self._dom
        live = sorted(self.live_blocks())
        allset = set(live)
        dom = {b: set(allset) for b in live}
        dom[0] = {0}
        changed = True
        while changed:
            changed = False
            for b in live:
                if b == 0:
                    continue
                ps = [p for p in self.preds(b) if p in allset]
                if not ps:
                    continue
                new = set.intersection(*[dom[p] for p in ps]) | {b}
                if new != dom[b]:
                    dom[b] = new
                    changed = True
        self._dom = dom
        return dom

    def dominates(self, a, b):
        d = self.dominators()
        return b in d and a in d[b]

    def calls(self):
        """(bb, term) of every call terminator in live non-cleanup blocks"""
        out = []
        for i in sorted(self.live_blocks()):
            t = self.term(i)
            if t["k"] == "call":
                out.append((i, t))
        return out

    def diverging_blocks(self):
        """blocks that end in a call without return target (panic & friends) or unreachable"""
        out = set()
        for i in self.live_blocks():
            t = self.term(i)
            if t["k"] == "call" and t["target"] is None:
                out.add(i)
        return out

    # -- origins --------------------------------------------------------------------------
    def origins(self):
        if self._orig is None:
            self._orig = Origins(self)
        return self._orig


# --------------------------------------------------------------------------------------------
# places and origins


def norm_proj(p):
    out = []
    for e in p:
        k = e["k"]
        if k == "deref":
            continue
        if k == "field":
            if "closure" in e:
                out.append("u:%d" % e["i"])
            else:
                nm = e.get("name")
                out.append("f:" + (nm if nm is not None else str(e["i"])))
        elif k == "downcast":
            out.append("v:" + str(e["name"]))
        elif k in ("index", "constindex", "subslice"):
            out.append("[]")
        else:
            out.append("?")
    return tuple(out)


def place_str(pl):
    return "_%d%s" % (pl["l"], "".join("." + x for x in norm_proj(pl["p"])))


class Origins:
    """Flow-insensitive provenance of MIR locals.

    An origin is (root, path).  Roots:
      ('arg', k)          k-th argument local (1-based, as in MIR)
      ('call', bb)        result of the call terminating block bb
      ('agg', bb, si)     aggregate rvalue at statement si of block bb
      ('expr', bb, si)    binop / unop / discriminant / other computed rvalue
      ('const', s)        constant operand (display string)
      ('undef', l)        local without definition
    path is a tuple of projection steps ('f:name', 'v:Variant', '[]', 'u:k').
    References are conflated with their referents; casts are transparent.
    """

    def __init__(self, body):
        self.body = body
        self.defs = defaultdict(list)  # local -> [(dest_path, kind, data)]
        for bi in sorted(body.live_blocks()):
            b = body.blocks[bi]
            for si, st in enumerate(b["stmts"]):
                if st["k"] != "assign":
                    continue
                pl = st["place"]
                self.defs[pl["l"]].append((norm_proj(pl["p"]), "stmt", (bi, si), has_deref(pl)))
            t = b["term"]
            if t["k"] == "call":
                pl = t["dest"]
                self.defs[pl["l"]].append((norm_proj(pl["p"]), "call", bi, has_deref(pl)))
        self._memo = {}

    def stmt(self, bi, si):
        return self.body.blocks[bi]["stmts"][si]

    def local(self, l, _seen=None):
        if l in self._memo:
            return self._memo[l]
        if _seen is None:
            _seen = set()
        if l in _seen:
            return set()
        _seen = _seen | {l}
        out = set()
        if 1 <= l <= self.body.nargs:
            out.add((("arg", l), ()))
        for (dpath, kind, data, through_deref) in self.defs.get(l, ()):
            if through_deref:
                # a store through a reference held in l does not redefine l itself
                continue
            if kind == "call":
                if dpath == ():
                    out.add((("call", data), ()))
                continue
            bi, si = data
            if dpath != ():
                continue  # partial definitions are handled in resolve()
            out |= self.rvalue(self.stmt(bi, si)["rv"], bi, si, _seen)
        if not out:
            # maybe only partial defs
            if self.defs.get(l):
                out.add((("parts", l), ()))
            else:
                out.add((("undef", l), ()))
        if len(_seen) == 1:
            self._memo[l] = out
        return out

    def rvalue(self, rv, bi, si, _seen=None):
        k = rv["k"]
        if k == "use" or k == "cast":
            return self.operand(rv["op"], _seen)
        if k == "ref" or k == "rawptr":
            return self.place(rv["place"], _seen)
        if k == "aggregate":
            return {(("agg", bi, si), ())}
        return {(("expr", bi, si), ())}

    def operand(self, op, _seen=None):
        k = op["k"]
        if k in ("copy", "move"):
            return self.place(op["place"], _seen)
        if k == "const":
            # a named constant item (`const BYTE_BITS: usize = 8`) is the number it evaluates to
            sv = op["s"]
            if "int" in op and op.get("ty") not in ("bool", "char") and not re.match(r"^(const )?-?\d", sv.strip()):
                sv = op["int"]
            return {(("const", sv), ())}
        return {(("const", "?"), ())}

    def place(self, pl, _seen=None):
        path = norm_proj(pl["p"])
        out = set()
        l = pl["l"]
        base = self.local(l, _seen)
        for (root, p0) in base:
            if root[0] == "parts":
                out |= self._parts(l, path, _seen)
            else:
                out |= self.extend(root, p0 + path, _seen)
        return out

    def _parts(self, l, path, _seen):
        out = set()
        for (dpath, kind, data, through_deref) in self.defs.get(l, ()):
            if through_deref or dpath == ():
                continue
            n = len(dpath)
            if path[:n] == dpath:
                rest = path[n:]
                if kind == "call":
                    out |= self.extend(("call", data), rest, _seen)
                else:
                    bi, si = data
                    for (r, p) in self.rvalue(self.stmt(bi, si)["rv"], bi, si, _seen):
                        out |= self.extend(r, p + rest, _seen)
        if not out:
            out.add((("parts", l), path))
        return out

    def extend(self, root, path, _seen=None):
        """apply `path` on top of `root`, looking through aggregates"""
        if not path or root[0] != "agg":
            return {(root, path)}
        rv = self.stmt(root[1], root[2])["rv"]
        step = path[0]
        rest = path[1:]
        agg = rv["agg"]
        if step.startswith("v:"):
            # downcast on an aggregate enum value: stay on the aggregate -- unless the aggregate
            # builds another variant (`(r as Ok).0` where r is, flow-insensitively, either of
            # Ok(a) / Err(b): the Err construction does not reach a place that reads the Ok payload)
            vn = rv.get("variant_name")
            if agg == "adt" and vn is not None and step[2:] != str(vn) and rest:
                return set()
            return self.extend(root, rest, _seen)
        idx = None
        if step.startswith("u:") and agg == "closure":
            idx = int(step[2:])
        elif step.startswith("f:"):
            nm = step[2:]
            if agg == "adt":
                if nm in rv["fields"]:
                    idx = rv["fields"].index(nm)
            elif agg in ("tuple",):
                if nm.isdigit():
                    idx = int(nm)
        elif step == "[]" and agg == "array":
            out = set()
            for op in rv["ops"]:
                for (r, p) in self.operand(op, _seen):
                    out |= self.extend(r, p + rest, _seen)
            return out
        if idx is None or idx >= len(rv["ops"]):
            return {(root, path)}
        out = set()
        for (r, p) in self.operand(rv["ops"][idx], _seen):
            out |= self.extend(r, p + rest, _seen)
        return out

    # ---- convenience -------------------------------------------------------------------
    def call_info(self, bb):
        t = self.body.term(bb)
        return t

    def describe(self, o):
        root, path = o
        p = "".join("." + x for x in path)
        if root[0] == "arg":
            nm = self.body.debug_names.get(root[1], "_%d" % root[1])
            return nm + p
        if root[0] == "call":
            t = self.body.term(root[1])
            ce = t.get("callee")
            return "%s(..)%s" % (short(ce["path"]) if ce else "<indirect>", p)
        if root[0] == "agg":
            rv = self.stmt(root[1], root[2])["rv"]
            if rv["agg"] == "adt":
                return "%s::%s{..}%s" % (short(rv["adt"]), rv["variant_name"], p)
            return rv["agg"] + "{..}" + p
        if root[0] == "expr":
            rv = self.stmt(root[1], root[2])["rv"]
            if rv["k"] == "binop":
                return "(%s)%s" % (rv["op"], p)
            return rv["k"] + p
        if root[0] == "const":
            return root[1] + p
        return "%s%s" % (root, p)


def has_deref(pl):
    return any(e["k"] == "deref" for e in pl["p"])


# --------------------------------------------------------------------------------------------
# callee classification (Appendix D of DESIGN.md)


def callee_tag(ce):
    """(container tag, name) for a callee record"""
    if ce is None:
        return ("?", "?")
    if (ce.get("path") or "").endswith("iter::zip") and not ce.get("trait"):
        return ("Iterator", "zip")  # the free function `std::iter::zip(a, b)` = a.into_iter().zip(b)
    name = ce["name"]
    tr = ce.get("trait")
    if tr:
        return (tr.split("::")[-1], name)
    path = ce["path"]
    m = re.search(r"<impl ([^>]*)>::[^:]*$", path)
    if m:
        t = m.group(1)
        if t.startswith("[") and ";" in t:
            return ("array", name)
        if t.startswith("["):
            return ("slice", name)
        return (t, name)
    p = strip_generics(path)
    segs = [s for s in p.split("::") if s]
    if len(segs) >= 2:
        if ce.get("kind") == "Fn":
            return ("fn", name)
        return (segs[-2], name)
    return ("fn", name)


MEASURE = {
    ("Storage", "len"), ("Storage", "is_empty"), ("Vec", "len"), ("Vec", "is_empty"),
    ("Vec", "capacity"), ("slice", "len"), ("slice", "is_empty"), ("BTreeMap", "is_empty"),
    ("BTreeMap", "len"), ("Stride", "len"), ("Stride", "is_empty"), ("IndexList", "len"),
    ("IndexList", "is_empty"), ("ReadSlice", "len"), ("ReadSlice", "is_empty"),
    ("ReadSliceInner", "len"), ("ReadSliceInner", "is_empty"), ("ReadColumns", "len"),
    ("ReadColumns", "is_empty"), ("ReadColumnsInner", "len"), ("ReadColumnsInner", "is_empty"),
    ("fn", "size_of"), ("Iterator", "count"), ("Iterator", "sum"), ("Iterator", "max"),
    ("Iterator", "size_hint"), ("BinaryHeap", "len"), ("FlatStack", "len"),
    ("FlatStack", "is_empty"), ("FlatStack", "capacity"), ("Option", "is_some"),
    ("Option", "is_none"), ("Result", "is_ok"), ("Result", "is_err"), ("BytesMap", "len"),
    ("ExactSizeIterator", "len"), ("str", "len"), ("String", "len"), ("u64", "count_ones"),
}
READ = {
    ("Region", "index"), ("IndexContainer", "index"), ("IndexContainer", "iter"),
    ("Index", "index"), ("Deref", "deref"), ("Vec", "as_slice"), ("array", "as_slice"),
    ("String", "as_str"), ("str", "as_bytes"), ("slice", "iter"), ("slice", "get"),
    ("slice", "first"), ("slice", "last"), ("BTreeMap", "get"), ("BTreeMap", "iter"),
    ("BTreeMap", "values"), ("BTreeMap", "keys"), ("BytesMap", "get"), ("Codec", "decode"),
    ("Codec", "report"), ("Stride", "index"), ("Stride", "iter"), ("IndexList", "index"),
    ("Wrapped", "decode"), ("Encoded", "decode"), ("Encoded", "new"), ("Huffman", "encode"),
    ("Huffman", "decode"), ("Clone", "clone"), ("PartialEq", "eq"), ("PartialEq", "ne"),
    ("PartialOrd", "partial_cmp"), ("PartialOrd", "le"), ("PartialOrd", "lt"),
    ("PartialOrd", "ge"), ("PartialOrd", "gt"), ("Ord", "cmp"), ("IntoOwned", "into_owned"),
    ("IntoOwned", "borrow_as"), ("ReadSlice", "iter"), ("ReadSlice", "get"),
    ("ReadSliceInner", "get"), ("ReadColumns", "iter"), ("ReadColumns", "get"),
    ("ReadColumnsInner", "get"), ("HuffmanContainer", "print"), ("Borrow", "borrow"),
    ("ToOwned", "to_owned"), ("slice", "to_vec"), ("AsRef", "as_ref"), ("Option", "as_ref"),
    ("Result", "as_ref"), ("Iterator", "eq"),
    ("Iterator", "cmp"), ("Iterator", "partial_cmp"), ("Iterator", "any"), ("Iterator", "all"),
    ("Iterator", "fold"), ("Debug", "fmt"), ("Display", "fmt"), ("Wrapped", "encoded"),
    ("Wrapped", "decoded"), ("Decode", "any_void"), ("Serialize", "serialize"),
    ("Copy", "copy"), ("Iterator", "collect"), ("fn", "min"), ("fn", "max"),
    ("Option", "copied"), ("Option", "cloned"),
}
APPEND = {
    ("Vec", "push"), ("Vec", "extend"), ("Vec", "extend_from_slice"), ("Vec", "append"),
    ("Extend", "extend"), ("PushStorage", "push_storage"), ("IndexContainer", "push"),
    ("IndexContainer", "extend"), ("Push", "push"), ("BTreeMap", "insert"),
    ("BTreeMap", "entry"), ("Entry", "or_insert"), ("Entry", "or_default"),
    ("Entry", "or_insert_with"), ("Stride", "push"), ("IndexList", "push"),
    ("BytesMap", "push"), ("MisraGries", "insert"), ("MisraGries", "update"),
    ("BinaryHeap", "push"), ("String", "push_str"), ("String", "push"),
}
RESERVE = {
    ("Vec", "reserve"), ("Storage", "reserve"), ("Storage", "reserve_regions"),
    ("Region", "reserve_regions"), ("ReserveItems", "reserve_items"), ("IndexList", "reserve"),
    ("FlatStack", "reserve"), ("FlatStack", "reserve_items"), ("FlatStack", "reserve_regions"),
    ("BinaryHeap", "reserve"), ("String", "reserve"),
}
CONSTRUCT = {
    ("Default", "default"), ("Vec", "new"), ("Vec", "with_capacity"), ("BTreeMap", "new"),
    ("Storage", "with_capacity"), ("Storage", "merge_regions"), ("Region", "merge_regions"),
    ("IndexList", "with_capacity"), ("FlatStack", "with_capacity"),
    ("FlatStack", "merge_capacity"), ("Codec", "new_from"), ("Huffman", "create_from"),
    ("Decode", "map"), ("BinaryHeap", "new"), ("MisraGries", "with_capacity"),
    ("String", "new"), ("Box", "new"),
}
CLEAR = {
    ("Vec", "clear"), ("Storage", "clear"), ("Region", "clear"), ("BTreeMap", "clear"),
    ("Stride", "clear"), ("IndexList", "clear"), ("FlatStack", "clear"), ("String", "clear"),
    ("BinaryHeap", "clear"),
}
CLONE_FROM = {("Clone", "clone_from")}
HEAP_REPORT = {
    ("Region", "heap_size"), ("Storage", "heap_size"), ("Codec", "heap_size"),
    ("IndexList", "heap_size"), ("FlatStack", "heap_size"),
}
DESTRUCTIVE_NAMES = {
    "pop", "truncate", "remove", "swap_remove", "insert", "drain", "retain", "retain_mut",
    "dedup", "dedup_by", "dedup_by_key", "split_off", "set_len", "resize", "resize_with", "fill",
    "fill_with", "sort", "sort_by", "sort_by_key", "sort_unstable", "sort_unstable_by",
    "sort_unstable_by_key", "reverse", "swap", "rotate_left", "rotate_right", "copy_from_slice",
    "clone_from_slice", "pop_first", "pop_last", "shrink_to_fit", "shrink_to", "swap_with_slice",
    "split_at_mut_unchecked", "take", "replace",
}
DESTRUCTIVE = set()
for _n in DESTRUCTIVE_NAMES:
    for _t in ("Vec", "slice", "BTreeMap", "String", "BinaryHeap", "VecDeque"):
        DESTRUCTIVE.add((_t, _n))
DESTRUCTIVE -= {("BTreeMap", "insert")}
DESTRUCTIVE |= {("fn", "swap"), ("fn", "replace"), ("fn", "take"), ("BTreeMap", "append"),
                ("BTreeMap", "remove"), ("BTreeMap", "retain"), ("Option", "take"),
                ("Option", "replace"), ("MisraGries", "tidy"), ("MisraGries", "done"),
                ("fn", "consolidate"), ("fn", "consolidate_from"), ("fn", "consolidate_slice"),
                ("ToOwned", "clone_into")}
# sub-part / element access: result denotes (an element of) the receiver
SUBPART_IDENT = {
    ("IntoIterator", "into_iter"), ("slice", "iter"), ("slice", "iter_mut"), ("Vec", "iter"),
    ("Vec", "iter_mut"), ("Vec", "as_slice"), ("Vec", "as_mut_slice"), ("array", "as_slice"),
    ("Deref", "deref"), ("DerefMut", "deref_mut"), ("Option", "as_ref"), ("Option", "as_mut"),
    ("Result", "as_ref"), ("Result", "as_mut"), ("Option", "unwrap"), ("Option", "expect"),
    ("Result", "unwrap"), ("Result", "expect"), ("Iterator", "enumerate_"),
    ("Iterator", "skip"), ("Iterator", "filter"), ("Iterator", "rev"), ("Iterator", "take"),
    ("Iterator", "step_by"), ("Iterator", "peekable"), ("Iterator", "by_ref"),
    ("Iterator", "copied"), ("Iterator", "cloned"), ("AsRef", "as_ref"), ("AsMut", "as_mut"),
    ("Borrow", "borrow"), ("BorrowMut", "borrow_mut"), ("String", "as_str"),
    ("str", "as_bytes"), ("Iterator", "flatten"), ("BTreeMap", "iter"),
    ("BTreeMap", "values"), ("BTreeMap", "iter_mut"), ("BTreeMap", "values_mut"),
    ("Entry", "or_insert"), ("Entry", "or_default"), ("Clone", "clone"),
    ("Try", "branch"), ("Option", "ok_or"), ("Result", "ok"), ("Result", "err"),
    ("ReadColumns", "iter"), ("ReadSlice", "iter"),
}
SUBPART_ELEM = {
    ("Iterator", "next"), ("Index", "index"), ("IndexMut", "index_mut"), ("slice", "get"),
    ("slice", "get_mut"), ("slice", "first"), ("slice", "last"), ("slice", "first_mut"),
    ("slice", "last_mut"), ("Vec", "get"), ("Vec", "get_mut"), ("BTreeMap", "get"),
    ("BTreeMap", "get_mut"), ("BTreeMap", "entry"), ("Iterator", "last"),
    ("DoubleEndedIterator", "next_back"),
}
# adaptors taking (receiver, closure): closure's first parameter is an element of the receiver
ADAPTORS = {
    ("Iterator", "map"), ("Iterator", "for_each"), ("Iterator", "filter_map"),
    ("Iterator", "flat_map"), ("Iterator", "filter"), ("Iterator", "any"), ("Iterator", "all"),
    ("Iterator", "inspect"), ("Iterator", "skip_while"), ("Iterator", "take_while"),
    ("Iterator", "find"), ("Iterator", "position"), ("Iterator", "try_for_each"),
    ("Option", "map"), ("Option", "and_then"), ("Option", "filter"), ("Option", "map_or"),
    ("Option", "is_some_and"), ("Result", "map"), ("Result", "map_err"),
    ("Result", "and_then"), ("Option", "inspect"),
}
DIVERGE_NAMES = {"panic_fmt", "panic", "assert_failed", "unreachable_display", "panic_display",
                 "panic_explicit", "unwrap_failed", "expect_failed", "panic_nounwind",
                 "panic_bounds_check", "begin_panic", "panic_str_2015"}


def classify(ce):
    """effect class of a resolved callee"""
    if ce is None:
        return "indirect"
    tag = callee_tag(ce)
    if tag in MEASURE:
        return "measure"
    if tag in APPEND:
        return "append"
    if tag in RESERVE:
        return "reserve"
    if tag in CLEAR:
        return "clear"
    if tag in CLONE_FROM:
        return "clone_from"
    if tag in HEAP_REPORT:
        return "heap_report"
    if tag in DESTRUCTIVE:
        return "destructive"
    if tag in CONSTRUCT:
        return "construct"
    if tag in READ:
        return "read"
    if tag in SUBPART_IDENT or tag in SUBPART_ELEM:
        return "access"
    if tag in ADAPTORS or tag[0] in ("Iterator",):
        return "adaptor"
    if tag[1] in DIVERGE_NAMES:
        return "diverge"
    if tag == ("FnMut", "call_mut") or tag == ("FnOnce", "call_once") or tag == ("Fn", "call"):
        return "callback"
    return "unclassified"


# --------------------------------------------------------------------------------------------
# base places: follow sub-part calls back to the place they denote


def strip_option(path):
    """drop v:Some / v:Ok / v:Err downcasts and the tuple field following them"""
    out = []
    i = 0
    while i < len(path):
        s = path[i]
        if s in ("v:Some", "v:Ok", "v:Err", "v:Continue", "v:Break"):
            i += 1
            if i < len(path) and path[i] == "f:0":
                i += 1
            continue
        out.append(s)
        i += 1
    return tuple(out)


class Ctx:
    """Analysis context of one body, optionally nested in a parent (closure inside fn):
    maps the closure's upvars and parameters to parent-level origins."""

    def __init__(self, body, parent=None, upvars=None, params=None, site_bb=None, consumer=None):
        self.body = body
        self.org = body.origins()
        self.parent = parent  # Ctx
        self.upvars = upvars or {}  # k -> set of parent-level (ctx, origin)
        self.params = params or {}  # arg index -> set of (ctx, origin)
        self.site_bb = site_bb  # block in parent where the closure is created
        # (block of the parent's call that receives this closure, callee tag, argument position)
        self.consumer = consumer

    def top(self):
        c = self
        while c.parent is not None:
            c = c.parent
        return c

    def top_site(self, bb):
        """block in the top-level body corresponding to block bb of this ctx"""
        c = self
        while c.parent is not None:
            bb = c.site_bb
            c = c.parent
        return bb


def base_places(ctx, origin, depth=0):
    """Resolve an origin to the set of (ctx, (root, path)) it denotes after looking through
    sub-part calls, closure upvars and bound closure parameters.  Roots that cannot be looked
    through stay as they are."""
    out = set()
    _base(ctx, origin, out, depth, set())
    return out


def _base(ctx, origin, out, depth, seen):
    root, path = origin
    key = (id(ctx), root, path)
    if key in seen or depth > 40:
        out.add((ctx, origin))
        return
    seen.add(key)
    if root[0] == "arg":
        k = root[1]
        if ctx.parent is not None:
            if k == 1 and path and path[0].startswith("u:"):
                uk = int(path[0][2:])
                rest = path[1:]
                if uk in ctx.upvars:
                    for (pc, (r, p)) in ctx.upvars[uk]:
                        for o2 in pc.org.extend(r, p + rest):
                            _base(pc, o2, out, depth + 1, seen)
                    return
            if k in ctx.params:
                for (pc, (r, p)) in ctx.params[k]:
                    for o2 in pc.org.extend(r, p + path):
                        _base(pc, o2, out, depth + 1, seen)
                return
        out.add((ctx, origin))
        return
    if root[0] == "call":
        t = ctx.body.term(root[1])
        ce = t.get("callee")
        tag = callee_tag(ce)
        args = t["args"]
        if tag in SUBPART_IDENT and args:
            for o in ctx.org.operand(args[0]):
                for o2 in ctx.org.extend(o[0], o[1] + path):
                    _base(ctx, o2, out, depth + 1, seen)
            return
        if tag in SUBPART_ELEM and args:
            p2 = ("[]",) + strip_option(path)
            for o in ctx.org.operand(args[0]):
                for o2 in ctx.org.extend(o[0], o[1] + p2):
                    _base(ctx, o2, out, depth + 1, seen)
            return
        if tag == ("Iterator", "zip") and len(args) == 2:
            # elements are pairs
            p = strip_option(path)
            if p and p[0] == "[]":
                p = p[1:]
                if p and p[0] in ("f:0", "f:1"):
                    which = int(p[0][2:])
                    for o in ctx.org.operand(args[which]):
                        for o2 in ctx.org.extend(o[0], o[1] + ("[]",) + p[1:]):
                            _base(ctx, o2, out, depth + 1, seen)
                    return
            elif not p:
                out.add((ctx, origin))
                return
        if tag == ("Iterator", "map") and len(args) == 2 and path[:1] == ("[]",) and depth < 30:
            # an element of map(X, f) is what f returns for an element of X
            done = False
            for (r2, p2) in ctx.org.operand(args[1]):
                if r2[0] == "agg" and p2 == ():
                    rv = ctx.org.stmt(r2[1], r2[2])["rv"]
                    if rv.get("agg") == "closure":
                        cb = ctx.body.facts.body(rv["closure"])
                        if cb is not None:
                            upv = {}
                            for k_, op in enumerate(rv["ops"]):
                                s_ = set()
                                for o in ctx.org.operand(op):
                                    s_ |= base_places(ctx, o)
                                upv[k_] = s_
                            recv = set()
                            for o in ctx.org.operand(args[0]):
                                for (c_, (r3, p3)) in base_places(ctx, o):
                                    recv.add((c_, (r3, p3 + ("[]",))))
                            cctx = Ctx(cb, parent=ctx, upvars=upv, params={2: recv}, site_bb=root[1])
                            for (r4, p4) in cctx.org.local(0):
                                for o2 in cctx.org.extend(r4, p4 + tuple(path[1:])):
                                    _base(cctx, o2, out, depth + 1, seen)
                            done = True
            if done:
                return
        if tag == ("Iterator", "enumerate") and args:
            p = strip_option(path)
            if p and p[0] == "[]":
                p = p[1:]
                if p and p[0] == "f:1":
                    for o in ctx.org.operand(args[0]):
                        for o2 in ctx.org.extend(o[0], o[1] + ("[]",) + p[1:]):
                            _base(ctx, o2, out, depth + 1, seen)
                    return
                if p and p[0] == "f:0":
                    out.add((ctx, (("counter", root[1]), p[1:])))
                    return
        out.add((ctx, origin))
        return
    out.add((ctx, origin))


# --------------------------------------------------------------------------------------------
# effects


class Effect:
    __slots__ = ("cls", "callee", "tag", "ctx", "bb", "line", "targets", "argorigins", "term",
                 "via", "top_bb", "kind", "value")

    def __init__(self, **kw):
        for k in self.__slots__:
            setattr(self, k, kw.get(k))

    def where(self):
        return "%s:%s" % (self.ctx.body.file, self.line)

    def __repr__(self):
        return "<%s %s @%s targets=%s>" % (self.cls, self.tag, self.where(),
                                           [describe(c, o) for (c, o) in (self.targets or [])][:3])


def describe(ctx, o):
    return ctx.org.describe(o)


def closure_sites(body):
    """closure aggregates created in body: [(bb, si, closure_key, ops)]"""
    out = []
    for bi in sorted(body.live_blocks()):
        for si, st in enumerate(body.blocks[bi]["stmts"]):
            if st["k"] == "assign" and st["rv"]["k"] == "aggregate" and st["rv"].get("agg") == "closure" \
                    and not st["rv"].get("spliced"):
                out.append((bi, si, st["rv"]["closure"], st["rv"]["ops"]))
    return out


def fnitem_of_operand(op):
    """for a constant operand naming a function item, its callee record"""
    if op["k"] == "const" and "fn" in op:
        return op["fn"]
    return None


TARGET_ARG = {
    # (tag) -> list of (arg index, class) overriding the default (arg 0, classify())
    ("Codec", "encode"): [(0, "append"), (2, "append")],
    ("ToOwned", "clone_into"): [(1, "destructive")],
    ("fn", "swap"): [(0, "destructive"), (1, "destructive")],
    ("fn", "replace"): [(0, "destructive")],
    ("fn", "take"): [(0, "destructive")],
    ("IntoOwned", "clone_onto"): [(1, "assign_onto")],
}

HELPER_DEPTH = 4


def candidates(facts, ce):
    """local bodies a call to an *unclassified* local callee may execute: the resolved impl, or
    for a trait method every local impl of it plus the provided default body"""
    if ce is None or not ce.get("local"):
        return []
    res = ce.get("resolved")
    if res and res.get("local"):
        b = facts.body(res["key"])
        return [b] if b is not None else []
    out = []
    b0 = facts.body(ce["key"])
    if b0 is not None:
        out.append(b0)
    tr = ce.get("trait")
    if tr and ce.get("kind") == "AssocFn" and b0 is None or (tr and ce.get("kind") == "AssocFn" and
                                                              b0 is not None and b0.owner.get("in_trait")):
        t = tr.split("::")[-1]
        for b in facts.bodies.values():
            if b.kind == "AssocFn" and b.name == ce["name"] and b.trait == t and b is not b0:
                out.append(b)
    return out


def ctx_chain_keys(ctx):
    out = set()
    c = ctx
    while c is not None:
        out.add(c.body.key)
        c = c.parent
    return out


def body_effects(facts, ctx, depth=0, _stack=()):
    """All effects of a body, including those of closures created in it (substituted) and of
    local non-trait helper functions (summarised, depth-bounded).  Effects are reported with
    targets resolved to base places in the *outermost* ctx reachable."""
    body = ctx.body
    out = []
    org = ctx.org
    # 1. closures created here
    bindings = closure_bindings(ctx)
    cons_full = closure_consumers(ctx)
    for (bi, si, ckey, ops) in closure_sites(body):
        cbody = facts.body(ckey)
        if cbody is None:
            continue
        upv = {}
        for k, op in enumerate(ops):
            s = set()
            for o in org.operand(op):
                s |= base_places(ctx, o)
            upv[k] = s
        params = bindings.get((bi, si), {})
        cons = cons_full.get((bi, si), [])
        cctx = Ctx(cbody, parent=ctx, upvars=upv, params=params, site_bb=bi,
                   consumer=cons[0] if cons else None)
        out.extend(body_effects(facts, cctx, depth, _stack))
    # 2. calls
    for (bi, t) in body.calls():
        ce = t.get("callee")
        cls = classify(ce)
        tag = callee_tag(ce)
        args = t["args"]
        argorg = [org.operand(a) for a in args]
        # helper summaries: local, non-trait callee that has MIR and is not in the tables
        targets_b = []
        if ce is not None and ce.get("local") and cls == "unclassified" and tag not in TARGET_ARG:
            targets_b = [tb for tb in candidates(facts, ce) if tb.key not in _stack and tb.key != body.key]
        if targets_b and depth < HELPER_DEPTH:
            params = {}
            for k, os_ in enumerate(argorg):
                s = set()
                for o in os_:
                    s |= base_places(ctx, o)
                params[k + 1] = s
            for target_body in targets_b:
                hctx = Ctx(target_body, parent=ctx, upvars={}, params=params, site_bb=bi)
                out.extend(body_effects(facts, hctx, depth + 1, _stack + (body.key,)))
            continue
        specs = TARGET_ARG.get(tag)
        if specs is None:
            specs = [(0, cls)] if args else [(None, cls)]
        for (ai, c) in specs:
            targets = set()
            if ai is not None and ai < len(argorg):
                for o in argorg[ai]:
                    targets |= base_places(ctx, o)
            out.append(Effect(cls=c, callee=ce, tag=tag, ctx=ctx, bb=bi, line=t["line"],
                              targets=targets, argorigins=argorg, term=t, kind="call",
                              top_bb=ctx.top_site(bi)))
        # function items passed as values: treat like a closure with that single call
        for k, a in enumerate(args):
            fi = fnitem_of_operand(a)
            if fi is not None and k > 0:
                c2 = classify(fi)
                if c2 in ("append", "clear", "destructive", "reserve", "clone_from"):
                    # receiver of the function item = element of adaptor receiver
                    targets = set()
                    for o in argorg[0]:
                        for (c_, (r, p)) in base_places(ctx, o):
                            targets.add((c_, (r, p + ("[]",))))
                    out.append(Effect(cls=c2, callee=fi, tag=callee_tag(fi), ctx=ctx, bb=bi,
                                      line=t["line"], targets=targets, argorigins=argorg, term=t,
                                      kind="fnitem", top_bb=ctx.top_site(bi)))
    # 3. assignments through places (stores)
    for bi in sorted(body.live_blocks()):
        for si, st in enumerate(body.blocks[bi]["stmts"]):
            if st["k"] != "assign":
                continue
            pl = st["place"]
            if not pl["p"]:
                continue
            # store into a projected place: *x = .., (*self).f = .., (*_5).1 = ..
            path = norm_proj(pl["p"])
            base = org.local(pl["l"])
            targets = set()
            for (r, p0) in base:
                if r[0] == "parts":
                    continue
                for o2 in org.extend(r, p0 + path):
                    targets |= base_places(ctx, o2)
            if not targets:
                continue
            val = org.rvalue(st["rv"], bi, si)
            out.append(Effect(cls="assign", callee=None, tag=("=", "="), ctx=ctx, bb=bi,
                              line=st["line"], targets=targets, argorigins=[val], term=st,
                              kind="store", top_bb=ctx.top_site(bi), value=val))
    return out


# (callee tag, argument position of the closure) -> payload of the receiver bound to the
# closure's first parameter
PAYLOAD_PARAM = {
    (("Result", "map_or_else"), 1): ("v:Err", "f:0"), (("Result", "map_or_else"), 2): ("v:Ok", "f:0"),
    (("Option", "map_or_else"), 2): ("v:Some", "f:0"), (("Option", "map_or"), 2): ("v:Some", "f:0"),
    (("Result", "map_or"), 2): ("v:Ok", "f:0"), (("Result", "unwrap_or_else"), 1): ("v:Err", "f:0"),
    (("Result", "or_else"), 1): ("v:Err", "f:0"), (("Option", "is_some_and"), 1): ("v:Some", "f:0"),
}


def closure_consumers(ctx):
    """(bb, si) of a closure aggregate -> [(bb of the call receiving it, callee tag, arg position)]"""
    org = ctx.org
    sites = {("agg", bi, si): (bi, si) for (bi, si, ck, ops) in closure_sites(ctx.body)}
    out = {}
    if not sites:
        return out
    for (bi, t) in ctx.body.calls():
        for k, a in enumerate(t["args"]):
            for (r, p) in org.operand(a):
                if r in sites and p == ():
                    out.setdefault(sites[r], []).append((bi, callee_tag(t.get("callee")), k))
    return out


def all_ctxs(facts, body, depth=0):
    """the body's own context followed by the contexts of the closures created in it (nested)"""
    top = Ctx(body)
    out = [top]

    def rec(c, d):
        if d > 3:
            return
        for (cc, cbi, consumers) in closure_ctxs(facts, c):
            out.append(cc)
            rec(cc, d + 1)
    rec(top, 0)
    return out


def closure_ctxs(facts, ctx):
    """[(closure ctx, creation bb, consuming call bb or None)] for closures created in ctx.body,
    with upvars and (where the consuming callee is known) parameters bound to parent-level places"""
    out = []
    org = ctx.org
    bindings = closure_bindings(ctx)
    cons_full = closure_consumers(ctx)
    consumers = {}
    sites = {("agg", bi, si): (bi, si) for (bi, si, ck, ops) in closure_sites(ctx.body)}
    for (bi, t) in ctx.body.calls():
        for a in t["args"]:
            for (r, p) in org.operand(a):
                if r in sites and p == ():
                    consumers.setdefault(sites[r], []).append(bi)
    for (bi, si, ckey, ops) in closure_sites(ctx.body):
        cbody = facts.body(ckey)
        if cbody is None:
            continue
        upv = {}
        for k, op in enumerate(ops):
            s = set()
            for o in org.operand(op):
                s |= base_places(ctx, o)
            upv[k] = s
        cons = cons_full.get((bi, si), [])
        cctx = Ctx(cbody, parent=ctx, upvars=upv, params=bindings.get((bi, si), {}), site_bb=bi,
                   consumer=cons[0] if cons else None)
        out.append((cctx, bi, consumers.get((bi, si), [])))
    return out


def closure_bindings(ctx):
    """(bb, si) of closure aggregate -> {param index -> set of (ctx, origin)} for closures passed
    to adaptor calls in this body"""
    body = ctx.body
    org = ctx.org
    res = {}
    sites = {}
    for (bi, si, ckey, ops) in closure_sites(body):
        sites[("agg", bi, si)] = (bi, si)
    if not sites:
        return res
    for (bi, t) in body.calls():
        ce = t.get("callee")
        tag = callee_tag(ce)
        args = t["args"]
        if len(args) < 2:
            continue
        for k in range(1, len(args)):
            for (r, p) in org.operand(args[k]):
                if r in sites and p == ():
                    # closure passed as k-th argument
                    recv = set()
                    elem = ()
                    if tag in ADAPTORS:
                        if tag[0] == "Iterator":
                            elem = ("[]",)
                        elif tag[0] == "Option":
                            elem = ("v:Some", "f:0")
                        elif tag == ("Result", "map_err"):
                            elem = ("v:Err", "f:0")
                        elif tag[0] == "Result":
                            elem = ("v:Ok", "f:0")
                        for o in org.operand(args[0]):
                            for (c_, (r2, p2)) in base_places(ctx, o):
                                recv.add((c_, (r2, p2 + elem)))
                        # look through element-producing adaptor chains: the element of
                        # map(zip(a,b)) etc. is resolved lazily by _base on ('call', zip)
                        res.setdefault(sites[r], {})[2] = recv
                    elif (tag, k) in PAYLOAD_PARAM:
                        for o in org.operand(args[0]):
                            for (c_, (r2, p2)) in base_places(ctx, o):
                                recv.add((c_, (r2, p2 + PAYLOAD_PARAM[(tag, k)])))
                        res.setdefault(sites[r], {})[2] = recv
                    elif tag in (("Iterator", "fold"),) and k == 2:
                        for o in org.operand(args[0]):
                            for (c_, (r2, p2)) in base_places(ctx, o):
                                recv.add((c_, (r2, p2 + ("[]",))))
                        res.setdefault(sites[r], {})[3] = recv
                    elif tag in (("slice", "sort_by"), ("Option", "or_else"),
                                 ("Option", "unwrap_or_else")):
                        pass
    return res


# --------------------------------------------------------------------------------------------
# field attribution


def self_arg(body):
    """index of the `self` argument local (1) if the body takes self by reference/value"""
    if body.nargs >= 1 and body.debug_names.get(1) == "self":
        return 1
    return None


def effect_fields(effect, top_ctx, self_root):
    """set of (field, rest-path) of `self` that the effect targets (self_root = ('arg',1) or an
    aggregate root standing for the constructed Self value)"""
    out = set()
    for (c, (r, p)) in effect.targets or ():
        if c is top_ctx and r == self_root and p and p[0].startswith("f:"):
            out.add((p[0][2:], p[1:]))
    return out
