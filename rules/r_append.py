"""C02: R-APPEND, R-PEEL and the freeze guards (R-GUARD) of the two-level index containers."""
from core import Ctx, callee_tag, classify, describe, short, base_places
from model import (Catalogue, self_field_targets, is_storage_type, store_type, item_storage,
                   is_phantom, STATE_MACHINES)
from expr import trees, tree, show, facts_at, operand_tree, reach_strict, CMP_OPS, fact_still_holds

WRITE_API = {
    ("Push", "push"), ("ReserveItems", "reserve_items"), ("Region", "reserve_regions"),
    ("Storage", "reserve"), ("Storage", "reserve_regions"), ("IndexContainer", "push"),
    ("IndexContainer", "extend"), ("PushStorage", "push_storage"), ("Codec", "encode"),
    ("Extend", "extend"),
}
WRITE_INHERENT = {
    ("FlatStack", "copy"), ("FlatStack", "reserve"), ("FlatStack", "reserve_items"),
    ("FlatStack", "reserve_regions"), ("impls::index::IndexList", "push"),
    ("impls::index::IndexList", "reserve"), ("impls::index::Stride", "push"),
}


def write_bodies(F):
    out = []
    for b in F.bodies.values():
        if b.kind != "AssocFn" or b.in_tests() or b.derived:
            continue
        if (b.trait, b.name) in WRITE_API:
            if b.trait == "Extend" and b.self_adt != "FlatStack":
                continue
            out.append(b)
        elif b.trait is None and (b.self_adt, b.name) in WRITE_INHERENT:
            out.append(b)
    return out


def peel_ok(F, R, body=None):
    """R-PEEL for the body that pops the trailing partial byte (push_symbols, or any body it was
    inlined into / refactored into); returns True if every Vec::pop there is justified"""
    if body is None:
        bodies = [b for b in F.bodies.values() if b.kind in ("Fn", "AssocFn") and not b.in_tests() and
                  any(callee_tag(t.get("callee")) == ("Vec", "pop") for (_, t) in b.calls()) and
                  any(callee_tag(t.get("callee")) == ("Huffman", "encode") for (_, t) in b.calls())]
        if not bodies:
            return False
        res = True
        for b in bodies:
            res = peel_ok(F, R, b) and res
        return res
    b = body
    R.saw(b)
    ctx = Ctx(b)
    pops = [(bi, t) for (bi, t) in b.calls() if callee_tag(t.get("callee")) == ("Vec", "pop")]
    encs = [(bi, t) for (bi, t) in b.calls() if callee_tag(t.get("callee")) == ("Huffman", "encode")]
    pushes = [(bi, t) for (bi, t) in b.calls() if callee_tag(t.get("callee")) == ("Vec", "push")]
    # pushes made in a closure that a pipeline runs over the encoder's output
    # (`huffman.encode(..).for_each(|byte| bytes.push(..))`): (block of the consuming call, vector)
    closure_pushes = []
    from core import all_ctxs as _all_ctxs
    for c2 in _all_ctxs(F, b)[1:]:
        top_bi = None
        cc = c2
        while cc.parent is not None:
            top_bi = cc.consumer[0] if cc.consumer else cc.site_bb
            cc = cc.parent
        if top_bi is None:
            continue
        for (qbi, qt) in c2.body.calls():
            if callee_tag(qt.get("callee")) == ("Vec", "push") and qt["args"]:
                closure_pushes.append((top_bi, trees(c2, c2.org.operand(qt["args"][0]))))
    if not pops:
        return True
    if not encs:
        R.check("R-PEEL", b.label(), False, construct="a pop without an encoder to re-present the byte to",
                where=b.where(), detail="%d pops, %d encode calls" % (len(pops), len(encs)))
        return False
    ok_all = True
    for (pbi, pt) in pops:
        vec = trees(ctx, ctx.org.operand(pt["args"][0]))
        # (a) control dependence on "cursor not byte-aligned"
        a_ok = False
        for f in facts_at(ctx, pbi):
            if f[0] == "Ne":
                x, y = f[1], f[2]
                if y == ("const", "0") and x[0] == "bin" and x[1] == "Rem" and x[3] == ("const", "8"):
                    a_ok = True
        R.check("R-PEEL", b.label(), a_ok, construct="pop only when cursor % 8 != 0",
                where="%s:%s" % (b.file, pt["line"]),
                detail="guards at pop: %s" % fmt_facts(facts_at(ctx, pbi)))
        # (b) popped byte flows into `initially` of an encode call reachable from the pop
        b_ok = False
        c_ok = False
        for (ebi, et) in encs:
            if ebi not in reach_strict(b, pbi):
                continue
            init = operand_tree(ctx, et["args"][1]) if len(et["args"]) > 1 else ("opaque", "?")
            if contains_call(init, ("Vec", "pop"), vec):
                b_ok = True
                # (c) encoder output is pushed onto the same vector, after the pop
                for (qbi, qt) in pushes:
                    v2 = trees(ctx, ctx.org.operand(qt["args"][0]))
                    if v2 == vec and qbi in reach_strict(b, ebi) and pbi not in reach_strict(b, qbi):
                        c_ok = True
                for (qbi, v2) in closure_pushes:
                    if v2 == vec and (qbi == ebi or qbi in reach_strict(b, ebi)) and pbi not in reach_strict(b, qbi):
                        c_ok = True
        # (b') the byte is re-presented right-aligned: the encoder is told `bits` valid bits and
        #      gets `byte >> (8 - bits)`; a shift by `bits` itself hands it the wrong part of the byte
        from expr import nobb as _nobb, lin as _lin, lin_sub as _lin_sub
        from r_alloc import walk as _walk
        for (ebi, et) in encs:
            if len(et["args"]) < 2 or ebi not in reach_strict(b, pbi):
                continue
            init = _nobb(operand_tree(ctx, et["args"][1]))
            for alt in (init[1] if init[0] == "phi" else (init,)):
                if not (alt[0] == "agg" and alt[1] == "tuple" and len(alt[2]) == 2):
                    continue
                byte_t, bits_t = alt[2]
                shr = [nd for nd in _walk(byte_t) if nd[0] == "bin" and nd[1] == "Shr" and
                       any(x[0] == "call" and x[1] == ("Vec", "pop") for x in _walk(nd[2]))]
                if len(shr) != 1:
                    continue
                amount = shr[0][3]
                want = _lin(("bin", "Sub", ("const", "8"), bits_t))
                if not _lin_sub(_lin(amount), want):
                    R.check("R-PEEL", b.label(), True, construct="popped byte right-aligned by 8 - bits",
                            where="%s:%s" % (b.file, pt["line"]), detail="shift amount %s" % show(amount)[:60])
                elif not _lin_sub(_lin(amount), _lin(bits_t)):
                    ok_all = False
                    R.check("R-PEEL", b.label(), False, construct="popped byte right-aligned by 8 - bits",
                            where="%s:%s" % (b.file, pt["line"]),
                            detail="the byte is shifted by the number of valid bits (%s) instead of the number of unused ones: "
                                   "the encoder re-emits other bits than the earlier item stored there" % show(amount)[:60])
        # every way from the pop to a return goes through that encoder call (no early exit that
        # leaves the peeled byte un-emitted)
        if b_ok:
            feeding = {ebi for (ebi, et) in encs if ebi in reach_strict(b, pbi) and
                       contains_call(operand_tree(ctx, et["args"][1]) if len(et["args"]) > 1 else ("opaque", "?"),
                                     ("Vec", "pop"), vec)}
            tgt = pt["target"]
            if tgt is not None and b.can_return_avoiding(feeding, frm=tgt):
                b_ok = False
        R.check("R-PEEL", b.label(), b_ok, construct="popped byte re-presented to the encoder",
                where="%s:%s" % (b.file, pt["line"]),
                detail="on every path from the pop to an exit" if b_ok else
                "some path from the pop reaches an exit without handing the byte to the encoder")
        R.check("R-PEEL", b.label(), c_ok, construct="encoder output re-emitted onto the same vector",
                where=b.where(), detail="%d Vec::push sites" % len(pushes))
        ok_all = ok_all and a_ok and b_ok and c_ok
    # (d) the bit cursor is rounded down to a byte boundary ("sheared") because the popped partial
    #     byte is counted again when the encoder re-emits it: every path from the shear to an exit
    #     pops the byte, unless the cursor was aligned there (the shear is then a no-op)
    shears = []
    for bi in sorted(b.live_blocks()):
        for si, st in enumerate(b.blocks[bi]["stmts"]):
            if st["k"] == "assign" and st["place"]["p"]:
                val = trees(ctx, ctx.org.rvalue(st["rv"], bi, si))
                nd = val
                if nd[0] == "bin" and nd[1] == "Sub" and isinstance(nd[3], tuple) and nd[3][0] == "bin" and \
                        nd[3][1] == "Rem" and nd[3][3] == ("const", "8"):
                    shears.append((bi, st.get("line")))
    if not shears:
        R.undecided_site("R-PEEL", b.label(), "no rounding-down of the bit cursor recognised next to the pop")
    aligned = set()
    for bi in b.live_blocks():
        for f in facts_at(ctx, bi):
            if f[0] == "Eq" and f[2] == ("const", "0") and f[1][0] == "bin" and f[1][1] == "Rem" and \
                    f[1][3] == ("const", "8"):
                aligned.add(bi)
    popset = {pbi for (pbi, _) in pops}
    for (sbi, line) in shears:
        if sbi in popset or sbi in aligned:
            continue
        d_ok = not any(b.can_return_avoiding(popset | aligned, frm=s_) for s_ in b.succs(sbi)
                       if s_ not in popset and s_ not in aligned)
        R.check("R-PEEL", b.label(), d_ok, construct="cursor rounded down only together with the pop",
                where="%s:%s" % (b.file, line),
                detail="every path from the rounding to an exit pops the partial byte or is on the aligned branch"
                if d_ok else "some path rounds the bit cursor down, keeps the partial byte in place and returns: "
                "the cursor then points before bits that are already stored")
        ok_all = ok_all and d_ok
    return ok_all


def _walk(t):
    if isinstance(t, tuple):
        if t and isinstance(t[0], str):
            yield t
        for x in t:
            if isinstance(x, tuple):
                yield from _walk(x)


def contains_call(t, tag, recv=None):
    if not isinstance(t, tuple):
        return False
    if t and t[0] == "call" and t[1] == tag:
        if recv is None or (t[2] and t[2][0] == recv):
            return True
    return any(contains_call(x, tag, recv) for x in t if isinstance(x, tuple))


def r_append(F, R, cat=None, only=None):
    cat = cat or Catalogue(F)
    peel = None
    peel_cache = {}
    nb = 0
    neff = 0
    for b in write_bodies(F):
        if not b.return_blocks():
            continue
        if only and short(b.self_adt or "") not in only:
            continue
        nb += 1
        R.saw(b)
        adt = b.self_adt
        ctx, effs = cat.effects(b)
        storage = item_storage(cat, adt) if adt in F.adts and F.adts[adt]["kind"] == "struct" else None
        bad = 0
        for e in effs:
            tg = self_field_targets(e, ctx)
            if not tg:
                continue
            for (f, rest) in tg:
                if f is not None and storage is not None and f not in storage:
                    continue
                neff += 1
                viol = None
                if e.cls in ("destructive", "clear", "clone_from"):
                    viol = "%s %s::%s" % (e.cls, e.tag[0], e.tag[1])
                elif e.cls == "assign":
                    st = store_type(e)
                    if adt in STATE_MACHINES and f is None:
                        pass  # in-place transition of a state machine: R-NOWRITE-ON-REJECT / R-OVF
                    elif st in STATE_MACHINES and not rest and any(str(p_).startswith(st + "::") for p_ in (b.d.get("inlined") or [])):
                        pass  # the same transition, spliced in from a private method of the state machine
                    elif is_storage_type(st, F):
                        viol = "item storage of type %s replaced by assignment" % st
                    elif "[]" in rest and st == "?elem":
                        viol = "store through an element of item storage"
                    elif "[]" in rest and e.ctx is not None:
                        # an in-place update of a stored element (`*bytes.last_mut().unwrap() |= x`):
                        # merging a whole foreign value into it rewrites bits that belong to an
                        # earlier item; a masked merge may be sound (bit arithmetic: not decided)
                        from expr import nobb as _nobb
                        from r_alloc import walk as _walk
                        val = _nobb(trees(e.ctx, e.value)) if e.value else ("opaque", "?")
                        if val[0] == "bin" and val[1] in ("BitOr", "Add", "BitXor"):
                            foreign = val[3]
                            masked = any(nd[0] == "bin" and nd[1] in ("BitAnd", "Shl", "Shr", "Rem", "Div") for nd in _walk(foreign))
                            if not masked and foreign[0] != "const":
                                viol = "a stored element is merged in place with the unmasked value %s" % show(foreign)[:50]
                            else:
                                R.undecided_site("R-APPEND", b.label(), "in-place update of a stored element at %s (masked merge: bit arithmetic not decided)" % e.where())
                        else:
                            R.undecided_site("R-APPEND", b.label(), "in-place update of a stored element at %s" % e.where())
                elif e.cls == "unclassified" and any(a for a in (e.argorigins or [])):
                    R.undecided_site("R-APPEND", b.label(), "unclassified callee %s::%s receives %s" % (
                        e.tag[0], e.tag[1], f or "self"))
                if viol is None:
                    continue
                if e.tag == ("Vec", "pop") and any(
                        callee_tag(t.get("callee")) == ("Huffman", "encode") for (_, t) in e.ctx.body.calls()):
                    peel = peel_cache.get(e.ctx.body.key)
                    if peel is None:
                        peel = peel_ok(F, R, e.ctx.body)
                        peel_cache[e.ctx.body.key] = peel
                    if peel:
                        continue
                    viol += " (R-PEEL does not hold)"
                elif e.tag == ("Vec", "pop") and e.ctx.body.kind == "Closure":
                    pc_ = e.ctx.parent
                    enc_above = False
                    while pc_ is not None:
                        if any(callee_tag(t.get("callee")) == ("Huffman", "encode") for (_, t) in pc_.body.calls()):
                            enc_above = True
                        pc_ = pc_.parent
                    if enc_above:
                        # `(partial != 0).then(|| bytes.pop()..)`: the peel of the trailing partial byte,
                        # hosted in a closure that a combinator runs -- a shape R-PEEL does not read
                        R.undecided_site("R-APPEND", b.label(), "the trailing partial byte is popped inside a closure at %s: whether "
                                         "it is re-presented to the encoder is not decided" % e.where())
                        continue
                bad += 1
                R.check("R-APPEND", b.label(), False,
                        construct="%s on %s" % (viol, f or "self"), where=e.where(),
                        detail="write/reserve path alters existing item storage")
        if not bad:
            R.check("R-APPEND", b.label(), True, where=b.where(),
                    detail="no destructive/clear/replace effect on item storage %s" % (
                        sorted(storage) if storage is not None else "(self)"),
                    nontrivial=True)
    R.floor("R-APPEND", "write/reserve bodies", nb, 100 if not only else 5)
    R.extra["effects_on_item_storage_inspected"] = R.extra.get("effects_on_item_storage_inspected", 0) + neff


# ---------------------------------------------------------------------------------------------
# two-level containers: first/second discovered from index()


def two_level(F, cat):
    """[(adt, first, second, index_body)] for structs whose index() is
    `if i < first.len() { first.index(i) } else { second.index(i - first.len()) }`"""
    out = []
    for adt in ("impls::index::IndexList", "impls::index::IndexOptimized"):
        if adt not in F.adts:
            continue
        cands = [b for b in F.bodies.values() if b.self_adt == adt and b.name == "index" and
                 (b.trait in (None, "IndexContainer")) and not b.in_tests()]
        for b in cands:
            ctx = Ctx(b)
            first = second = None
            for (bi, t) in b.calls():
                tag = callee_tag(t.get("callee"))
                if tag[1] != "index" or len(t["args"]) < 2:
                    continue
                recv = trees(ctx, ctx.org.operand(t["args"][0]))
                if recv[0] != "place" or recv[2] != ("arg", 1) or len(recv[3]) != 1:
                    continue
                fld = recv[3][0][2:]
                facts = facts_at(ctx, bi)
                lt = [f for f in facts if f[0] == "Lt"]
                ge = [f for f in facts if f[0] == "Ge"]
                if lt:
                    first = fld
                elif ge:
                    second = fld
            if first and second:
                out.append((adt, first, second, b))
                break
        else:
            # index() is not in the recognised shape (which R-CONCAT then reports): fall back to
            # the declaration order of the two storage fields so that the instance is not lost
            fields = [f["name"] for f in F.adts[adt]["variants"][0]["fields"]] if F.adts[adt]["variants"] else []
            if len(fields) == 2 and cands:
                out.append((adt, fields[0], fields[1], cands[0]))
    return out


def truthy_fact(facts, pred):
    for f in facts:
        if f[0] == "truthy" and pred(f[1]):
            return f[2]
    return None


def r_freeze(F, R, cat=None, cheapest=False):
    """appends to `first` only while `second` is empty (C02/C05); with cheapest=True also that the
    spill into `second` happens only after the attempt on `first` failed (C19)."""
    cat = cat or Catalogue(F)
    tl = two_level(F, cat)
    R.floor("R-GUARD", "two-level index containers (first/second discovered from index())", len(tl), 2)
    for (adt, first, second, ib) in tl:
        pushes = [b for b in F.bodies.values() if b.self_adt == adt and b.name == "push" and
                  not b.in_tests()]
        for b in pushes:
            ctx, effs = cat.effects(b)
            if any(e.tag[1] == "push" and (None, ()) in self_field_targets(e, ctx) for e in effs):
                continue  # forwarding wrapper
            R.saw(b)
            f_adt = next((fd["ty"].get("adt") for fd in F.adts[adt]["variants"][0]["fields"] if fd["name"] == first), None)
            spliced = [p_ for p_ in (b.d.get("inlined") or []) if f_adt and str(p_).startswith(f_adt + "::")]
            if spliced and not any(e.cls == "append" and e.ctx is ctx and any(f == first for (f, _r) in self_field_targets(e, ctx))
                                   for e in effs):
                # the first level is offered the value through a private method of its own type
                # that the inliner spliced in (no `push` call on the field is left to anchor on)
                R.undecided_site("R-GUARD", b.label(), "push hands the value to %s through %s (a private method of that type, analysed "
                                 "in place): the order of the attempts on the two levels is not decided" % (first, spliced[0]))
                continue
            n_first = n_second = 0
            for e in effs:
                if e.cls != "append" or e.ctx is not ctx:
                    continue
                for (f, rest) in self_field_targets(e, ctx):
                    facts = [ff for ff in facts_at(ctx, e.bb) if fact_still_holds(ctx, ff, e.bb)]

                    def is_empty_of(fld):
                        return lambda t: (t[0] == "call" and t[1][1] == "is_empty" and t[2] and
                                          t[2][0] == ("place", b.key, ("arg", 1), ("f:" + fld,)))
                    if f == first:
                        n_first += 1
                        v = truthy_fact(facts, is_empty_of(second))
                        R.check("R-GUARD", b.label(), v is True,
                                construct="write to %s only while %s.is_empty()" % (first, second),
                                where=e.where(),
                                detail="dominating facts: %s" % fmt_facts(facts))
                    elif f == second and cheapest:
                        n_second += 1
                        v = truthy_fact(facts, is_empty_of(second))
                        if v is True:
                            # second is still empty: the attempt on first must have failed
                            failed = False
                            for ff in facts:
                                if ff[0] == "truthy" and ff[2] is False and mentions_field(ff[1], first):
                                    failed = True
                                if ff[0] == "variant" and is_conversion_of_param(ff[1]) and \
                                        ff[2] not in ("0",) and not (isinstance(ff[2], tuple) and "0" not in ff[2][1]):
                                    failed = True
                            R.check("R-GUARD", b.label(), failed,
                                    construct="first write to %s only after the attempt on %s failed" % (second, first),
                                    where=e.where(), detail="dominating facts: %s" % fmt_facts(facts))
            if cheapest:
                # the attempt on `first` must be made whenever `second` is empty: no path from the
                # is_empty(second)==true edge to a return without an effect on `first`
                att = {e.bb for e in effs if e.ctx is ctx and e.cls in ("append", "access", "unclassified")
                       and any(f == first for (f, _) in self_field_targets(e, ctx))}
                conv = {bi for (bi, t) in b.calls() if callee_tag(t.get("callee")) in
                        (("TryInto", "try_into"), ("TryFrom", "try_from"))
                        and any(ff[0] == "truthy" and ff[2] is True for ff in facts_at(ctx, bi))}
                guard_blocks = [bi for bi in sorted(b.live_blocks())
                                if any(ff[0] == "truthy" and ff[2] is True and ff[1][0] == "call" and
                                       ff[1][1][1] == "is_empty" for ff in facts_at(ctx, bi))]
                ok = bool(guard_blocks)
                if guard_blocks:
                    avoid = att | conv
                    # every region in which `second` is known to be empty is judged at its entry (a
                    # guard block no other guard block dominates): from there no return avoids the
                    # attempt -- unless the region lies behind the attempt already (a debug_assert! of
                    # a post-condition tests the same emptiness again after the push)
                    roots = [g for g in guard_blocks if not any(h != g and b.dominates(h, g) for h in guard_blocks)]
                    before = b.reachable(0, avoid)
                    # the branches on `second.is_empty()` themselves: taking the "empty" edge of one of
                    # them and later the "not empty" edge of another is not a path (nothing in between
                    # can have filled `second` without passing an attempt site or an append to it)
                    from expr import edge_facts as _ef, reachable_avoiding as _ra
                    t_edges, f_edges = [], set()
                    sec_place = ("place", b.key, ("arg", 1), ("f:" + second,))
                    for s_ in b.live_blocks():
                        for (tg_, fs_) in _ef(ctx, s_):
                            for ff in fs_:
                                if ff[0] == "truthy" and isinstance(ff[1], tuple) and ff[1][0] == "call" and ff[1][1][1] == "is_empty" and \
                                        ff[1][2] and ff[1][2][0] == sec_place:
                                    (t_edges.append((s_, tg_)) if ff[2] is True else f_edges.add((s_, tg_)))
                    # a branch on the outcome of the narrowing conversion of the pushed value is the
                    # attempt on the first level being evaluated (the conversion itself may have been
                    # computed before the emptiness test: `match (second.is_empty(), u32::try_from(x))`)
                    for s_ in b.live_blocks():
                        for (tg_, fs_) in _ef(ctx, s_):
                            if any(ff[0] == "variant" and is_conversion_of_param(ff[1]) for ff in fs_):
                                avoid = avoid | {s_}
                    if t_edges:
                        ok = all(tg_ in avoid or (s_ not in before and s_ != 0) or
                                 not any(b.term(x)["k"] == "return" for x in _ra(b, tg_, avoid, f_edges))
                                 for (s_, tg_) in t_edges)
                    else:
                        ok = all(g in avoid or g not in before or not any(b.term(x)["k"] == "return" for x in b.reachable(g, avoid))
                                 for g in roots)
                R.check("R-GUARD", b.label(), ok,
                        construct="cheapest representation (%s) is attempted whenever %s is empty" % (first, second),
                        where=b.where(), detail="attempt sites %s, conversion sites %s" % (sorted(att), sorted(conv)))
            R.check("R-GUARD", b.label(), n_first > 0, construct="push writes to " + first,
                    where=b.where(), detail="%d guarded writes" % n_first, nontrivial=False)


def field_ref_sites(body, adt, fld):
    """locals that hold `&mut <place>.fld` where fld is a field of `adt`: {local: place-prefix}"""
    out = {}
    for bi in body.live_blocks():
        for st in body.blocks[bi]["stmts"]:
            if st["k"] == "assign" and st["rv"]["k"] == "ref" and not st["place"]["p"]:
                pl = st["rv"]["place"]
                for k, e in enumerate(pl["p"]):
                    if e["k"] == "field" and e.get("adt") == adt and e.get("name") == fld and \
                            all(x["k"] == "deref" for x in pl["p"][k + 1:]):
                        out[st["place"]["l"]] = {"l": pl["l"], "p": pl["p"][:k]}
    return out


def r_foreign_writers(F, R, cat=None):
    """The first level of a two-level container is append-only-while-the-second-is-empty.  The
    container's own push is checked by R-GUARD; this rule looks at every *other* body of the crate
    (bulk paths, deserialisation visitors, helpers) that appends to `<value of that type>.first`
    directly.  Positive evidence of a violation: such an append sits in a loop that also appends
    to `.second` of the same value and no dominating fact says `.second` is empty."""
    from core import all_ctxs
    cat = cat or Catalogue(F)
    n = 0
    for (adt, first, second, ib) in two_level(F, cat):
        own = {b.key for b in F.bodies.values() if b.self_adt == adt and b.name == "push"}
        for top in F.bodies.values():
            if top.in_tests() or top.derived or top.kind == "Closure" or top.key in own:
                continue
            for ctx in all_ctxs(F, top):
                b = ctx.body
                firsts = field_ref_sites(b, adt, first)
                seconds = field_ref_sites(b, adt, second)
                if not firsts:
                    continue
                app1 = []
                app2 = []
                for (bi, t) in b.calls():
                    if classify(t.get("callee")) != "append" or not t["args"] or t["args"][0]["k"] == "const":
                        continue
                    l = t["args"][0]["place"]["l"]
                    if l in firsts:
                        app1.append((bi, t, firsts[l]))
                    if l in seconds:
                        app2.append((bi, t, seconds[l]))
                for (bi, t, base) in app1:
                    n += 1
                    R.saw(top)
                    facts = [f for f in facts_at(ctx, bi) if fact_still_holds(ctx, f, bi)]
                    guarded = any(f[0] == "truthy" and f[2] is True and f[1][0] == "call" and
                                  f[1][1][1] == "is_empty" and mentions_field(f[1], second) for f in facts)
                    where = "%s:%s" % (b.file, t["line"])
                    cons = "append to %s.%s outside its push only while .%s is empty" % (short(adt), first, second)
                    if guarded:
                        R.check("R-GUARD", top.label(), True, construct=cons, where=where,
                                detail="dominating fact: %s.is_empty()" % second)
                        continue
                    interleaves = [x for (x, _t, base2) in app2 if base2 == base and
                                   (x in reach_strict(b, bi) and bi in reach_strict(b, x))]
                    if interleaves:
                        R.check("R-GUARD", top.label(), False, construct=cons, where=where,
                                detail="this append and the append to .%s at blocks %s alternate in one loop "
                                       "with no %s.is_empty() test: a value written to .%s after .%s is no longer "
                                       "empty is read back before the earlier .%s values"
                                       % (second, interleaves, second, first, second, second))
                    else:
                        R.undecided_site("R-GUARD", top.label(), "unguarded append to %s.%s at %s (no interleaving "
                                         "append to .%s found)" % (short(adt), first, where, second))
    R.info("R-GUARD: %d appends to a first level outside the container's own push" % n)


def mentions_field(t, fld):
    if not isinstance(t, tuple):
        return False
    if t and t[0] == "place" and t[3][:1] == ("f:" + fld,):
        return True
    return any(mentions_field(x, fld) for x in t if isinstance(x, tuple))


def is_conversion_of_param(t):
    return t[0] == "call" and t[1][1] in ("try_into", "try_from") and t[2] and \
        t[2][0][0] == "place" and t[2][0][2] == ("arg", 2)


def fmt_facts(facts):
    out = []
    for f in facts:
        if f[0] in CMP_OPS:
            out.append("%s %s %s" % (show(f[1]), f[0], show(f[2])))
        elif f[0] in ("truthy", "variant"):
            out.append("%s(%s)=%s" % (f[0], show(f[1]), f[2]))
        elif f[0] == "overflow":
            out.append("no-overflow %s" % show(f[1]))
    return out


def presize_verdict(ctx, e):
    """'exact': the reserved amount is len()/size_hint() of an iterator that is not advanced
    between the measurement and the reservation; 'stale': it is advanced in between; None otherwise"""
    b = ctx.body
    t = e.term
    if len(t["args"]) < 2:
        return None
    amount = operand_tree(ctx, t["args"][1])
    meas = [nd for nd in _walk(amount) if nd[0] == "call" and nd[1][1] in ("len", "size_hint") and len(nd) == 5]
    if len(meas) != 1 or amount[0] != "call":
        return None
    mbb = meas[0][4]
    mt = b.term(mbb)
    if not mt["args"] or mt["args"][0]["k"] == "const":
        return None
    mroots = {r for (r, p) in ctx.org.operand(mt["args"][0])}
    fwd = reach_strict(b, mbb)
    region = {x for x in fwd if x != e.bb and e.bb in reach_strict(b, x)}
    for x in region:
        xt = b.term(x)
        if xt["k"] != "call":
            continue
        for a in xt["args"]:
            if a["k"] in ("move", "copy") and b.locals[a["place"]["l"]]["ty"].get("mut"):
                if mroots & {r for (r, p) in ctx.org.operand(a)}:
                    return "stale"
    return "exact"


def r_noheap_until_spill(F, R, cat=None):
    """C19: a two-level container whose first level is heap-free (Stride) must not give its
    second level any capacity before something spilled: with_capacity builds it empty and reserve
    touches it only under `!second.is_empty()`"""
    cat = cat or Catalogue(F)
    n = 0
    for (adt, first, second, ib) in two_level(F, cat):
        fty = [f["ty"]["s"] for f in cat.fields(adt) if f["name"] == first]
        if not fty or fty[0] != "impls::index::Stride":
            continue
        ctors = list(cat.methods(adt, "with_capacity"))
        # every other constructor of the type (an override of the provided `merge_regions`, ..): a
        # fresh container has spilled nothing yet, whatever it was sized from
        ctors += [x for x in F.bodies.values() if x.self_adt == adt and x.kind == "AssocFn" and not x.in_tests() and not x.derived
                  and x.name in ("merge_regions", "new", "with_capacity_and_hint", "from_capacity") and x not in ctors
                  and not (x.nargs >= 1 and x.debug_names.get(1) == "self")]
        for b in ctors:
            n += 1
            R.saw(b)
            ctx, effs = cat.effects(b)
            ok = True
            why = []
            from model import constructed, EMPTY_CTORS
            cons = constructed(ctx, adt)
            if cons:
                for (root, fm) in cons:
                    for o in fm.get(second, ()):
                        r, p = o
                        if r[0] == "call":
                            tag = callee_tag(b.term(r[1]).get("callee"))
                            if tag not in EMPTY_CTORS:
                                ok = False
                                why.append("%s built by %s::%s" % (second, tag[0], tag[1]))
            else:
                # returns Self::default() or similar: fine if it is an empty constructor
                for (r, p) in ctx.org.local(0):
                    if r[0] == "call":
                        tag = callee_tag(b.term(r[1]).get("callee"))
                        if tag not in EMPTY_CTORS:
                            ok = False
                            why.append("returns %s::%s" % tag)
            R.check("R-NOHEAP", b.label(), ok, construct="%s allocates nothing before a spill" % b.name,
                    where=b.where(), detail="; ".join(why) or "second level starts empty")
        # every &mut self method (reserve, and bulk paths such as extend): capacity for the second
        # level only once something spilled
        mut_methods = [b for b in F.bodies.values() if b.self_adt == adt and b.kind == "AssocFn" and
                       not b.in_tests() and not b.derived and b.name not in ("with_capacity", "clone_from")]
        for b in mut_methods:
            ctx, effs = cat.effects(b)
            res = [e for e in effs if e.cls == "reserve" and e.ctx is ctx and
                   any(f == second for (f, rest) in self_field_targets(e, ctx))]
            if not res and b.name != "reserve":
                continue
            n += 1
            R.saw(b)
            ok = True
            why = []
            spill_appends = {e.bb for e in effs if e.cls == "append" and e.ctx is ctx and
                             any(f == second for (f, rest) in self_field_targets(e, ctx))}
            for e in res:
                facts = facts_at(ctx, e.bb)
                guarded = any(ff[0] == "truthy" and ff[2] is False and ff[1][0] == "call" and
                              ff[1][1][1] == "is_empty" and ff[1][2] and
                              ff[1][2][0] == ("place", b.key, ("arg", 1), ("f:" + second,)) for ff in facts)
                after_spill = bool(spill_appends) and e.bb not in b.reachable(0, spill_appends)
                if not guarded:
                    # `if !(second.a.is_empty() && second.b.is_empty()) { reserve }`: reached over
                    # several edges, each of which saw some part of the second level non-empty
                    from expr import edge_facts, reachable_avoiding

                    def part_nonempty(ff):
                        return ff[0] == "truthy" and ff[2] is False and ff[1][0] == "call" and ff[1][1][1] == "is_empty" and \
                            ff[1][2] and ff[1][2][0][0] == "place" and ff[1][2][0][2] == ("arg", 1) and \
                            tuple(ff[1][2][0][3][:1]) == ("f:" + second,)
                    good_b = {x for x in b.live_blocks() if any(part_nonempty(ff) for ff in facts_at(ctx, x))}
                    good_e = {(s_, tgt) for s_ in b.live_blocks() for (tgt, fs) in edge_facts(ctx, s_) if any(part_nonempty(ff) for ff in fs)}
                    if (good_b or good_e) and e.bb not in reachable_avoiding(b, 0, good_b, good_e):
                        guarded = True
                if guarded or after_spill:
                    continue
                if b.name != "reserve":
                    # a bulk path may pre-size the spill list for exactly what it appends next
                    # (`reserve(rest.len()); extend(rest)`: nothing when everything was absorbed);
                    # the count is stale -- and the reservation unconditional -- when the measured
                    # iterator was consumed between the measurement and the reservation
                    verdict = presize_verdict(ctx, e)
                    if verdict == "exact":
                        why.append("line %s reserves the measured remainder that is appended next" % e.line)
                        continue
                    if verdict != "stale":
                        R.undecided_site("R-NOHEAP", b.label(), "reserve on %s at line %s: amount not recognised" % (second, e.line))
                        continue
                ok = False
                why.append("reserve on %s at line %s is reachable while nothing has spilled (no !%s.is_empty() "
                           "guard, no earlier append to %s on every path%s)" % (
                               second, e.line, second, second,
                               "" if b.name == "reserve" else "; the amount was measured before the batch was consumed"))
            R.check("R-NOHEAP", b.label(), ok, construct="%s gives the spill list capacity only after a spill" % b.name,
                    where=b.where(), detail="; ".join(why) or "guarded")
    R.floor("R-NOHEAP", "with_capacity/reserve of stride-first containers", n, 2)


def r_reject_stored(F, R, cat=None):
    """whenever a two-level container offers a value to its Stride and the Stride rejects it, that
    same value is stored in the spill list (no value is dropped at the representation switch)"""
    from core import all_ctxs
    cat = cat or Catalogue(F)
    n = 0
    for top in F.bodies.values():
        if top.kind != "AssocFn" or top.in_tests() or top.self_adt != "impls::index::IndexOptimized":
            continue
        for ctx in all_ctxs(F, top):
            b = ctx.body
            for (bi, t) in b.calls():
                if callee_tag(t.get("callee")) != ("Stride", "push") or len(t["args"]) < 2:
                    continue
                n += 1
                R.saw(top)
                item = operand_tree(ctx, t["args"][1])
                stores = set()
                for (qbi, qt) in b.calls():
                    if callee_tag(qt.get("callee")) in (("IndexList", "push"), ("IndexContainer", "push")) and len(qt["args"]) >= 2:
                        recv = operand_tree(ctx, qt["args"][0])
                        if recv[0] == "place" and recv[3][-1:] == ("f:spilled",) and operand_tree(ctx, qt["args"][1]) == item:
                            stores.add(qbi)
                # the branch on this call's result: from its "rejected" edge every path to an exit
                # must store the same value in the spill list
                starts = []
                accepted_edges = set()  # the other edges of the branches on this result: infeasible once rejected
                for sbi in sorted(b.live_blocks()):
                    st = b.term(sbi)
                    if st["k"] != "switch":
                        continue
                    cond = operand_tree(ctx, st["discr"])
                    neg = False
                    while cond[0] == "un" and cond[1] == "Not":
                        cond = cond[2]
                        neg = not neg
                    members = cond[1] if cond[0] == "phi" else (cond,)
                    if not any(m[0] == "call" and m[1] == ("Stride", "push") and m[4] == bi for m in members):
                        continue
                    rej = set()
                    for (v, tgt) in st["arms"]:
                        if (v == "0") != neg:
                            starts.append(tgt)
                            rej.add(tgt)
                    if all(v != ("1" if neg else "0") for (v, _) in st["arms"]):
                        starts.append(st["otherwise"])
                        rej.add(st["otherwise"])
                    for y in b.succs(sbi):
                        if y not in rej:
                            accepted_edges.add((sbi, y))
                if not starts:
                    from expr import nobb as _nb4
                    rets_ = [_nb4(tree(ctx, o)) for o in ctx.org.local(0)] if b is top else []
                    if any(nd[0] == "call" and nd[1] == ("Stride", "push") for r_ in rets_ for nd in _walk_all(r_) if nd):
                        # the verdict of the stride is handed back to the caller (a helper that only
                        # asks the stride): what the caller does with a rejection is judged there
                        R.undecided_site("R-GUARD", top.label(), "the result of Stride::push is returned to the caller at %s:%s: where a "
                                         "rejected value goes is decided by the caller" % (b.file, t["line"]))
                        continue
                    ok = False
                    detail = "the result of Stride::push is not branched on here: a rejected value is dropped"
                else:
                    from expr import reachable_avoiding
                    ok = all(not any(b.term(x)["k"] == "return" for x in reachable_avoiding(b, s0, stores, accepted_edges))
                             for s0 in starts)
                    detail = "from the rejected edge every path stores the value in the spill list: %s" % ok
                R.check("R-GUARD", top.label(), ok,
                        construct="a value the stride rejects is stored in the spill list",
                        where="%s:%s" % (b.file, t["line"]), detail=detail)
    if n == 0:
        # IndexOptimized does not offer values to its stride through Stride::push (another
        # protocol between the two -- a private method with its own result type): the hand-over
        # of rejected values is not something this rule reads
        R.undecided_site("R-GUARD", "impls::index::IndexOptimized", "no Stride::push call in IndexOptimized: how a value the "
                         "stride rejects reaches the spill list is not decided")


def _walk_all(t):
    if isinstance(t, tuple):
        yield t
        for x in t:
            if isinstance(x, tuple):
                for y in _walk_all(x):
                    yield y


def r_spill_unattempted(F, R, cat=None):
    """C19: outside `push`, a method of a two-level container that appends to the second (costly)
    level directly -- a bulk path -- must do so under some test of the first or second level (the
    second is already in use, or the attempt on the first failed).  Positive evidence only: an
    append to the second level under no dominating fact that mentions either level."""
    from core import all_ctxs
    cat = cat or Catalogue(F)
    n = 0
    for (adt, first, second, ib) in two_level(F, cat):
        for top in F.bodies.values():
            if top.self_adt != adt or top.in_tests() or top.derived or top.kind == "Closure" or top.name in ("push",):
                continue
            if top.name in ("clone", "clone_from", "merge_regions", "with_capacity", "default", "reserve", "reserve_regions",
                            "reserve_items", "clear", "heap_size"):
                continue
            if F.only_inlined(top):
                continue  # a private helper of push: judged in its callers, under their guards
            for ctx in all_ctxs(F, top):
                b = ctx.body
                for (bi, t) in b.calls():
                    if classify(t.get("callee")) != "append" or not t["args"] or t["args"][0]["k"] == "const":
                        continue
                    recv = operand_tree(ctx, t["args"][0])
                    if not (recv[0] == "place" and recv[1] == top.key and recv[2] == ("arg", 1) and recv[3][:1] == ("f:" + second,)):
                        continue
                    n += 1
                    facts = facts_at(ctx, bi)
                    about = [f for f in facts if any(("f:" + first) in show_path(x) or ("f:" + second) in show_path(x)
                                                     for x in f[1:3] if isinstance(x, tuple))]
                    R.saw(top)
                    if not about:
                        # no single test dominates the append; positive evidence needs a path from
                        # the entry to the append on which NO branch looks at either level (a
                        # two-phase bulk path -- fill the first level until it refuses, then hand
                        # the rest to the second -- tests the levels on every path without any one
                        # test dominating; whether those tests suffice is value-level)
                        from expr import edge_facts, reachable_avoiding
                        tests = set()
                        for s_ in b.live_blocks():
                            if b.term(s_)["k"] != "switch":
                                continue
                            for (_tgt, fs) in edge_facts(ctx, s_):
                                if any(("f:" + first) in show_path(x) or ("f:" + second) in show_path(x) or _converts(x)
                                       for f in fs for x in f[1:3] if isinstance(x, tuple)):
                                    tests.add(s_)  # (a failed narrowing conversion is "does not fit the first level")
                        if bi not in reachable_avoiding(b, 0, tests, set()):
                            R.undecided_site("R-GUARD", top.label(), "%s is appended to at %s:%s under no dominating test of %s or %s, but "
                                        "every path to it branches on one of them (blocks %s): a multi-phase bulk path; whether "
                                        "the first level was offered every value first is value-level" %
                                        (second, b.file, t["line"], first, second, sorted(tests)))
                            continue
                    R.check("R-GUARD", top.label(), bool(about),
                            construct="%s is written only after %s was tried or is already in use" % (second, first),
                            where="%s:%s" % (b.file, t["line"]),
                            detail="dominating tests of the two levels: %d" % len(about) + ("" if about else
                                   ": the costly level is appended to on a path that never looks at either level, the cheap one is never offered the value"))
    R.info("R-GUARD: %d direct appends to a second level outside push inspected" % n)


def _converts(t):
    """the tree contains a narrowing conversion (`try_into` / `try_from`)"""
    if isinstance(t, tuple):
        if t and t[0] == "call" and len(t) > 1 and isinstance(t[1], tuple) and len(t[1]) > 1 and t[1][1] in ("try_into", "try_from"):
            return True
        return any(_converts(y) for y in t)
    return False


def show_path(t):
    out = []

    def rec(x):
        if isinstance(x, tuple):
            if x and x[0] == "place" and len(x) >= 4:
                out.extend(x[3])
            for y in x:
                rec(y)
    rec(t)
    return out


def r_reserve_level(F, R, cat=None):
    """`reserve(n)` of a two-level container whose first level owns storage announces pushes: it
    must reach the level the next push writes to -- the first level, unless a dominating fact says
    the second is already in use.  A reserve that only ever grows the second level leaves the
    level in use unreserved."""
    cat = cat or Catalogue(F)
    n = 0
    for (adt, first, second, ib) in two_level(F, cat):
        fty = next((f["ty"]["s"] for f in F.adts[adt]["variants"][0]["fields"] if f["name"] == first), "")
        if "Stride" in fty:
            continue  # the first level is inline: nothing to reserve
        for b in [x for x in F.bodies.values() if x.self_adt == adt and x.name == "reserve" and x.trait is None and not x.in_tests()]:
            ctx = Ctx(b)
            good = set()
            for (bi, t) in b.calls():
                if classify(t.get("callee")) != "reserve" or not t["args"]:
                    continue
                recv = operand_tree(ctx, t["args"][0])
                if recv[0] != "place" or recv[2] != ("arg", 1) or not recv[3]:
                    continue
                if recv[3][0] == "f:" + first:
                    good.add(bi)
                elif recv[3][0] == "f:" + second:
                    in_use = any(f[0] == "truthy" and f[2] is False and f[1][0] == "call" and f[1][1][1] == "is_empty" and
                                 f[1][2] and f[1][2][0] == ("place", b.key, ("arg", 1), ("f:" + second,)) for f in facts_at(ctx, bi))
                    if in_use:
                        good.add(bi)
            n += 1
            R.saw(b)
            ok = bool(good) and not b.can_return_avoiding(good)
            R.check("R-COVER(reserve_regions)", b.label(), ok, construct="reserve reaches the level the next push writes to",
                    where=b.where(), detail="reserves on %s, or on %s where it is known to be in use, at blocks %s" % (first, second, sorted(good)) +
                    ("" if ok else "; some path reserves neither: the level that receives the pushes grows by reallocation"))
    R.floor("R-COVER(reserve_regions)", "reserve of two-level containers with a storage-owning first level", n, 1)
