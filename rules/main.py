#!/usr/bin/env python3
"""check <ID> [--tier quick|thorough] [--replay <path>] — entry point of all static checks."""
import argparse
import json
import os
import sys
import time
import traceback

HERE = os.path.dirname(os.path.abspath(__file__))
VERIF = os.path.dirname(HERE)
sys.path.insert(0, HERE)

import factcache  # noqa: E402
from core import Facts  # noqa: E402
from report import Report  # noqa: E402
import registry  # noqa: E402


def load_known():
    p = os.path.join(VERIF, "known_findings.json")
    if not os.path.exists(p):
        return []
    with open(p) as f:
        return json.load(f)["findings"]


def run_property(prop, tier, repo):
    spec = registry.PROPS[prop]
    R = Report(prop, tier)
    configs = ["default"] + (["nodefault"] if tier == "thorough" else [])
    for cfg in configs:
        path = factcache.get_facts(repo, cfg)
        try:
            F = Facts(path)
        except (OSError, ValueError):
            # the cache entry was evicted by a concurrent run between lookup and load: rebuild it
            path = factcache.get_facts(repo, cfg)
            F = Facts(path)
        if F.crate != "flatcontainer":
            raise factcache.InfraError("fact file names crate %r" % F.crate)
        want_serde = cfg == "default"
        if ("serde" in F.features) != want_serde:
            raise factcache.InfraError("fact file features %r do not match config %s" % (F.features, cfg))
        R.set_config(cfg)
        if F.path_renames:
            R.info("types analysed under their pinned module paths (rules/canon.py): %s" % "; ".join(
                "%s as %s" % kv for kv in sorted(F.path_renames.items())))
        if F.field_renames:
            R.info("private fields analysed under their pinned names (rules/canon.py): %s" % "; ".join(
                "%s: %s" % (a.split("::")[-1], ", ".join("%s as %s" % kv for kv in sorted(m.items())))
                for a, m in sorted(F.field_renames.items())))
        for rule in spec["rules"]:
            if cfg != "default" and getattr(rule, "serde_only", False):
                continue
            rule(F, R)
        downgrade_opaque(F, R)
    if tier == "thorough":
        for extra in spec.get("thorough", []):
            extra(R, repo)
        if os.environ.get("VERIF_NO_MUTANTS") != "1" and repo == "/repo":
            import extras
            extras.mutant_selftest(R, repo, prop)
    return R


def downgrade_opaque(F, R):
    """A body that routes its work through crate-private trait plumbing which the inliner could
    not resolve (a call of a method of a private trait on an associated type or a generic
    parameter, selected by blanket impls) is not something the rules can read: the call is opaque,
    and "the field is not written / not covered" verdicts about such a body say nothing.  Such
    verdicts become undecided sites; violations about bodies without opaque calls are unaffected."""
    from core import callee_tag, classify
    private_traits = set()
    public_traits = set()
    for b in F.bodies.values():
        tr = b.owner.get("trait") or b.owner.get("in_trait")
        if tr and b.kind == "AssocFn" and not b.derived:
            (public_traits if b.d.get("vis_pub") else private_traits).add(tr.split("<")[0])
    private_traits -= public_traits
    # iterator types the pinned tree does not have (`struct CellPusher<..>` with a hand-written
    # `Iterator` impl in place of a closure handed to `map`): what flows through their `next()` is
    # not something the rules follow, so a body that builds one is opaque in the same sense
    import json as _json
    try:
        pinned = set(_json.load(open(os.path.join(HERE, "pinned_adts.json"))))
    except (OSError, ValueError):
        pinned = None
    custom_iters = set()
    if pinned is not None:
        for im in F.impls:
            if (im.get("trait") or "") in ("std::iter::Iterator", "core::iter::Iterator") and not im.get("derived"):
                a_ = (im.get("self_ty") or {}).get("adt")
                if a_ and a_ in F.adts and a_ not in pinned and "::tests::" not in a_:
                    custom_iters.add(a_)
    opaque = {}
    for b in F.bodies.values():
        if b.in_tests() or b.derived:
            continue
        for (bi, t) in b.calls():
            ce = t.get("callee") or {}
            if private_traits and ce.get("local") and ce.get("kind") == "AssocFn" and \
                    (ce.get("trait") or "").split("<")[0] in private_traits and classify(ce) == "unclassified":
                opaque.setdefault(b.label(), "%s, a method of a crate-private trait the analysis could not resolve to an implementation"
                                  % (ce.get("pretty") or ce.get("path")))
        newtypes = F.custom_newtype_adts()
        if newtypes and b.label() not in opaque:
            hit = next((l_["ty"].get("adt") for l_ in b.locals if l_["ty"].get("adt") in newtypes and not l_["ty"].get("ref")), None)
            if not hit:
                txt = _json.dumps(b.blocks)
                hit = next((nt for nt in newtypes if ('"%s"' % nt) in txt or (nt + "(") in txt or ("::" + nt.split("::")[-1] + "::") in txt), None)
            if hit:
                opaque.setdefault(b.label(), "-- it computes with %s, a crate-private integer newtype whose arithmetic and comparisons "
                                  "go through its own operator impls, which the rules do not read" % hit.split("::")[-1])
        if custom_iters and b.label() not in opaque:
            for blk in b.blocks:
                for st in blk["stmts"]:
                    rv = st.get("rv") if st["k"] == "assign" else None
                    if rv and rv.get("k") == "aggregate" and rv.get("agg") == "adt" and rv.get("adt") in custom_iters:
                        opaque.setdefault(b.label(), "-- it builds %s, a crate-private iterator type with a hand-written next() that "
                                          "the rules do not follow" % rv["adt"].split("::")[-1])
    if not opaque:
        return
    for key in list(R.violations):
        v = R.violations[key]
        if v["subject"] in opaque:
            del R.violations[key]
            R.undecided_site(v["rule"], v["subject"], "not judged (%s): the body calls %s" % (v["construct"][:60], opaque[v["subject"]][:160]))
            for o in R.obligations:
                if not o["ok"] and o["rule"] == v["rule"] and o["subject"] == v["subject"] and o["construct"] == v["construct"]:
                    o["ok"] = True
                    o["detail"] = "(undecided: opaque private-trait call) " + str(o["detail"])


def main():
    ap = argparse.ArgumentParser()
    ap.add_argument("prop")
    ap.add_argument("--tier", default=os.environ.get("VERIF_TIER", "quick"),
                    choices=["quick", "thorough"])
    ap.add_argument("--replay", default=None)
    ap.add_argument("--repo", default="/repo")
    ap.add_argument("--no-evidence", action="store_true")
    ap.add_argument("-v", "--verbose", action="store_true")
    args = ap.parse_args()
    prop = args.prop
    if args.replay:
        with open(args.replay) as f:
            rep = json.load(f)
        print("replaying %s: re-running check %s on the current tree; recorded violations:" %
              (args.replay, rep.get("property")))
        for v in rep.get("violations", []):
            print("  %s  (%s)" % (v["key"], v["where"]))
        prop = rep.get("property", prop)
    if prop not in registry.PROPS:
        print("unknown property %s" % prop)
        return 2
    seed = int(os.environ.get("VERIF_SEED", "0") or 0)
    t0 = time.time()
    try:
        R = run_property(prop, args.tier, args.repo)
    except factcache.InfraError as e:
        print("INFRA-FAILURE property=%s %s" % (prop, e))
        return 2
    except Exception:
        traceback.print_exc()
        print("INFRA-FAILURE property=%s internal error in the checker" % prop)
        return 2
    wall = time.time() - t0

    known = [k for k in load_known() if k["property"] == prop]
    known_keys = {k["key"]: k for k in known if k.get("status") == "known"}
    new = []
    old = []
    for key, v in sorted(R.violations.items()):
        if key in known_keys:
            old.append(v)
        else:
            new.append(v)

    for v in old:
        print("KNOWN-FINDING: property=%s %s — %s" % (prop, v["key"], known_keys[v["key"]].get("what", "")))
    for k in known_keys:
        if k not in R.violations:
            print("note: known finding %s no longer reported (fixed?)" % k)

    spec = registry.PROPS[prop]
    obligations = len(R.obligations)
    discharged = sum(1 for o in R.obligations if o["ok"])
    distinct = len({(o["rule"], o["subject"], o["construct"]) for o in R.obligations if o["nontrivial"]})
    samples = []
    seen_rules = set()
    for o in R.obligations:
        if o["rule"] not in seen_rules or len(samples) < 12:
            if o["rule"] not in seen_rules or o["nontrivial"]:
                samples.append({k: o[k] for k in ("rule", "subject", "construct", "ok", "where", "detail")})
            seen_rules.add(o["rule"])
        if len(samples) >= 25:
            break
    rules_count = {}
    for o in R.obligations:
        rules_count[o["rule"]] = rules_count.get(o["rule"], 0) + 1
    evidence = {
        "property_id": prop,
        "tier": args.tier,
        "seed": seed,
        "level": "other",
        "coverage": {
            "explanation": spec["explanation"],
            "obligations": obligations,
            "discharged": discharged,
            "evaluations": obligations,
            "distinct_nontrivial": distinct,
            "rule": "one evaluation = one rule instance (rule x function/impl x construct) decided "
                    "on the un-instantiated MIR of /repo's current tree; non-trivial = the instance "
                    "inspected at least one call site, store or field; distinct by (rule, subject, construct)",
            "samples": samples,
            "rules": rules_count,
            "functions_analysed": len(R.functions),
            "functions_sample": sorted(R.functions)[:15],
            "floors": R.floors,
            "undecided_sites": R.undecided,
            "info": R.infos,
            "known_findings_reported": [v["key"] for v in old],
            "decided_clauses": spec["decided"],
            "not_decided": spec["not_decided"],
            "configs": sorted({o["config"] for o in R.obligations if o["config"]}),
            "checker_cmd": "/verif/check %s --tier %s" % (prop, args.tier),
            "trusted_base": registry.TRUSTED,
            "exhaustive": False,
        },
        "assumptions": registry.TRUSTED + spec.get("assumptions", []),
        "wall_s": round(wall, 2),
        "violations": len(new),
    }
    evidence["coverage"].update(R.extra)
    if not args.no_evidence:
        os.makedirs(os.path.join(VERIF, "evidence"), exist_ok=True)
        with open(os.path.join(VERIF, "evidence", prop + ".json"), "w") as f:
            json.dump(evidence, f, indent=1, sort_keys=True)

    if args.verbose:
        for o in R.obligations:
            print("  [%s] %s | %s | %s | %s | %s" % ("ok" if o["ok"] else "FAIL", o["rule"], o["subject"],
                                                 o["construct"], o["where"], o["detail"]))
        for u in R.undecided:
            print("  undecided: " + u)
        for u in R.infos:
            print("  info: " + u)
    if R.floor_fail:
        for m in R.floor_fail:
            print("INFRA-FAILURE property=%s floor not met: %s" % (prop, m))
        return 2

    print("%s: %d obligations, %d discharged, %d known findings, %d new violations (%.1fs, tier %s)" %
          (prop, obligations, discharged, len(old), len(new), wall, args.tier))
    if new:
        os.makedirs(os.path.join(VERIF, "replay"), exist_ok=True)
        rp = os.path.join(VERIF, "replay", "%s.json" % prop)
        with open(rp, "w") as f:
            json.dump({"property": prop, "tier": args.tier, "violations": new}, f, indent=1)
        for v in new:
            print("  violation: %s\n      at %s: %s" % (v["key"], v["where"], v["detail"]))
        print("VIOLATION property=%s replay=%s" % (prop, rp))
        return 1
    return 0


if __name__ == "__main__":
    sys.exit(main())
