"""C17: R-COVER(merge_regions / reserve_regions), reserve_items vs push agreement,
R-NOALLOC / R-AMORTISED."""
from core import Ctx, callee_tag, classify, closure_sites, base_places, describe, short, fnitem_of_operand
from model import (Catalogue, constructed, self_field_targets, is_storage_type, is_phantom,
                   SIZED_CTORS, EMPTY_CTORS)
from expr import trees, tree, show, operand_tree, reach_strict
from r_index import places_in
from r_cmp import calls_in

IN_SCOPE = ("impls::slice_owned::OwnedRegion", "impls::string::StringRegion",
            "impls::slice::SliceRegion", "impls::option::OptionRegion",
            "impls::result::ResultRegion", "std::vec::Vec", "FlatStack")


def in_scope(adt):
    return adt in IN_SCOPE or (adt or "").startswith("impls::tuple::Tuple")


def closures_projecting(F, ctx, t):
    """fields that closures appearing in tree t project out of their parameter"""
    out = set()
    for node in walk(t):
        if node[0] == "agg" and node[1] == "closure":
            pass
    return out


NODE_KINDS = {"const", "place", "call", "bin", "un", "discr", "agg", "ovf", "opaque", "phi",
              "counter", "len"}


def walk(t):
    """all tree nodes (tuples whose head is a node kind), depth first"""
    if isinstance(t, tuple) and t:
        if isinstance(t[0], str) and t[0] in NODE_KINDS:
            yield t
        for x in t:
            if isinstance(x, tuple):
                yield from walk(x)


def arg_projection_fields(F, ctx, operand_origins, _depth=0, _callback=False):
    """Provenance of a size / iterator argument such as `regions.map(|r| &r.slices)` or a count
    accumulated in a loop over the regions: the set of fields of the *elements of a parameter*
    the value is computed from, and whether it derives from a parameter at all."""
    fields = set()
    from_param = False
    seen = set()
    stack = [(ctx, o) for o in operand_origins]
    steps = 0
    while stack and steps < 4000:
        steps += 1
        (c, (r, p)) = stack.pop()
        key = (id(c), r, p)
        if key in seen:
            continue
        seen.add(key)
        # resolve through sub-part calls / closure parameters first
        resolved = base_places(c, (r, p))
        if resolved != {(c, (r, p))}:
            for (c2, o2) in resolved:
                stack.append((c2, o2))
            continue
        if r[0] == "arg":
            from_param = True
            # field of an element of the parameter (regions[*].f) or of the closure's own
            # parameter standing for one region
            fs = [x for x in p if x.startswith("f:") and not x[2:].isdigit()]
            if fs and ("[]" in p or c.parent is not None or c.body.kind == "Closure" or (_callback and c is ctx)):
                fields.add(fs[0][2:])
        elif r[0] == "call":
            t = c.body.term(r[1])
            for a in t["args"]:
                fi = fnitem_of_operand(a)
                if fi is not None and fi.get("local") and _depth < 4:
                    # a function item used as the callback (`regions.map(region_of)`): what it
                    # returns, computed from its parameter, is what a closure would return
                    fb = F.body((fi.get("resolved") or {}).get("key") or fi.get("key"))
                    if fb is not None:
                        fc = Ctx(fb)
                        fl, fp = arg_projection_fields(F, fc, fc.org.local(0), _depth + 1, _callback=True)
                        fields |= fl
                        from_param = from_param or fp
                    continue
                for o in c.org.operand(a):
                    stack.append((c, o))
        elif r[0] == "agg":
            rv = c.org.stmt(r[1], r[2])["rv"]
            if rv["agg"] == "closure":
                cb = F.body(rv["closure"])
                if cb is not None and _depth < 4:
                    cc = Ctx(cb)
                    fl, fp = arg_projection_fields(F, cc, cc.org.local(0), _depth + 1)
                    fields |= fl
                    for (r2, p2) in cc.org.local(0):
                        pass
                    # values reached through the closure's region parameter
                    from_param = from_param or fp
            for op in rv["ops"]:
                for o in c.org.operand(op):
                    stack.append((c, o))
        elif r[0] == "expr":
            rv = c.org.stmt(r[1], r[2])["rv"]
            for k in ("a", "b", "op"):
                if isinstance(rv.get(k), dict):
                    for o in c.org.operand(rv[k]):
                        stack.append((c, o))
    return fields, from_param


def r_cover_merge(F, R, cat=None):
    cat = cat or Catalogue(F)
    n = 0
    for adt in cat.types:
        if not in_scope(adt):
            continue
        bodies = cat.methods(adt, "merge_regions", "Region")
        if adt == "FlatStack":
            bodies = cat.methods(adt, "merge_capacity")
        for b in bodies:
            R.saw(b)
            ctx = Ctx(b)
            if adt not in F.adts:
                # Vec<T>: the returned value is a sized constructor fed from the regions
                ok = False
                why = ""
                for (r, p) in ctx.org.local(0):
                    if r[0] == "call":
                        t = b.term(r[1])
                        tag = callee_tag(t.get("callee"))
                        fl, fp = arg_projection_fields(F, ctx, [o for a in t["args"] for o in ctx.org.operand(a)])
                        ok = tag in SIZED_CTORS and fp
                        why = "%s::%s(..regions..)" % tag
                R.check("R-COVER(merge_regions)", b.label(), ok, construct="return value is pre-sized",
                        where=b.where(), detail=why)
                n += 1
                continue
            for (root, fm) in constructed(ctx, adt):
                for fd in cat.fields(adt):
                    f = fd["name"]
                    if is_phantom(fd["ty"]) or not is_storage_type(fd["ty"]["s"], F):
                        continue
                    ok = False
                    why = []
                    for (r, p) in fm.get(f, ()):
                        if r[0] != "call":
                            why.append("built from " + describe(ctx, (r, p)))
                            continue
                        t = b.term(r[1])
                        tag = callee_tag(t.get("callee"))
                        fl, fp = arg_projection_fields(F, ctx, [o for a in t["args"] for o in ctx.org.operand(a)])
                        if tag in SIZED_CTORS and fp and f in fl:
                            ok = True
                            why.append("%s::%s over the sources' .%s" % (tag[0], tag[1], f))
                        elif tag in SIZED_CTORS:
                            why.append("%s::%s but sized from %s" % (tag[0], tag[1], sorted(fl) or "nothing of the sources"))
                        else:
                            why.append("%s::%s is not a pre-sizing constructor" % tag)
                    R.check("R-COVER(merge_regions)", b.label(), ok, construct="field " + f,
                            where=b.where(), detail="; ".join(why))
                    n += 1
    R.floor("R-COVER(merge_regions)", "pre-sizing obligations", n, 9)


def r_cover_reserve_vec(F, R, cat=None):
    """Vec<T> as a region / storage: reserve_regions reserves for the announced elements on every
    path; a guard is only accepted when it compares against the *spare* capacity"""
    from expr import facts_at, CMP_OPS
    cat = cat or Catalogue(F)
    n = 0
    for b in F.bodies.values():
        if b.kind != "AssocFn" or b.name != "reserve_regions" or b.self_adt != "std::vec::Vec":
            continue
        n += 1
        R.saw(b)
        ctx, effs = cat.effects(b)
        res = [e for e in effs if e.cls == "reserve" and e.ctx is ctx and
               any(r == ("arg", 1) and p == () for (c, (r, p)) in e.targets or ())]
        if not res:
            R.check("R-COVER(reserve_regions)", b.label(), False, construct="reserves the vector",
                    where=b.where(), detail="no reserve call on self")
            continue
        sites = {e.bb for e in res}
        if not b.can_return_avoiding(sites):
            R.check("R-COVER(reserve_regions)", b.label(), True, construct="reserves the vector on every path",
                    where=b.where())
            continue
        # conditional: look at the guard
        verdict = None
        from expr import lin, lin_sub, nobb
        selfp = ("place", b.key, ("arg", 1), ())
        cap = ("call", ("Vec", "capacity"), (selfp,), ())
        ln = ("call", ("Vec", "len"), (selfp,), ())
        for e in res:
            for f in facts_at(ctx, e.bb):
                if f[0] in CMP_OPS:
                    d = lin_sub(lin(nobb(f[1])), lin(nobb(f[2])))
                    if d.get(cap):
                        # spare capacity = capacity - len: the two must appear with opposite signs
                        verdict = bool(d.get(ln)) and (d[ln] == -d[cap])
        if verdict is None:
            R.undecided_site("R-COVER(reserve_regions)", b.label(), "conditional reserve with an unrecognised guard")
        else:
            R.check("R-COVER(reserve_regions)", b.label(), verdict,
                    construct="reserve skipped only when the spare capacity suffices", where=b.where(),
                    detail="the guard compares the announced amount with the total capacity, not with the spare capacity"
                    if not verdict else "")
    R.floor("R-COVER(reserve_regions)", "Vec reserve_regions bodies", n, 1)


def r_cover_reserve(F, R, cat=None):
    cat = cat or Catalogue(F)
    n = 0
    for adt in cat.types:
        if not in_scope(adt) or adt not in F.adts:
            continue
        if adt == "FlatStack":
            # takes regions (not stacks): must hand them, unchanged, to the region
            for b in cat.methods(adt, "reserve_regions"):
                ctx, effs = cat.effects(b)
                R.saw(b)
                ok = any(e.cls == "reserve" and ("region", ()) in self_field_targets(e, ctx) and
                         e.argorigins[1:] and e.argorigins[1] == {(("arg", 2), ())} for e in effs)
                R.check("R-COVER(reserve_regions)", b.label(), ok,
                        construct="hands the regions unchanged to region.reserve_regions",
                        where=b.where())
                n += 1
            continue
        for b in cat.methods(adt, "reserve_regions"):
            R.saw(b)
            ctx, effs = cat.effects(b)
            for fd in cat.fields(adt):
                f = fd["name"]
                if is_phantom(fd["ty"]) or not is_storage_type(fd["ty"]["s"], F):
                    continue
                sites = set()
                why = []
                for e in effs:
                    if e.cls != "reserve" or e.ctx is not ctx:
                        continue
                    for (ff, rest) in self_field_targets(e, ctx):
                        if ff != f or rest != ():
                            continue
                        origins = [o for os_ in e.argorigins[1:] for o in os_]
                        fl, fp = arg_projection_fields(F, ctx, origins)
                        if fp and f in fl:
                            sites.add(e.top_bb)
                            why.append("%s.%s(sources' .%s)" % (f, e.tag[1], f))
                        else:
                            why.append("%s.%s sized from %s" % (f, e.tag[1], sorted(fl)))
                ok = bool(sites) and not b.can_return_avoiding(sites)
                R.check("R-COVER(reserve_regions)", b.label(), ok, construct="field " + f,
                        where=b.where(), detail="; ".join(why) or "no reserve on this field")
                n += 1
    R.floor("R-COVER(reserve_regions)", "reserve obligations", n, 8)


def nolife(s):
    import re
    return re.sub(r"'[a-z_]+ ?", "", s or "")


def appended_fields(cat, b):
    ctx, effs = cat.effects(b)
    fields = set()
    fwd = False
    for e in effs:
        tg = self_field_targets(e, ctx)
        if e.cls == "append":
            for (f, rest) in tg:
                if f is None:
                    fwd = True
                else:
                    fields.add(f)
    return fields, fwd


def r_reserve_exact_count(F, R, cat=None):
    """every reserve_items derives its amounts from an exact count of the announced items"""
    cat = cat or Catalogue(F)
    n = 0
    for b in F.methods_of_trait("ReserveItems", "reserve_items"):
        if b.in_tests():
            continue
        ctx, effs = cat.effects(b)
        res = [e for e in effs if e.cls == "reserve" and e.tag[1] in ("reserve",) and self_field_targets(e, ctx)]
        if not res:
            continue
        n += 1
        R.saw(b)
        bad = []
        for e in res:
            for os_ in e.argorigins[1:]:
                t = trees(e.ctx, os_)
                names = {nd[1][1] for nd in walk(t) if nd[0] == "call"}
                if "size_hint" in names:
                    bad.append(show(t)[:80])
        R.check("R-RESERVE-ITEMS", b.label(), not bad, construct="reserve amount is an exact count of the items",
                where=b.where(), detail="amount from size_hint (a lower bound, 0 for filter_map/flatten): %s" % bad if bad
                else "no reserve amount is taken from size_hint")
    R.floor("R-RESERVE-ITEMS", "reserve_items bodies that reserve directly", n, 6)


TRUNCATING = {"map_while", "take_while", "take", "skip", "skip_while", "step_by", "nth", "last", "find",
              "find_map", "peekable_next_if", "next_if", "scan"}


def r_reserve_no_truncation(F, R, cat=None):
    """what reserve_items / reserve_regions hand on to their children is derived from *all*
    announced items: no truncating or skipping adaptor (map_while, take_while, take, skip, step_by,
    ...) on a path from the `items` parameter.  `filter_map`/`flat_map`/`map`/`clone`/`chain`
    keep every relevant element; an adaptor of the listed kind announces fewer items than will
    be pushed, so the children are under-sized and reallocate."""
    from core import all_ctxs
    n = 0
    for b in list(F.methods_of_trait("ReserveItems", "reserve_items")) + list(F.methods_of_trait("Region", "reserve_regions")):
        if b.in_tests():
            continue
        n += 1
        for ctx in all_ctxs(F, b):
            for (bi, t) in ctx.body.calls():
                tag = callee_tag(t.get("callee"))
                if tag[1] not in TRUNCATING or tag[0] not in ("Iterator", "Peekable"):
                    continue
                from_items = False
                for a in t["args"][:1]:
                    if a["k"] == "const":
                        continue
                    for o in ctx.org.operand(a):
                        for (c2, (r, p)) in base_places(ctx, o):
                            if c2.body is b and r == ("arg", 2):
                                from_items = True
                if not from_items:
                    continue
                R.saw(b)
                R.check("R-RESERVE-ITEMS", b.label(), False, construct="announced items pass through Iterator::%s" % tag[1],
                        where="%s:%s" % (ctx.body.file, t["line"]),
                        detail="a truncating/skipping adaptor on the announced items: fewer items are announced "
                               "to the child storage than the matching pushes will store")
            # an iterator that was stepped by hand (`it.next()`) and is then handed to a child
            # announces one item fewer per step
            probes = []
            for (bi, t) in ctx.body.calls():
                tag = callee_tag(t.get("callee"))
                if tag[1] in ("next", "next_back", "advance_by") and t["args"] and t["args"][0]["k"] != "const":
                    probes.append((bi, t, {r for (r, p) in ctx.org.operand(t["args"][0])}))
            for (bi, t) in ctx.body.calls():
                tag = callee_tag(t.get("callee"))
                if tag[1] not in ("reserve_items", "reserve_regions") or len(t["args"]) < 2 or t["args"][1]["k"] == "const":
                    continue
                handed = {r for (r, p) in ctx.org.operand(t["args"][1])}
                for (pb, pt, roots) in probes:
                    if not (roots & handed) or not (pb == bi or bi in reach_strict(ctx.body, pb)):
                        continue
                    from_items = any(c2.body is b and r == ("arg", 2)
                                     for o in ctx.org.operand(t["args"][1]) for (c2, (r, p)) in base_places(ctx, o)) or \
                        any(nd[0] == "place" and nd[1] == b.key and nd[2] == ("arg", 2) for nd in walk(operand_tree(ctx, t["args"][1])))
                    if not from_items:
                        continue
                    R.saw(b)
                    R.check("R-RESERVE-ITEMS", b.label(), False,
                            construct="the announced items reach the child un-stepped",
                            where="%s:%s" % (ctx.body.file, t["line"]),
                            detail="the iterator handed to %s::%s was advanced by %s (line %s) before: the child is told "
                                   "about fewer items than will be pushed" % (tag[0], tag[1], callee_tag(pt.get("callee"))[1], pt["line"]))
    R.floor("R-RESERVE-ITEMS", "reserve_items / reserve_regions bodies scanned for truncating adaptors", n, 10)


def r_reserve_cumulative(F, R, cat=None):
    """`reserve(n)` guarantees room for n more elements than the *current length*, so calling it
    once per source in a loop on the same storage leaves room for the largest source, not for the
    sum.  Fires on a reserve-class call inside a loop of a reserve_regions / reserve_items body
    whose receiver does not change with the loop and whose amount comes from the loop's element."""
    from core import all_ctxs
    from expr import in_loop
    n = 0
    hits = 0
    for b in list(F.methods_of_trait("ReserveItems", "reserve_items")) + list(F.methods_of_trait("Region", "reserve_regions")) + \
            list(F.methods_of_trait("Storage", "reserve_regions")) + list(F.methods_of_trait("Storage", "reserve_items")):
        if b.in_tests():
            continue
        n += 1
        for ctx in all_ctxs(F, b):
            if ctx.body.kind == "Closure":
                continue
            for (bi, t) in ctx.body.calls():
                if classify(t.get("callee")) != "reserve" or len(t["args"]) < 2 or not in_loop(ctx.body, bi):
                    continue
                recv = operand_tree(ctx, t["args"][0])
                amount = operand_tree(ctx, t["args"][1])
                if recv[0] != "place" or recv[2][0] != "arg" or "[]" in recv[3]:
                    continue
                steps = [nd for nd in walk(amount) if nd[0] == "call" and nd[1][1] == "next" and in_loop(ctx.body, nd[4])]
                if not steps:
                    continue
                hits += 1
                R.saw(b)
                R.check("R-COVER(reserve_regions)", b.label(), False,
                        construct="room for all sources together",
                        where="%s:%s" % (ctx.body.file, t["line"]),
                        detail="%s is reserved once per source inside a loop with that source's own size %s: reserve is "
                               "relative to the current length, so the calls do not add up and the storage is left "
                               "with room for the largest source only" % (show(recv), show(amount)[:80]))
    R.info("R-COVER(reserve_regions): %d reserve bodies scanned for per-source reserves in a loop, %d found" % (n, hits))
    R.floor("R-COVER(reserve_regions)", "reserve bodies scanned for per-source reserves", n, 10)


def r_reserve_hint_lower(F, R, cat=None):
    """a reservation made from an iterator's size_hint uses the lower bound: the upper bound of
    `filter`/`take_while`-like iterators exceeds what they yield, and reserving it on an exact-fit
    storage reallocates although the announced contents fit"""
    from core import all_ctxs
    cat = cat or Catalogue(F)
    n = 0
    for top in F.bodies.values():
        if top.in_tests() or top.derived or top.kind == "Closure":
            continue
        for ctx in all_ctxs(F, top):
            for (bi, t) in ctx.body.calls():
                if classify(t.get("callee")) != "reserve" or len(t["args"]) < 2:
                    continue
                amount = trees(ctx, ctx.org.operand(t["args"][1]))
                hints = [nd for nd in walk(amount) if nd[0] == "call" and nd[1][1] == "size_hint"]
                if not hints:
                    continue
                n += 1
                R.saw(top)
                upper = [nd for nd in hints if any(str(x) == "f:1" for x in nd[3])]
                R.check("R-RESERVE-ITEMS", top.label(), not upper, construct="reserve from size_hint uses the lower bound",
                        where="%s:%s" % (ctx.body.file, t["line"]),
                        detail="amount %s" % show(amount)[:100] + ("" if not upper else
                               ": the upper bound may exceed what the iterator yields; reserving it reallocates an "
                               "exact-fit storage although the announced contents fit"))
    R.info("R-RESERVE-ITEMS: %d reservations taken from size_hint" % n)


def r_reserve_additional(F, R, cat=None):
    """`reserve(n)` asks for room for n *more* elements.  An amount that already contains the
    receiver's current length (`v.reserve(v.len() + k)`, or a saved `start_len + k`) asks for the
    total again: on an exactly pre-sized storage that is more than the spare capacity, so it
    reallocates although the announced contents fit."""
    from core import all_ctxs
    from expr import lin, nobb
    n = 0
    for top in F.bodies.values():
        if top.in_tests() or top.derived or top.kind == "Closure":
            continue
        for ctx in all_ctxs(F, top):
            for (bi, t) in ctx.body.calls():
                if classify(t.get("callee")) != "reserve" or len(t["args"]) < 2 or t["args"][0]["k"] == "const":
                    continue
                recv = nobb(trees(ctx, ctx.org.operand(t["args"][0])))
                if recv[0] != "place":
                    continue
                amount = nobb(trees(ctx, ctx.org.operand(t["args"][1])))
                d = lin(amount)
                bad = None
                for k, v in d.items():
                    if k == 1 or v <= 0 or not isinstance(k, tuple):
                        continue
                    is_len = (k[0] == "call" and k[1][1] == "len" and k[2] and k[2][0] == recv) or \
                             (k[0] == "len" and k[1] == recv) or \
                             (k[0] == "un" and k[1] == "PtrMetadata" and k[2] == recv)
                    if is_len:
                        bad = k
                n += 1
                if bad is None:
                    continue
                R.saw(top)
                R.check("R-RESERVE-ITEMS", top.label(), False, construct="reserve takes the additional count",
                        where="%s:%s" % (ctx.body.file, t["line"]),
                        detail="the amount %s includes the receiver's own length %s: reserve(len + n) asks for the "
                               "total a second time and reallocates a storage that was sized exactly" % (
                                   show(amount)[:80], show(bad)[:50]))
    R.info("R-RESERVE-ITEMS: %d reserve calls inspected for amounts that include the receiver's length" % n)


def r_capacity_uncapped(F, R, cat=None):
    """The pre-sizing entry points (`with_capacity`, `reserve*`, `merge_regions`, `merge_capacity`)
    hand the requested amount to the allocation call as computed: an amount that is capped
    (`capacity.min(limit)`, `clamp`) leaves a storage smaller than announced, and pushing the
    announced contents reallocates.  Fires only on a cap applied to an amount that derives from
    a parameter."""
    from core import all_ctxs
    from expr import nobb
    names = ("with_capacity", "reserve", "reserve_items", "reserve_regions", "merge_regions", "merge_capacity")
    n = 0
    for top in F.bodies.values():
        if top.in_tests() or top.derived or top.kind == "Closure" or top.name not in names:
            continue
        for ctx in all_ctxs(F, top):
            for (bi, t) in ctx.body.calls():
                tag = callee_tag(t.get("callee"))
                sized = tag in SIZED_CTORS or tag[1] == "with_capacity"
                if not (classify(t.get("callee")) == "reserve" or sized) or not t["args"]:
                    continue
                amt_op = t["args"][0] if sized and len(t["args"]) == 1 else (t["args"][1] if len(t["args"]) >= 2 else None)
                if amt_op is None or amt_op["k"] == "const":
                    continue
                amount = nobb(trees(ctx, ctx.org.operand(amt_op)))
                n += 1
                caps = [nd for nd in walk(amount) if nd[0] == "call" and nd[1][1] in ("min", "clamp") and
                        any(x[0] == "place" and x[2][0] == "arg" for a in nd[2] for x in walk(a))]
                if not caps:
                    continue
                R.saw(top)
                R.check("R-COVER(merge_regions)", top.label(), False, construct="the requested capacity is passed on uncapped",
                        where="%s:%s" % (ctx.body.file, t["line"]),
                        detail="the amount %s is capped: a request above the cap leaves the storage smaller than "
                               "announced, so copying exactly the announced contents reallocates" % show(amount)[:100])
    R.info("R-COVER: %d allocation amounts in pre-sizing entry points inspected for caps" % n)
    R.floor("R-COVER(merge_regions)", "allocation amounts in pre-sizing entry points", n, 10)


def r_reserve_single_item(F, R, cat=None):
    """reserve_items / reserve_regions size storage for *all* announced items: a reserve whose
    amount is taken from ONE element pulled out of the parameter (`items.clone().next()`,
    `.last()`, `.nth(k)`), outside any loop over them, leaves the other items unaccounted for."""
    cat = cat or Catalogue(F)
    n = 0
    for b in list(F.methods_of_trait("ReserveItems", "reserve_items")) + list(F.methods_of_trait("Region", "reserve_regions")):
        if b.in_tests() or b.self_adt not in F.adts:
            continue
        n += 1
        R.saw(b)
        ctx, effs = cat.effects(b)
        # a reserve sized from ONE element pulled out of the announced items (`items.clone().next()`,
        # `.last()`, `.nth(k)`), outside any loop over them: the other items are not accounted for
        from expr import in_loop as _in_loop, nobb as _nobb
        for e in effs:
            if e.cls != "reserve" or e.ctx is not ctx or not any(f is not None for (f, _r) in self_field_targets(e, ctx)):
                continue
            if _in_loop(b, e.bb):
                continue
            for os_ in e.argorigins[1:]:
                raw_ = trees(e.ctx, os_)
                # (an element pulled by a loop that accumulates over all of them -- `for x in items { n += x.len() }`
                #  -- is every element: the poll sits in a cycle)
                looped = {_nobb(nd) for nd in walk(raw_) if nd[0] == "call" and len(nd) == 5 and isinstance(nd[4], int) and _in_loop(b, nd[4])}
                tr_ = _nobb(raw_)
                single = [nd for nd in walk(tr_) if nd[0] == "call" and nd[1] in (("Iterator", "next"), ("Iterator", "last"), ("Iterator", "nth"),
                                                                                ("Iterator", "min"), ("Iterator", "max"), ("Peekable", "peek"),
                                                                                ("DoubleEndedIterator", "next_back"))
                          and nd not in looped
                          and any(x[0] == "place" and x[2] == ("arg", 2) for x in walk(nd))]
                whole = [nd for nd in walk(tr_) if nd[0] == "place" and nd[2] == ("arg", 2) and
                         not any(nd in list(walk(sg)) for sg in single)]
                if single and not whole:
                    R.check("R-RESERVE-ITEMS", b.label(), False, construct="storage is sized from all announced items",
                            where=e.where(),
                            detail="this reserve is sized from a single element of the items (%s) and is not repeated per item: "
                                   "a batch whose other items come from elsewhere (another region, borrowed rows) is under-reserved" %
                                   show(single[0])[:70])
    R.info("R-RESERVE-ITEMS: %d reserve bodies inspected for single-element sizing" % n)


def r_reserve_items_agree(F, R, cat=None):
    cat = cat or Catalogue(F)
    n = 0
    pushes = {}
    for b in F.methods_of_trait("Push", "push"):
        if b.in_tests():
            continue
        pushes[(b.self_adt, nolife(b.owner.get("trait_args", [None, None])[1]))] = b
    for b in F.methods_of_trait("ReserveItems", "reserve_items"):
        if b.in_tests() or not in_scope(b.self_adt) or b.self_adt not in F.adts:
            continue
        item_ty = b.owner.get("trait_args", [None, None])[1]
        pb = pushes.get((b.self_adt, nolife(item_ty)))
        if pb is None:
            continue
        n += 1
        R.saw(b)
        ctx, effs = cat.effects(b)
        pf, pfwd = appended_fields(cat, pb)
        rf = set()
        rfwd = False
        const_amount = []
        for e in effs:
            if e.cls != "reserve":
                continue
            for (f, rest) in self_field_targets(e, ctx):
                if f is None:
                    rfwd = True
                else:
                    rf.add(f)
                    # amount must derive from the items parameter
                    origins = [o for os_ in e.argorigins[1:] for o in os_]
                    fl, fp = arg_projection_fields(F, e.ctx, origins)
                    if not fp and not any(r == ("arg", 2) for (c, (r, p)) in
                                          [x for o in origins for x in base_places(e.ctx, o)]):
                        const_amount.append(f)
        inexact = [e for e in effs if e.kind == "call" and e.tag in (("Iterator", "size_hint"),)]
        if inexact:
            R.check("R-RESERVE-ITEMS", b.label(), False, construct="reserve amount from size_hint",
                    where=inexact[0].where(),
                    detail="size_hint is a lower bound (0 for filter_map/flatten), not the number of announced items")
            continue
        if rfwd:
            R.check("R-RESERVE-ITEMS", b.label(), True, construct="forwards to another reserve_items form",
                    where=b.where(), nontrivial=False)
            continue
        if pfwd and not pf:
            # the push form forwards; compare with the canonical form it reaches is done there
            R.check("R-RESERVE-ITEMS", b.label(), bool(rf), construct="reserves storage",
                    where=b.where(), detail="reserves %s" % sorted(rf), nontrivial=False)
            continue
        ok = pf <= rf and not const_amount
        R.check("R-RESERVE-ITEMS", b.label(), ok,
                construct="reserves every storage the matching push appends to",
                where=b.where(),
                detail="push(%s) appends to %s; reserve_items reserves %s%s" % (
                    item_ty, sorted(pf), sorted(rf),
                    "; amount not derived from items for %s" % const_amount if const_amount else ""))
    R.floor("R-RESERVE-ITEMS", "reserve_items impls paired with a push impl", n, 10)


ALLOCATING = {("slice", "to_vec"), ("ToOwned", "to_owned"), ("Iterator", "collect"),
              ("Vec", "with_capacity"), ("Vec", "new"), ("Box", "new"), ("ToString", "to_string"),
              ("String", "from"), ("Vec", "from"), ("fn", "format"), ("String", "new"),
              ("FromIterator", "from_iter"), ("Vec", "from_iter"),
              ("BTreeMap", "new")}
EXACT_FIT = {("Vec", "reserve_exact"), ("Vec", "shrink_to_fit"), ("Vec", "shrink_to"),
             ("String", "reserve_exact"), ("String", "shrink_to_fit")}
CODED = ("impls::codec::CodecRegion", "impls::codec::dictionary::DictionaryCodec",
         "impls::huffman_container::HuffmanContainer")


def r_noalloc(F, R, cat=None):
    cat = cat or Catalogue(F)
    n = 0
    bodies = [b for b in F.bodies.values() if not b.in_tests() and not b.derived and (
        (b.trait, b.name) in (("Push", "push"), ("PushStorage", "push_storage"),
                              ("IndexContainer", "push"), ("IndexContainer", "extend"),
                              ("Extend", "extend")) or
        (b.trait is None and (b.self_adt, b.name) in (("FlatStack", "copy"),
                                                      ("impls::index::IndexList", "push"),
                                                      ("impls::index::Stride", "push"),
                                                      ("FlatStack", "reserve"),
                                                      ("impls::index::IndexList", "reserve"))) or
        # reserve is reached from push paths (FlatStack::extend), so it must stay amortised too
        (b.trait, b.name) in (("Storage", "reserve"), ("Storage", "reserve_regions")))]
    for b in bodies:
        if b.self_adt in CODED:
            continue
        if b.trait == "Extend" and b.self_adt != "FlatStack":
            continue
        n += 1
        R.saw(b)
        ctx, effs = cat.effects(b)
        bad = []
        for e in effs:
            if e.kind != "call":
                continue
            if e.tag in ALLOCATING and not (e.term.get("exp")):
                bad.append(("R-NOALLOC", e, "builds a temporary with %s::%s" % e.tag))
            if e.tag in EXACT_FIT:
                bad.append(("R-AMORTISED", e, "%s::%s defeats amortised growth" % e.tag))
            if e.tag in (("fn", "swap"), ("fn", "replace"), ("fn", "take")) and any(
                    c is ctx and r == ("arg", 1) and not (p and p[0].startswith("f:") and (b.self_adt, p[0][2:]) in F.debug_only_fields)
                    for (c, (r, p)) in e.targets or ()):
                bad.append(("R-NOALLOC", e, "mem::%s replaces the storage (and discards a pre-sized buffer)" % e.tag[1]))
        for (rule, e, why) in bad:
            R.check(rule, b.label(), False, construct="%s::%s" % e.tag, where=e.where(), detail=why)
        if not bad:
            R.check("R-NOALLOC", b.label(), True, where=b.where(),
                    detail="%d calls inspected, none allocating a temporary or exact-fitting" % len(
                        [e for e in effs if e.kind == "call"]), nontrivial=True)
    R.floor("R-NOALLOC", "push-path bodies of non-coded regions", n, 60)


def r_reserve_counts_elements(F, R, cat=None):
    """a reservation computed as `items.map(f).count()` where f turns each item into an *iterator*
    counts the items, not what they contain (`flat_map(f).count()`, or `map(|i| i.count()).sum()`,
    counts the elements): for items that are iterators (`PushIter`) the storage is reserved for one
    slot per item although each pushes many."""
    from core import all_ctxs
    from expr import nobb, apply_fn
    n = 0
    for b in F.methods_of_trait("ReserveItems", "reserve_items"):
        if b.in_tests():
            continue
        for ctx in all_ctxs(F, b):
            for (bi, t) in ctx.body.calls():
                if classify(t.get("callee")) != "reserve" or len(t["args"]) < 2:
                    continue
                amount = nobb(trees(ctx, ctx.org.operand(t["args"][1])))
                for nd in walk(amount):
                    if nd[0] == "call" and nd[1] == ("Iterator", "count") and nd[2] and nd[2][0][0] == "call" and \
                            nd[2][0][1] == ("Iterator", "map") and len(nd[2][0][2]) == 2:
                        n += 1
                        res = apply_fn(F, nd[2][0][2][1], [("opaque", "item")])
                        iterish = [r for r in res if r and r[0] == "call" and r[1][1] in ("into_iter", "iter", "iter_mut", "chars", "bytes")]
                        if iterish and len(iterish) == len(res):
                            R.saw(b)
                            R.check("R-RESERVE-ITEMS", b.label(), False, construct="items that are iterators are counted by their elements",
                                    where="%s:%s" % (ctx.body.file, t["line"]),
                                    detail="the amount is map(|item| <iterator>).count(): one per item; the matching push stores every "
                                           "element of each item (flat_map(..).count() or a sum of the per-item counts reserves for those)")
    R.info("R-RESERVE-ITEMS: %d map(..).count() reservation amounts inspected" % n)
