"""C20: R-FORWARD (forwarding impls pass the same value on) and R-SIBLING (canonical impls of
one region agree on their effect signature)."""
from collections import Counter, defaultdict

from core import Ctx, callee_tag, base_places, describe, short
from model import Catalogue, self_field_targets
from expr import trees, tree, show, operand_tree
from r_bracket import walk, region_index_type

PRESERVING = {("Vec", "as_slice"), ("array", "as_slice"), ("String", "as_str"), ("str", "as_bytes"),
              ("Deref", "deref"), ("AsRef", "as_ref"), ("Borrow", "borrow"), ("slice", "iter"),
              ("Iterator", "copied"), ("Iterator", "cloned"), ("IntoIterator", "into_iter"),
              ("Vec", "as_ref"), ("String", "as_ref"),
              # owning conversions that keep every element, in order
              ("slice", "into_vec"), ("Cow", "into_owned"), ("slice", "to_vec"), ("Box", "into_vec"),
              ("str", "into_string"), ("String", "into_boxed_str"), ("Vec", "into_boxed_slice")}
PRESERVING_FNITEMS = ("as_slice", "as_str", "as_bytes", "deref", "as_ref", "borrow")


_FACTS = [None]


def preserving(t, param):
    """t is `param` seen through representation-preserving conversions only"""
    if t == param:
        return True
    if t[0] == "place" and t[2] == param[2]:
        # structural payload of the parameter (ReadSlice's Ok payload): still the same value
        return all(x.startswith("f:") or x.startswith("v:") for x in t[3])
    if t[0] == "call":
        if t[1] in PRESERVING and t[2]:
            return preserving(t[2][0], param)
        if t[1] in (("Index", "index"), ("IndexMut", "index_mut")) and len(t[2]) == 2 and \
                t[2][1][0] == "agg" and str(t[2][1][1]).startswith("RangeFull"):
            return preserving(t[2][0], param)  # `&item[..]`: the whole value as a slice
        if t[1][1] == "drain" and t[1][0] in ("Vec", "VecDeque", "String") and len(t[2]) == 2 and \
                t[2][1][0] == "agg" and str(t[2][1][1]).startswith("RangeFull"):
            return preserving(t[2][0], param)  # `item.drain(..)`: every element, in order, moved out
        if t[1] == ("Iterator", "map") and len(t[2]) == 2:
            f = t[2][1]
            if not preserving(t[2][0], param):
                return False
            if f[0] == "const":
                return any(("::" + n) in f[1] or f[1].endswith(n) for n in PRESERVING_FNITEMS)
            if f[0] == "agg" and str(f[1]).startswith("closure:") and _FACTS[0] is not None:
                # an element-wise closure that returns its parameter through representation-
                # preserving conversions only (`|item| item.as_ref()`)
                cb = _FACTS[0].body(f[1][len("closure:"):])
                if cb is None:
                    return False
                cctx = Ctx(cb)
                cparam = ("place", cb.key, ("arg", 2), ())
                rets = [tree(cctx, o) for o in cctx.org.local(0)]
                return bool(rets) and all(preserving(r, cparam) for r in rets)
            return False
    if t[0] == "agg" and t[1] == "PushIter::PushIter" and t[2]:
        return preserving(t[2][0], param)
    if t[0] == "agg" and "::" in str(t[1]) and not str(t[1]).startswith("closure:") and len(t[2]) == 1:
        # wrapped into another representation of the same item (`ReadSlice(Ok(inner))`)
        return preserving(t[2][0], param)
    return False


def forward_calls(b, ctx, trait, name):
    """calls to <trait>::<name> whose receiver is the whole self or a single field of self"""
    out = []
    for (bi, t) in b.calls():
        tag = callee_tag(t.get("callee"))
        if tag != (trait, name) or not t["args"]:
            continue
        recv = operand_tree(ctx, t["args"][0])
        if recv == ("place", b.key, ("arg", 1), ()):
            out.append((bi, t, recv))
    return out


def r_forward(F, R, cat=None):
    cat = cat or Catalogue(F)
    _FACTS[0] = F
    n = 0
    for (trait, name) in (("Push", "push"), ("ReserveItems", "reserve_items")):
        for b in F.methods_of_trait(trait, name):
            if b.in_tests():
                continue
            ctx, effs = cat.effects(b)
            fcs = forward_calls(b, ctx, trait, name)
            if not fcs:
                continue
            n += 1
            R.saw(b)
            param = ("place", b.key, ("arg", 2), ())
            # (1) argument is the parameter through preserving conversions
            ok_arg = True
            why = []
            for (bi, t, recv) in fcs:
                a = operand_tree(ctx, t["args"][1])
                if not preserving(a, param):
                    ok_arg = False
                why.append(show(a)[:120])
            # (2) result returned unchanged on the forwarding path
            fbbs = {bi for (bi, _, _) in fcs}
            rets = [tree(ctx, o) for o in ctx.org.local(0)]
            ok_ret = True
            if name == "push":
                fr = [t for t in rets if t[0] == "call" and t[4] in fbbs]
                ok_ret = len(fr) == len(fcs)
            # (3) a purely forwarding body does nothing else to self
            others = [e for e in effs if e.cls in ("append", "destructive", "clear", "assign", "reserve")
                      and self_field_targets(e, ctx) and not (e.bb in fbbs and e.ctx is ctx)]
            pure = len(rets) <= 1 or name == "reserve_items"
            ok_pure = (not others) if pure and len(fcs) == 1 and len(rets) <= 1 else True
            R.check("R-FORWARD", b.label(), ok_arg and ok_ret and ok_pure,
                    construct="forwards the same value to another %s form" % name,
                    where=b.where(),
                    detail="forwarded argument %s; result returned unchanged: %s; other effects on self: %d" % (
                        why, ok_ret, len(others)))
    R.floor("R-FORWARD", "forwarding impls", n, 20)


SIG_CLASSES = ("append", "destructive", "clear", "assign", "reserve", "clone_from", "measure")


def signature(F, cat, b):
    ctx, effs = cat.effects(b)
    sig = set()
    for e in effs:
        if e.cls not in SIG_CLASSES:
            continue
        for (f, rest) in self_field_targets(e, ctx):
            if f is None and e.tag == ("Push", "push"):
                continue  # an arm forwarding to another form (R-FORWARD)
            sig.add((f or "self", e.cls))
    from expr import ret_alts, nobb, NONE
    rets = [nobb(t) for t in ret_alts(ctx) if t != NONE]
    kinds = set()
    for t in rets:
        if t[0] == "agg" and t[1] == "tuple" and t[2] and all(x[0] == "call" and x[1][1] == "len" for x in t[2]):
            kinds.add("bracket")
        elif t[0] == "agg" and t[1] == "tuple" and len(t[2]) == 2 and t[2][0] == t[2][1] and t[2][0][0] == "place":
            kinds.add("bits")
        elif t[0] == "agg" and t[1] == "tuple" and len(t[2]) == 2 and all(
                (x[0] == "place" and x[2] == ("arg", 1)) or
                (x[0] == "call" and x[1][1] == "len" and x[2] and x[2][0][0] == "place" and x[2][0][2] == ("arg", 1)) for x in t[2]):
            pass  # (end, end) over the representations: the empty range at the current end (R-BRACKET judges it)
        elif t[0] == "bin":
            kinds.add("position")
        elif t[0] == "call" and t[1] == ("Push", "push") and t[2] and t[2][0][0] == "place" and \
                t[2][0][3] in ((), ):
            kinds.add("forward")
        elif t[0] == "call" and t[1] == ("fn", "push_symbols"):
            kinds.add("bits")
        elif t[0] == "call" and t[1] == ("Push", "push"):
            kinds.add("child:" + ".".join(t[2][0][3]) if t[2] and t[2][0][0] == "place" else "child")
        elif t[0] == "call" and t[1][1] == "len":
            kinds.add("position")
        elif t[0] == "agg":
            kinds.add("agg:" + t[1])
        elif t[0] == "place":
            kinds.add("place")
        else:
            kinds.add(t[0])
    return frozenset(sig), frozenset(kinds - {"forward"})


def r_skip_take(F, R, cat=None):
    """`iter.skip(a).take(n)` takes a *count*.  When a and n are the start and the end of one
    (start, end) pair -- the two fields of a range-like read item or the two components of a
    (usize, usize) index -- the adaptor chain yields end elements instead of end - start: the
    copy runs on into the items stored behind the one that was asked for."""
    from core import all_ctxs
    from expr import nobb
    n = 0
    for top in F.bodies.values():
        if top.in_tests() or top.derived or top.kind == "Closure":
            continue
        for ctx in all_ctxs(F, top):
            for (bi, t) in ctx.body.calls():
                if callee_tag(t.get("callee")) != ("Iterator", "take") or len(t["args"]) != 2:
                    continue
                recv = nobb(operand_tree(ctx, t["args"][0]))
                cnt = nobb(operand_tree(ctx, t["args"][1]))
                skips = [nd for nd in walk(recv) if nd and nd[0] == "call" and nd[1] == ("Iterator", "skip") and len(nd[2]) == 2]
                if not skips:
                    continue
                n += 1
                a = skips[0][2][1]
                bad = False
                if a[0] == "place" and cnt[0] == "place" and a[1:3] == cnt[1:3] and a[3] and cnt[3] and \
                        tuple(a[3][:-1]) == tuple(cnt[3][:-1]):
                    pair = (a[3][-1], cnt[3][-1])
                    bad = pair in (("f:start", "f:end"), ("f:0", "f:1"), ("f:lower", "f:upper"), ("f:lo", "f:hi"))
                R.saw(top)
                R.check("R-FORWARD", top.label(), not bad, construct="skip(start).take(count)",
                        where="%s:%s" % (ctx.body.file, t["line"]),
                        detail="take(%s) after skip(%s)" % (show(cnt), show(a)) +
                        (": the end of the pair is used as a count" if bad else ""))
            # the other order: `iter.take(n).skip(a)` keeps positions a..n, so n must be an *end*
            # position.  A length (`range.len()`, `end - start`) of the range whose start is then
            # skipped yields len - start elements, from the wrong place unless start is 0.
            for (bi, t) in ctx.body.calls():
                if callee_tag(t.get("callee")) != ("Iterator", "skip") or len(t["args"]) != 2:
                    continue
                recv = nobb(operand_tree(ctx, t["args"][0]))
                a = nobb(operand_tree(ctx, t["args"][1]))
                takes = [nd for nd in walk(recv) if nd and nd[0] == "call" and nd[1] == ("Iterator", "take") and len(nd[2]) == 2]
                if not takes or not (a[0] == "place" and a[3] and a[3][-1] in ("f:start", "f:0", "f:lower", "f:lo")):
                    continue
                n += 1
                cnt = takes[0][2][1]
                base = ("place",) + tuple(a[1:3]) + (tuple(a[3][:-1]),)
                is_len = (cnt[0] == "call" and cnt[1][1] == "len" and cnt[2] and cnt[2][0] == base) or \
                    (cnt[0] == "bin" and cnt[1] == "Sub" and cnt[3] == a and cnt[2][0] == "place" and
                     tuple(cnt[2][3][:-1]) == tuple(a[3][:-1]))
                R.saw(top)
                R.check("R-FORWARD", top.label(), not is_len, construct="take(end).skip(start)",
                        where="%s:%s" % (ctx.body.file, t["line"]),
                        detail="skip(%s) after take(%s)" % (show(a), show(cnt)) +
                        (": the length of the range is used as an end position (only right for a range that starts at 0)" if is_len else ""))
    R.info("R-FORWARD: %d skip(..).take(..) chains inspected" % n)


def r_sibling(F, R, cat=None):
    cat = cat or Catalogue(F)
    _FACTS[0] = F
    groups = defaultdict(list)
    for b in F.methods_of_trait("Push", "push"):
        if b.in_tests():
            continue
        ctx, effs = cat.effects(b)
        rets = [tree(ctx, o) for o in ctx.org.local(0)]
        fcs = forward_calls(b, ctx, "Push", "push")
        if fcs and len(rets) == 1:
            continue  # purely forwarding: R-FORWARD
        adt = b.self_adt or "?"
        if adt.startswith("impls::tuple::Tuple"):
            adt = adt  # each arity is its own group
        groups[adt].append(b)
    n = 0
    custom = F.custom_iterator_adts()

    def builds_custom_iter(b_):
        return bool(custom) and any(st["k"] == "assign" and st["rv"].get("k") == "aggregate" and st["rv"].get("adt") in custom
                                    for blk in b_.blocks for st in blk["stmts"])
    for adt, bs in sorted(groups.items()):
        hidden = [b_ for b_ in bs if builds_custom_iter(b_)]
        if hidden:
            # forms that do part of their work inside a crate-private iterator type show only part
            # of their effects: they are left out of the comparison
            for b_ in hidden:
                R.undecided_site("R-SIBLING", b_.label(), "builds a crate-private iterator type: its effect signature is not read")
            bs = [b_ for b_ in bs if b_ not in hidden]
        if len(bs) < 2:
            continue
        sigs = {b.key: signature(F, cat, b) for b in bs}
        cnt = Counter(sigs.values())
        major, mc = cnt.most_common(1)[0]
        for b in bs:
            n += 1
            R.saw(b)
            s = sigs[b.key]
            ok = s == major
            if not ok and s[1] == major[1] and {x for x in s[0] if x[1] != "measure"} == {x for x in major[0] if x[1] != "measure"}:
                ok = True  # the forms differ only in what they *measure* (a length looked up, or not): no effect differs
            R.check("R-SIBLING", b.label(), ok,
                    construct="same effect signature as the other canonical push forms of %s" % short(adt),
                    where=b.where(),
                    detail="signature %s / result %s; siblings' %s / %s (%d of %d agree)" % (
                        sorted(s[0]), sorted(s[1]), sorted(major[0]), sorted(major[1]), mc, len(bs)))
    R.floor("R-SIBLING", "canonical push impls compared", n, 40)


def r_pushstorage(F, R, cat=None):
    cat = cat or Catalogue(F)
    _FACTS[0] = F
    n = 0
    for b in F.methods_of_trait("PushStorage", "push_storage"):
        n += 1
        R.saw(b)
        ctx, effs = cat.effects(b)
        on_self = [e for e in effs if self_field_targets(e, ctx) and e.cls not in ("access", "read", "measure", "adaptor",
                                                                             "reserve")]  # capacity only
        ok = len(on_self) == 1 and on_self[0].cls == "append"
        src_ok = False
        if ok:
            e = on_self[0]
            a = trees(e.ctx, e.argorigins[1]) if len(e.argorigins) > 1 else ("opaque", "?")
            param = ("place", b.key, ("arg", 2), ())
            src_ok = preserving(a, param) or (a[0] == "place" and a[2] == ("arg", 2))
        R.check("R-FORWARD", b.label(), ok and src_ok,
                construct="push_storage appends exactly the item", where=b.where(),
                detail="effects on self: %s" % [(e.cls, e.tag[1]) for e in on_self])
    R.floor("R-FORWARD", "PushStorage impls", n, 3)
