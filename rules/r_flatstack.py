"""C03: FlatStack — index/region pairing and the delegation table."""
from core import Ctx, callee_tag, closure_sites
from model import Catalogue, self_field_targets
from expr import trees, tree, show, operand_tree, reach_strict

FS = "FlatStack"


def fs_methods(F, name, trait=None):
    return [b for b in F.bodies.values() if b.self_adt == FS and b.name == name and
            b.kind == "AssocFn" and (trait is None or b.trait == trait) and not b.in_tests()]


def place(b, *path):
    return ("place", b.key, ("arg", 1), tuple(path))


def strip_bb(t):
    if isinstance(t, tuple):
        if t and t[0] == "call" and len(t) == 5:
            return ("call", t[1], tuple(strip_bb(x) for x in t[2]), t[3])
        return tuple(strip_bb(x) for x in t)
    return t


def r_pairing(F, R, cat=None):
    from core import all_ctxs
    cat = cat or Catalogue(F)
    bodies = fs_methods(F, "copy") + fs_methods(F, "extend", "Extend")
    R.floor("R-PAIRING", "FlatStack copy/extend bodies", len(bodies), 2)
    for top in bodies:
        R.saw(top)
        tctx, effs = cat.effects(top)
        found = 0
        ok = True
        why = []
        # the pairing may live in the body itself or in a closure it hands to for_each & co.
        for ctx in all_ctxs(F, top):
            b = ctx.body
            region = trees(ctx, {(("arg", 1), ("f:region",))}) if ctx is not None else None

            def is_field(t, fld):
                return t == ("place", top.key, ("arg", 1), ("f:" + fld,))
            rpush = [(bi, t) for (bi, t) in b.calls() if callee_tag(t.get("callee")) == ("Push", "push")
                     and is_field(operand_tree(ctx, t["args"][0]), "region")]
            ipush = [(bi, t) for (bi, t) in b.calls() if callee_tag(t.get("callee")) == ("IndexContainer", "push")
                     and is_field(operand_tree(ctx, t["args"][0]), "indices")]
            if not rpush and not ipush:
                continue
            found += len(rpush)
            if len(rpush) != len(ipush):
                ok = False
                why.append("%d region.push vs %d indices.push in %s" % (len(rpush), len(ipush), b.path))
            used = set()
            for (ibi, it) in ipush:
                a = operand_tree(ctx, it["args"][1])
                if a[0] == "call" and a[1] == ("Push", "push") and a[4] in {bi for (bi, _) in rpush} and a[3] == ():
                    used.add(a[4])
                else:
                    ok = False
                    why.append("indices.push(%s)" % show(a)[:80])
            if used != {bi for (bi, _) in rpush}:
                ok = False
                why.append("a region.push result is not stored")
            ibbs = {bi for (bi, _) in ipush}
            for (rbi, rt) in rpush:
                tgt = rt["target"]
                reach = b.reachable(tgt, ibbs) if tgt is not None else set()
                if any(b.term(x)["k"] == "return" for x in reach) or rbi in reach:
                    ok = False
                    why.append("a path from region.push (line %s) skips indices.push" % rt["line"])
            for (rbi, rt) in rpush:
                a = operand_tree(ctx, rt["args"][1])
                item_like = a == ("place", top.key, ("arg", 2), ()) or \
                    (a[0] == "call" and a[1] == ("Iterator", "next")) or \
                    (a[0] == "place" and a[2] == ("arg", 2))  # element of the iterator argument / closure parameter
                if not item_like:
                    ok = False
                    why.append("region.push(%s)" % show(a)[:80])
        if found == 0:
            R.undecided_site("R-PAIRING", top.label(), "no region.push found in the body or its closures")
            continue
        # nothing else writes indices / region
        others = [e for e in effs if e.cls in ("destructive", "clear", "assign") and
                  [x for x in self_field_targets(e, tctx) if (b.self_adt, x[0]) not in F.debug_only_fields]]
        if others:
            ok = False
            why.append("other writes: %s" % [(e.cls, e.tag[1]) for e in others])
        R.check("R-PAIRING", top.label(), ok,
                construct="every region.push result goes, unchanged, into exactly one indices.push",
                where=top.where(), detail="; ".join(why) or "%d region.push sites, each paired" % found)
    # from_iter = with_capacity + extend
    for b in fs_methods(F, "from_iter", "FromIterator"):
        R.saw(b)
        ctx = Ctx(b)
        calls = [(callee_tag(t.get("callee")), bi, t) for (bi, t) in b.calls()]
        ex = [c for c in calls if c[0] == ("Extend", "extend")]
        ok = len(ex) == 1
        why = ""
        if not ex:
            # the appending loop is written out (or came in through a private helper): the same
            # pairing as in copy/extend, on the stack that is being built
            from core import all_ctxs
            P, I = [], []
            for c2 in all_ctxs(F, b):
                for (bi, t) in c2.body.calls():
                    tg = callee_tag(t.get("callee"))
                    if tg == ("Push", "push") and len(t["args"]) == 2:
                        P.append((c2, bi, t))
                    elif tg == ("IndexContainer", "push") and len(t["args"]) == 2:
                        I.append((c2, bi, t))
            if not P and not I:
                R.undecided_site("R-PAIRING", b.label(), "from_iter neither calls extend nor pushes: how the stack is filled was not recognised")
                continue
            ok = len(P) == 1 and len(I) == 1
            if ok:
                (pc, pbi, pt), (ic, ibi, itt) = P[0], I[0]
                a = operand_tree(ic, itt["args"][1])
                rr = operand_tree(pc, pt["args"][0])
                ir = operand_tree(ic, itt["args"][0])
                r_roots = {r for (r, p) in pc.org.operand(pt["args"][0])}
                i_roots = {r for (r, p) in ic.org.operand(itt["args"][0])}
                # ... or the two receivers are the parts one FlatStack literal was built from
                one_literal = False
                if pc is ic:
                    for bi2 in pc.body.live_blocks():
                        for st2 in pc.body.blocks[bi2]["stmts"]:
                            if st2["k"] == "assign" and st2["rv"]["k"] == "aggregate" and st2["rv"].get("adt") == FS:
                                parts = set()
                                for o2 in st2["rv"]["ops"]:
                                    if o2["k"] != "const":
                                        parts |= {r for (r, p) in pc.org.operand(o2)}
                                if (r_roots & parts) and (i_roots & parts):
                                    one_literal = True
                same_stack = rr[0] == ir[0] == "place" and rr[1:3] == ir[1:3] and tuple(rr[3][:-1]) == tuple(ir[3][:-1]) or \
                    (strip_bb(rr)[:3] == strip_bb(ir)[:3]) or one_literal
                ok = pc is ic and a[0] == "call" and a[1] == ("Push", "push") and a[4] == pbi and a[3] == () and bool(same_stack)
                why = "written-out loop: indices.push(%s); same stack: %s" % (show(a)[:60], bool(same_stack))
            else:
                why = "%d region pushes vs %d index pushes" % (len(P), len(I))
            R.check("R-PAIRING", b.label(), ok, construct="from_iter = with_capacity + extend(iter)",
                    where=b.where(), detail=why)
            continue
        if ok:
            from r_lifecycle import fresh_value
            _, effs = cat.effects(b)
            a0 = ex[0][2]["args"][0]
            it = operand_tree(ctx, ex[0][2]["args"][1])
            # the stack that is extended is freshly built (FlatStack::with_capacity / default, or a
            # struct literal of fresh parts), it is extended with the whole iterator, and returned
            fresh = [fresh_value(ctx, o, effs) for o in ctx.org.operand(a0)] if a0["k"] != "const" else []
            ok_fresh = bool(fresh) and all(x[0] for x in fresh)
            ok_iter = it == ("call", ("IntoIterator", "into_iter"), (("place", b.key, ("arg", 1), ()),), (), it[4] if len(it) == 5 else None) \
                or it == ("place", b.key, ("arg", 1), ())
            ok_ret = set(ctx.org.local(0)) == set(ctx.org.operand(a0)) if a0["k"] != "const" else False
            ok = ok_fresh and ok_iter and ok_ret
            why = "fresh receiver: %s (%s); whole iterator: %s; receiver returned: %s" % (
                ok_fresh, "; ".join(x[1] for x in fresh)[:80], ok_iter, ok_ret)
        R.check("R-PAIRING", b.label(), ok, construct="from_iter = with_capacity + extend(iter)",
                where=b.where(), detail=why)


EXPECT = {
    "len": lambda b: ("call", ("Storage", "len"), (place(b, "f:indices"),), ()),
    "is_empty": lambda b: ("call", ("Storage", "is_empty"), (place(b, "f:indices"),), ()),
    "get": lambda b: ("call", ("Region", "index"), (
        place(b, "f:region"),
        ("call", ("IndexContainer", "index"), (place(b, "f:indices"), ("place", b.key, ("arg", 2), ())), ())), ()),
    "capacity": lambda b: ("call", ("Vec", "capacity"), (place(b, "f:indices"),), ()),
}


def r_delegation(F, R):
    n = 0
    for name, exp in EXPECT.items():
        for b in fs_methods(F, name):
            if b.trait is not None:
                continue
            n += 1
            R.saw(b)
            ctx = Ctx(b)
            rets = [strip_bb(tree(ctx, o)) for o in ctx.org.local(0)]
            ok = rets == [exp(b)]
            if not ok and name in ("len", "is_empty", "capacity"):
                # any measure of `indices` alone is an equivalent formulation
                from core import classify
                from r_bracket import walk
                from r_index import places_in
                ok = bool(rets)
                for t in rets:
                    ps = places_in(t)
                    if not ps or any(p != place(b, "f:indices") for p in ps):
                        ok = False
                    for nd in walk(t):
                        if nd[0] == "call" and nd[1][1] not in ("len", "is_empty", "count", "iter", "capacity"):
                            ok = False
                        if nd[0] == "bin" and nd[1] not in ("Eq",):
                            ok = False
            R.check("R-DELEGATE", b.label(), ok, construct="%s delegates with unchanged arguments" % name,
                    where=b.where(), detail="returns %s" % [show(t) for t in rets])
    # iter / into_iter: both end up as Iter{indices.iter(), &region}; one may delegate to the other
    builders = 0
    for b in fs_methods(F, "into_iter", "IntoIterator") + fs_methods(F, "iter"):
        n += 1
        R.saw(b)
        ctx = Ctx(b)
        rets = [strip_bb(tree(ctx, o)) for o in ctx.org.local(0)]
        ok = False
        why = ""
        if len(rets) == 1 and rets[0][0] == "agg" and rets[0][1] == "Iter::Iter":
            ops = rets[0][2]
            ok = ops == (("call", ("IndexContainer", "iter"), (place(b, "f:indices"),), ()), place(b, "f:region"))
            if not ok:
                # by field name (the declaration order of a private struct is free)
                for (r_, p_) in ctx.org.local(0):
                    if r_[0] == "agg" and not p_:
                        rv = ctx.org.stmt(r_[1], r_[2])["rv"]
                        names = rv.get("fields") or [f["name"] for f in F.adts["Iter"]["variants"][0]["fields"]] \
                            if "Iter" in F.adts else rv.get("fields")
                        if names and len(names) == len(ops):
                            byname = dict(zip(names, ops))
                            ok = byname.get("inner") == ("call", ("IndexContainer", "iter"), (place(b, "f:indices"),), ()) and \
                                byname.get("region") == place(b, "f:region")
            builders += ok
            why = "builds Iter{indices.iter(), &region}"
        elif len(rets) == 1 and rets[0][0] == "call" and rets[0][1][1] in ("into_iter", "iter") and \
                rets[0][2] == (place(b),):
            ok = True
            why = "delegates to %s(self)" % rets[0][1][1]
        R.check("R-DELEGATE", b.label(), ok, construct="iteration starts as Iter{indices.iter(), &region}",
                where=b.where(), detail=why or "returns %s" % [show(t) for t in rets])
    R.check("R-DELEGATE", "FlatStack iteration", builders >= 1, construct="iter()/into_iter() build the iterator",
            detail="%d of them construct Iter directly" % builders, nontrivial=False)
    # Iter::next / size_hint
    for b in [x for x in F.bodies.values() if x.self_adt == "Iter" and x.trait == "Iterator" and
              x.name in ("next", "size_hint")]:
        n += 1
        R.saw(b)
        ctx = Ctx(b)
        rets = [strip_bb(tree(ctx, o)) for o in ctx.org.local(0)]
        if b.name == "size_hint":
            def retuple(t):
                # `let (lo, hi) = x.size_hint(); (lo, hi)`: the pair taken apart and put together again
                if t[0] == "agg" and t[1] == "tuple" and t[2] and all(
                        c[0] == "call" and c[:3] == t[2][0][:3] and tuple(c[3]) == ("f:%d" % i,) for i, c in enumerate(t[2])):
                    return ("call", t[2][0][1], t[2][0][2], ())
                return t
            rets = [retuple(t) for t in rets]
            ok = rets == [("call", ("Iterator", "size_hint"), (place(b, "f:inner"),), ())]
            R.check("R-ITER", b.label(), ok, construct="size_hint = inner.size_hint()", where=b.where(),
                    detail="returns %s" % [show(t) for t in rets])
        else:
            from expr import ret_alts, nobb, NONE
            alts = [nobb(t) for t in ret_alts(ctx)]
            somes = [t for t in alts if t != NONE]
            want = ("agg", "Option::Some", (("call", ("Region", "index"), (
                place(b, "f:region"),
                ("call", ("Iterator", "next"), (place(b, "f:inner"),), ("v:Some", "f:0"))), ()),), ())
            ok = bool(somes) and all(t == want for t in somes)
            R.check("R-ITER", b.label(), ok, construct="next = inner.next().map(|i| region.index(i))",
                    where=b.where(), detail="yields %s" % [show(t) for t in somes])
    R.floor("R-DELEGATE", "FlatStack delegation instances", n, 8)
