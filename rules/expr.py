"""A3: expression trees, linear forms and dominating guards over MIR."""
from fractions import Fraction

from core import callee_tag, classify, base_places, norm_proj
from model import norm_const

CMP_OPS = {"Eq", "Ne", "Lt", "Le", "Gt", "Ge"}


def strip_ovf(op):
    for suf in ("WithOverflow", "Unchecked"):
        if op.endswith(suf):
            return op[:-len(suf)]
    return op


def tree(ctx, origin, depth=0, resolve_places=True):
    """expression tree of an origin.  Nodes:
      ('const', s) ('place', ctxid, root, path) ('call', tag, args, path, bb)
      ('bin', op, a, b) ('un', op, a) ('discr', a) ('agg', kind, ops) ('ovf', bin) ('opaque', s)
    """
    root, path = origin
    if depth > 14:
        return ("opaque", "deep")
    k = root[0]
    if k == "const":
        return ("const", norm_const(root[1]))
    if k == "arg":
        if resolve_places:
            bs = base_places(ctx, origin)
            if len(bs) == 1:
                (c, (r, p)) = next(iter(bs))
                if c is not ctx or r != root:
                    if r[0] == "arg":
                        return ("place", c.body.key, r, p)
                    return tree(c, (r, p), depth + 1)
        return ("place", ctx.body.key, root, path)
    if k == "call":
        t = ctx.body.term(root[1])
        ce = t.get("callee")
        tag = callee_tag(ce)
        if INLINE[0] and ce is not None and ce.get("local") and classify(ce) == "unclassified" and \
                depth < 10 and helper_depth(ctx) < 3:
            # a local helper the tables do not know: look at what its implementations return
            from core import candidates, ctx_chain_keys, Ctx as _Ctx
            cands = [cb for cb in candidates(ctx.body.facts, ce) if cb.key not in ctx_chain_keys(ctx)]
            if cands:
                params = {}
                for k2, a in enumerate(t["args"]):
                    s = set()
                    for o in ctx.org.operand(a):
                        s |= base_places(ctx, o)
                    params[k2 + 1] = s
                alts = set()
                for cb in cands:
                    hctx = _Ctx(cb, parent=ctx, upvars={}, params=params, site_bb=root[1])
                    for o in hctx.org.local(0):
                        for o2 in hctx.org.extend(o[0], o[1] + path):
                            alts.add(tree(hctx, o2, depth + 1))
                if len(alts) == 1:
                    return next(iter(alts))
                if alts:
                    return ("phi", tuple(sorted(alts, key=repr)))
        args = tuple(trees(ctx, ctx.org.operand(a), depth + 1) for a in t["args"])
        return ("call", tag, args, path, root[1])
    if k == "expr":
        rv = ctx.org.stmt(root[1], root[2])["rv"]
        if rv["k"] == "binop":
            op = rv["op"]
            a = trees(ctx, ctx.org.operand(rv["a"]), depth + 1)
            b = trees(ctx, ctx.org.operand(rv["b"]), depth + 1)
            node = ("bin", strip_ovf(op), a, b)
            if op.endswith("WithOverflow"):
                if path == ("f:1",):
                    return ("ovf", node)
                return node
            return node
        if rv["k"] == "unop":
            return ("un", rv["op"], trees(ctx, ctx.org.operand(rv["a"]), depth + 1))
        if rv["k"] == "discr":
            return ("discr", trees(ctx, ctx.org.place(rv["place"]), depth + 1))
        return ("opaque", rv["k"])
    if k == "agg":
        rv = ctx.org.stmt(root[1], root[2])["rv"]
        ops = tuple(trees(ctx, ctx.org.operand(o), depth + 1) for o in rv["ops"])
        kind = rv["agg"]
        if kind == "adt":
            kind = rv["adt"].split("::")[-1] + "::" + rv["variant_name"]
        return ("agg", kind, ops, path)
    if k == "counter":
        return ("counter", root[1])
    return ("opaque", repr(root))


INLINE = [False]


class inlining:
    """within this context, tree() looks into local helper functions the tables do not know
    (every implementation of a trait method, the provided default included)"""

    def __enter__(self):
        self.old = INLINE[0]
        INLINE[0] = True

    def __exit__(self, *a):
        INLINE[0] = self.old


def helper_depth(ctx):
    n = 0
    c = ctx
    while c.parent is not None:
        if c.body.kind != "Closure":
            n += 1
        c = c.parent
    return n


def trees(ctx, origins, depth=0):
    ts = {tree(ctx, o, depth) for o in origins}
    if len(ts) == 1:
        return next(iter(ts))
    return ("phi", tuple(sorted(ts, key=repr)))


def operand_tree(ctx, op):
    return trees(ctx, ctx.org.operand(op))


def place_tree(ctx, pl):
    return trees(ctx, ctx.org.place(pl))


# ---------------------------------------------------------------------------------------------
# linear forms


def lin(t):
    """linear form {term: coef} with key 1 for the constant; non-linear subtrees are opaque terms"""
    if t[0] == "const":
        try:
            return {1: Fraction(int(t[1]))}
        except ValueError:
            return {t: Fraction(1)}
    if t[0] == "bin":
        op = t[1]
        if op in ("Add", "Sub"):
            a = lin(t[2])
            b = lin(t[3])
            out = dict(a)
            s = 1 if op == "Add" else -1
            for k, v in b.items():
                out[k] = out.get(k, 0) + s * v
            return {k: v for k, v in out.items() if v != 0 or k == 1}
        if op == "Mul":
            a = lin(t[2])
            b = lin(t[3])
            if set(a) <= {1}:
                c = a.get(1, 0)
                return {k: v * c for k, v in b.items()}
            if set(b) <= {1}:
                c = b.get(1, 0)
                return {k: v * c for k, v in a.items()}
    if t[0] == "un" and t[1] in ("PtrMetadata",):
        return {("len", t[2]): Fraction(1)}
    return {t: Fraction(1)}


def lin_sub(a, b):
    out = dict(a)
    for k, v in b.items():
        out[k] = out.get(k, 0) - v
    return {k: v for k, v in out.items() if v != 0}


def lin_eq(a, b):
    return not lin_sub(a, b)


# ---------------------------------------------------------------------------------------------
# guards


def edge_dominates(body, src, dst, target):
    """edge src->dst dominates block `target`: every path from entry to target uses that edge.
    Approximated as: dst dominates target, dst's only live predecessor reaching it first is src
    (or target unreachable when the edge is removed)."""
    # remove the edge and test reachability of target
    seen = set()
    st = [0]
    while st:
        b = st.pop()
        if b in seen:
            continue
        seen.add(b)
        if b == target:
            return False
        for s in body.succs(b):
            if b == src and s == dst:
                continue
            st.append(s)
    return True


def guards(ctx, bb):
    """dominating branch facts for block bb: list of (cond_tree, value) meaning the switch
    discriminant `cond_tree` had `value` ('0', '1', ... or ('not', [values]))"""
    body = ctx.body
    out = []
    for d in sorted(body.dominators().get(bb, ())):
        t = body.term(d)
        if t["k"] == "switch":
            arms = t["arms"]
            succs = body.succs(d)
            hits = []
            for (val, tgt) in arms:
                # multiple arms may share a target
                if edge_dominates_multi(body, d, tgt, bb, [a for a in arms if a[1] == tgt], t["otherwise"]):
                    hits.append(val)
            cond = operand_tree(ctx, t["discr"])
            if hits:
                for v in hits[:1]:
                    out.append((cond, v, d))
            else:
                # the otherwise edge?
                other = t["otherwise"]
                if all(a[1] != other for a in arms) and edge_dominates(body, d, other, bb):
                    out.append((cond, ("not", tuple(a[0] for a in arms)), d))
        elif t["k"] == "assert":
            # passing an assert means cond == expected
            if d != bb:
                cond = operand_tree(ctx, t["cond"])
                out.append((cond, "1" if t["expected"] else "0", d))
    return out


def edge_dominates_multi(body, src, dst, target, same_target_arms, otherwise):
    if len(same_target_arms) != 1 or dst == otherwise:
        return False
    return edge_dominates(body, src, dst, target)


def normalise_guard(cond, value):
    """turn (cond, value) into (op, a, b) comparison facts where possible: returns list of
    ('Lt'|'Le'|'Eq'|'Ne'|'Ge'|'Gt', a_tree, b_tree) or ('truthy', tree, bool)"""
    if cond[0] == "discr":
        return [("variant", cond[1], value)]
    truth = None
    if value == "0":
        truth = False
    elif value == "1":
        truth = True
    elif isinstance(value, tuple) and value[0] == "not":
        if value[1] == ("0",):
            truth = True
        elif value[1] == ("1",):
            truth = False
    if truth is None:
        return [("switch", cond, value)]
    t = cond
    # peel Not
    while t[0] == "un" and t[1] == "Not":
        t = t[2]
        truth = not truth
    if t[0] == "bin" and t[1] in CMP_OPS:
        op = t[1]
        if not truth:
            op = {"Eq": "Ne", "Ne": "Eq", "Lt": "Ge", "Ge": "Lt", "Le": "Gt", "Gt": "Le"}[op]
        return [(op, t[2], t[3])]
    if t[0] == "ovf":
        return [("overflow", t[1], truth)]
    return [("truthy", t, truth)]


def facts_at(ctx, bb):
    out = []
    for (cond, val, d) in guards(ctx, bb):
        for f in normalise_guard(cond, val):
            out.append(f + (d,))
    return out


# ---------------------------------------------------------------------------------------------
# ordering of program points


def before(body, a, b):
    """program point a=(bb,si) strictly precedes b on every path that contains both, and b never
    precedes a"""
    (ba, ia), (bb_, ib) = a, b
    if ba == bb_:
        in_loop = ba in body.reachable_from_succs(ba) if hasattr(body, "reachable_from_succs") else False
        return ia < ib and not in_loop
    ra = reach_strict(body, ba)
    rb = reach_strict(body, bb_)
    return bb_ in ra and ba not in rb


def reach_strict(body, b):
    seen = set()
    st = list(body.succs(b))
    while st:
        x = st.pop()
        if x in seen:
            continue
        seen.add(x)
        st.extend(body.succs(x))
    return seen


def in_loop(body, b):
    return b in reach_strict(body, b)


def show(t, depth=0):
    """compact rendering of a tree"""
    k = t[0]
    if k == "const":
        return t[1]
    if k == "place":
        r = t[2]
        base = "arg%d" % r[1] if r[0] == "arg" else str(r)
        return base + "".join("." + x[2:] if x[:2] in ("f:", "v:", "u:") else x for x in t[3])
    if k == "call":
        s = "%s::%s(%s)" % (t[1][0], t[1][1], ", ".join(show(a, depth + 1) for a in t[2]))
        return s + "".join("." + x for x in t[3])
    if k == "bin":
        return "(%s %s %s)" % (show(t[2], depth + 1), t[1], show(t[3], depth + 1))
    if k == "un":
        return "%s(%s)" % (t[1], show(t[2], depth + 1))
    if k == "discr":
        return "discr(%s)" % show(t[1], depth + 1)
    if k == "agg":
        return "%s(%s)" % (t[1], ", ".join(show(a, depth + 1) for a in t[2]))
    if k == "ovf":
        return "overflow" + show(t[1], depth + 1)
    if k == "phi":
        return "phi(%s)" % ", ".join(show(a, depth + 1) for a in t[1])
    return str(t)
