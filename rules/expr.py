"""A3: expression trees, linear forms and dominating guards over MIR."""
from fractions import Fraction

from core import callee_tag, classify, base_places, norm_proj
from model import norm_const

CMP_OPS = {"Eq", "Ne", "Lt", "Le", "Gt", "Ge"}


STRIP_IDENT = {
    ("Option", "copied"), ("Option", "cloned"), ("Into", "into"), ("From", "from"),
    ("Deref", "deref"), ("DerefMut", "deref_mut"), ("AsRef", "as_ref"), ("Borrow", "borrow"),
    ("Option", "as_ref"), ("Result", "as_ref"), ("Option", "as_mut"), ("Result", "as_mut"),
    ("Clone", "clone"), ("ToOwned", "to_owned_"), ("Option", "as_deref"),
}


UNWRAP_PAYLOAD = {("Option", "unwrap"): ("v:Some", "f:0"), ("Option", "expect"): ("v:Some", "f:0"),
                  ("Result", "unwrap"): ("v:Ok", "f:0"), ("Result", "expect"): ("v:Ok", "f:0")}


AGG_FIELDS = {}  # "Type::Variant" -> field names in declaration order (filled when facts are loaded)


def tproj(t, path):
    """the sub-value of tree t at projection path"""
    path = tuple(path)
    if not path:
        return t
    k = t[0]
    if k == "place":
        return ("place", t[1], t[2], tuple(t[3]) + path)
    if k == "call":
        full = tuple(t[3]) + path
        tag, args = t[1], t[2]
        # payload normalisations that also apply when the projection is added later
        if args and tuple(full[:2]) == ("v:Ok", "f:0") and tag in (("Option", "ok_or"), ("Option", "ok_or_else")):
            return tproj(args[0], ("v:Some", "f:0") + full[2:])
        if args and tuple(full[:2]) == ("v:Some", "f:0") and tag in (("Result", "err"), ("Result", "ok")):
            return tproj(args[0], (("v:Err" if tag[1] == "err" else "v:Ok"), "f:0") + full[2:])
        return ("call", t[1], t[2], full) + tuple(t[4:5])  # (block ids are absent from normalised trees)
    if k == "agg":
        # project into the aggregate where possible
        step = path[0]
        if step.startswith("v:"):
            return tproj(t, path[1:]) if t[1].endswith("::" + step[2:]) or "::" not in t[1] else ("proj", t, path)
        if step.startswith("f:") and step[2:].isdigit() and int(step[2:]) < len(t[2]):
            return tproj(t[2][int(step[2:])], path[1:])
        if step.startswith("f:") and not step[2:].isdigit():
            names = AGG_FIELDS.get(t[1])
            if names and step[2:] in names and names.index(step[2:]) < len(t[2]):
                return tproj(t[2][names.index(step[2:])], path[1:])
        if step.startswith("u:") and int(step[2:]) < len(t[2]):
            return tproj(t[2][int(step[2:])], path[1:])
        return ("proj", t, path)
    if k == "phi":
        alts = tuple(tproj(x, path) for x in t[1])
        # the payload of one variant projected out of an aggregate of *another* variant
        # (`Some`'s field of a `None`) does not exist: such an alternative is infeasible
        live = tuple(a for a in alts if not _dead_proj(a))
        if live and len(live) < len(alts):
            return live[0] if len(live) == 1 else ("phi", live)
        return ("phi", alts)
    if k == "proj":
        return ("proj", t[1], tuple(t[2]) + path)
    return ("proj", t, path)


def _dead_proj(t):
    if not (isinstance(t, tuple) and t and t[0] == "proj" and t[1][0] == "agg" and "::" in str(t[1][1]) and t[2]):
        return False
    if str(t[2][0]).startswith("v:") and not str(t[1][1]).endswith("::" + str(t[2][0])[2:]):
        return True
    # a field of a unit variant (`None`'s payload)
    return str(t[2][0]).startswith("f:") and len(t[1][2]) == 0


def _const_int(t):
    if t[0] == "const":
        try:
            return int(t[1])
        except ValueError:
            return None
    if t[0] == "un" and t[1] == "Not" and t[2][0] == "const":
        try:
            return (1 << 64) - 1 - int(t[2][1])
        except ValueError:
            return None
    return None


def _pow2(n):
    return n >= 2 and (n & (n - 1)) == 0


def canon_bits(node):
    """unsigned bit tricks in their arithmetic spelling, so that `x & 7` and `x % 8`, `x & !7`,
    `x / 8 * 8` and `x - x % 8` are one expression to every rule:
      x & (2^k - 1)  (k >= 2)  ->  x % 2^k
      x & !(2^k - 1)           ->  x - x % 2^k
      (x / c) * c              ->  x - x % c
      x >> k  (constant k)     ->  x / 2^k"""
    op, a, b = node[1], node[2], node[3]
    if op == "BitAnd":
        for (x, c) in ((a, b), (b, a)):
            ci = _const_int(c)
            if ci is None:
                continue
            if ci >= 3 and _pow2(ci + 1):
                return ("bin", "Rem", x, ("const", str(ci + 1)))
            inv = (1 << 64) - ci
            if ci >= (1 << 63) and _pow2(inv):
                return ("bin", "Sub", x, ("bin", "Rem", x, ("const", str(inv))))
    if op == "Shr":
        k = _const_int(b)
        if k is not None and 0 < k < 64:
            return ("bin", "Div", a, ("const", str(1 << k)))  # x >> k = x / 2^k (unsigned)
    if op == "Mul":
        for (x, c) in ((a, b), (b, a)):
            if c[0] == "const" and x[0] == "bin" and x[1] == "Div" and x[3] == c:
                return ("bin", "Sub", x[2], ("bin", "Rem", x[2], c))
    return node


def strip_ovf(op):
    for suf in ("WithOverflow", "Unchecked"):
        if op.endswith(suf):
            return op[:-len(suf)]
    return op


def tree(ctx, origin, depth=0, resolve_places=True):
    """expression tree of an origin.  Nodes:
      ('const', s) ('place', ctxid, root, path) ('call', tag, args, path, bb)
      ('bin', op, a, b) ('un', op, a) ('discr', a) ('agg', kind, ops) ('ovf', bin) ('opaque', s)
    """
    root, path = origin
    if depth > 14:
        return ("opaque", "deep")
    k = root[0]
    if k == "const":
        return ("const", norm_const(root[1]))
    if k == "arg":
        if resolve_places:
            bs = base_places(ctx, origin)
            if len(bs) == 1:
                (c, (r, p)) = next(iter(bs))
                if c is not ctx or r != root:
                    if r[0] == "arg":
                        return ("place", c.body.key, r, p)
                    return tree(c, (r, p), depth + 1)
        return ("place", ctx.body.key, root, path)
    if k == "call":
        t = ctx.body.term(root[1])
        ce = t.get("callee")
        tag = callee_tag(ce)
        if INLINE[0] and ce is not None and ce.get("local") and classify(ce) == "unclassified" and \
                depth < 10 and helper_depth(ctx) < 3:
            # a local helper the tables do not know: look at what its implementations return
            from core import candidates, ctx_chain_keys, Ctx as _Ctx
            cands = [cb for cb in candidates(ctx.body.facts, ce) if cb.key not in ctx_chain_keys(ctx)]
            if cands:
                params = {}
                for k2, a in enumerate(t["args"]):
                    s = set()
                    for o in ctx.org.operand(a):
                        s |= base_places(ctx, o)
                    params[k2 + 1] = s
                alts = set()
                for cb in cands:
                    hctx = _Ctx(cb, parent=ctx, upvars={}, params=params, site_bb=root[1])
                    for o in hctx.org.local(0):
                        for o2 in hctx.org.extend(o[0], o[1] + path):
                            alts.add(tree(hctx, o2, depth + 1))
                if len(alts) == 1:
                    return next(iter(alts))
                if alts:
                    return ("phi", tuple(sorted(alts, key=repr)))
        args = tuple(trees(ctx, ctx.org.operand(a), depth + 1) for a in t["args"])
        if tag in STRIP_IDENT and args:
            # value-preserving wrapper: the result denotes the same abstract value as its argument
            return tproj(args[0], path)
        if tag in (("Result", "err"), ("Result", "ok")) and args and tuple(path[:2]) == ("v:Some", "f:0"):
            # res.err() is Some(e) exactly when res is Err(e): its payload is the Err payload
            return tproj(args[0], (("v:Err" if tag[1] == "err" else "v:Ok"), "f:0") + tuple(path[2:]))
        if tag in (("Option", "ok_or"), ("Option", "ok_or_else")) and args and tuple(path[:2]) == ("v:Ok", "f:0"):
            # opt.ok_or(e) is Ok(v) exactly when opt is Some(v)
            return tproj(args[0], ("v:Some", "f:0") + tuple(path[2:]))
        if tag in UNWRAP_PAYLOAD and args:
            # the value of opt.unwrap() / res.expect(..) is the Some / Ok payload (it panics otherwise)
            return tproj(args[0], UNWRAP_PAYLOAD[tag] + tuple(path))
        if tag == ("Try", "branch") and args and path[:2] == ("v:Continue", "f:0"):
            aty = ""
            a0 = t["args"][0]
            if a0["k"] in ("copy", "move"):
                aty = ctx.body.locals[a0["place"]["l"]]["ty"]["peeled"]
            ok = "v:Ok" if "result::Result" in aty else "v:Some"
            return tproj(args[0], (ok, "f:0") + tuple(path[2:]))
        return ("call", tag, args, path, root[1])
    if k == "expr":
        rv = ctx.org.stmt(root[1], root[2])["rv"]
        if rv["k"] == "binop":
            op = rv["op"]
            a = trees(ctx, ctx.org.operand(rv["a"]), depth + 1)
            b = trees(ctx, ctx.org.operand(rv["b"]), depth + 1)
            node = canon_bits(("bin", strip_ovf(op), a, b))
            if op.endswith("WithOverflow"):
                if path == ("f:1",):
                    return ("ovf", node)
                return node
            return node
        if rv["k"] == "unop":
            return ("un", rv["op"], trees(ctx, ctx.org.operand(rv["a"]), depth + 1))
        if rv["k"] == "discr":
            return ("discr", trees(ctx, ctx.org.place(rv["place"]), depth + 1))
        return ("opaque", rv["k"])
    if k == "agg":
        rv = ctx.org.stmt(root[1], root[2])["rv"]
        ops = tuple(trees(ctx, ctx.org.operand(o), depth + 1) for o in rv["ops"])
        kind = rv["agg"]
        if kind == "adt":
            kind = rv["adt"].split("::")[-1] + "::" + rv["variant_name"]
        elif kind == "closure":
            kind = "closure:" + rv["closure"]
        return tproj(("agg", kind, ops, ()), path) if path else ("agg", kind, ops, ())
    if k == "counter":
        return ("counter", root[1])
    return ("opaque", repr(root))


INLINE = [False]


class inlining:
    """within this context, tree() looks into local helper functions the tables do not know
    (every implementation of a trait method, the provided default included)"""

    def __enter__(self):
        self.old = INLINE[0]
        INLINE[0] = True

    def __exit__(self, *a):
        INLINE[0] = self.old


def helper_depth(ctx):
    n = 0
    c = ctx
    while c.parent is not None:
        if c.body.kind != "Closure":
            n += 1
        c = c.parent
    return n


def trees(ctx, origins, depth=0):
    ts = {tree(ctx, o, depth) for o in origins}
    if len(ts) > 1:
        live = {t for t in ts if not _dead_proj(t)}
        if live:
            ts = live
    if len(ts) == 1:
        return next(iter(ts))
    return ("phi", tuple(sorted(ts, key=repr)))


def operand_tree(ctx, op):
    return trees(ctx, ctx.org.operand(op))


def place_tree(ctx, pl):
    return trees(ctx, ctx.org.place(pl))


# ---------------------------------------------------------------------------------------------
# linear forms


def lin(t):
    """linear form {term: coef} with key 1 for the constant; non-linear subtrees are opaque terms"""
    if t[0] == "const":
        try:
            return {1: Fraction(int(t[1]))}
        except ValueError:
            return {t: Fraction(1)}
    if t[0] == "bin":
        op = t[1]
        if op in ("Add", "Sub"):
            a = lin(t[2])
            b = lin(t[3])
            out = dict(a)
            s = 1 if op == "Add" else -1
            for k, v in b.items():
                out[k] = out.get(k, 0) + s * v
            return {k: v for k, v in out.items() if v != 0 or k == 1}
        if op == "Mul":
            a = lin(t[2])
            b = lin(t[3])
            if set(a) <= {1}:
                c = a.get(1, 0)
                return {k: v * c for k, v in b.items()}
            if set(b) <= {1}:
                c = b.get(1, 0)
                return {k: v * c for k, v in a.items()}
    if t[0] == "un" and t[1] in ("PtrMetadata",):
        return {("len", t[2]): Fraction(1)}
    if t[0] == "call" and t[1][1] in ("checked_sub", "wrapping_sub", "saturating_sub") and len(t[2]) == 2 and \
            tuple(t[3]) in (("v:Some", "f:0"), ()):
        # a - b (checked_sub's payload exists only when a >= b)
        return lin(("bin", "Sub", t[2][0], t[2][1]))
    return {t: Fraction(1)}


def lin_sub(a, b):
    out = dict(a)
    for k, v in b.items():
        out[k] = out.get(k, 0) - v
    return {k: v for k, v in out.items() if v != 0}


def lin_eq(a, b):
    return not lin_sub(a, b)


# ---------------------------------------------------------------------------------------------
# guards


def edge_dominates(body, src, dst, target):
    """edge src->dst dominates block `target`: every path from entry to target uses that edge.
    Approximated as: dst dominates target, dst's only live predecessor reaching it first is src
    (or target unreachable when the edge is removed)."""
    # remove the edge and test reachability of target
    seen = set()
    st = [0]
    while st:
        b = st.pop()
        if b in seen:
            continue
        seen.add(b)
        if b == target:
            return False
        for s in body.succs(b):
            if b == src and s == dst:
                continue
            st.append(s)
    return True


FLAG_META = {}  # (body key, guard block) -> {"kills": set of blocks}


def _chase_flag(ctx, op, parity=0, depth=0):
    """follow a switch discriminant through single-definition temporaries (copies, `!x`) to a
    bool local with several plain definitions: (local, parity of negations) or None"""
    body = ctx.body
    if op["k"] not in ("copy", "move") or op["place"]["p"] or depth > 6:
        return None
    l = op["place"]["l"]
    defs = [d_ for d_ in ctx.org.defs.get(l, ()) if d_[0] == () and not d_[3]]
    if not defs:
        return None
    if len(defs) == 1:
        if defs[0][1] != "stmt":
            return None
        rv = ctx.org.stmt(*defs[0][2])["rv"]
        if rv["k"] == "use":
            return _chase_flag(ctx, rv["op"], parity, depth + 1)
        if rv["k"] == "unop" and rv.get("op") == "Not":
            return _chase_flag(ctx, rv["a"], parity + 1, depth + 1)
        return None
    if body.locals[l]["ty"]["s"] != "bool" or any(d_[1] != "stmt" for d_ in defs):
        return None
    return (l, parity % 2, defs)


def _flag_guard(ctx, d, t, hits, arms):
    """A cached flag `let mut f = e(); loop { if f {..} else {.. x.push(); f = true; } }`: on the
    branch where the flag has the value that no constant assignment gives it, the flag still
    equals e() as evaluated at its last (re)computation -- provided the state e() reads was not
    written since on a path that keeps the flag at that value.  Returns the collapsed condition
    tree (and records where such paths end) or None."""
    body = ctx.body
    ch = _chase_flag(ctx, t["discr"])
    if ch is None:
        return None
    (l, parity, defs) = ch
    if hits:
        dval = hits[0]
    else:
        dval = "other"
    if dval not in ("0", "1"):
        if not hits and len(arms) == 1 and arms[0][0] in ("0", "1"):
            dval = "1" if arms[0][0] == "0" else "0"
        else:
            return None
    flag_truth = (dval == "1") != bool(parity)   # value of the flag local on this edge
    consts = []
    exprs = []
    for d_ in defs:
        bi, si = d_[2]
        rv = ctx.org.stmt(bi, si)["rv"]
        if rv["k"] == "use" and rv["op"]["k"] == "const" and rv["op"].get("int") in ("0", "1"):
            consts.append((bi, rv["op"]["int"] == "1"))
        else:
            exprs.append(tree(ctx, (("expr", bi, si), ())) if rv["k"] not in ("use", "cast") else
                         trees(ctx, ctx.org.rvalue(rv, bi, si)))
    if not exprs or not consts or any(v == flag_truth for (_, v) in consts):
        return None
    exprs = [collapse_phi(ctx, e) for e in exprs]
    if any(nobb(e) != nobb(exprs[0]) for e in exprs[1:]):
        return None
    bbs = set()
    for e in exprs:
        for nd in _calls_of(e):
            bbs.add(nd[4])
    for nd in _calls_of(exprs[0]):
        EVAL_MERGE.setdefault((body.key, nd[4]), set()).update(bbs)
    kills = {bi for (bi, _) in consts}
    # the other arm of every branch on the same flag: the flag has the opposite value there and
    # only a re-computation (an evaluation point) or nothing brings it back
    for s_ in body.live_blocks():
        st = body.term(s_)
        if st["k"] != "switch":
            continue
        ch2 = _chase_flag(ctx, st["discr"])
        if ch2 is None or ch2[0] != l:
            continue
        for (v, tgt) in list(st["arms"]) + [("other", st["otherwise"])]:
            if v == "other":
                vs = [a[0] for a in st["arms"]]
                if vs == ["0"]:
                    v = "1"
                elif vs == ["1"]:
                    v = "0"
                else:
                    continue
            if v not in ("0", "1") or tgt is None:
                continue
            truth2 = (v == "1") != bool(ch2[1])
            if truth2 != flag_truth and all(p_ == s_ for p_ in body.live_blocks() if tgt in body.succs(p_)):
                kills.add(tgt)
    FLAG_META[(body.key, d)] = {"kills": kills}
    # present the condition so that `value` (of the discriminant) keeps its meaning
    out = exprs[0]
    if parity:
        out = ("un", "Not", out)
    return out


def guards(ctx, bb):
    """dominating branch facts for block bb: list of (cond_tree, value) meaning the switch
    discriminant `cond_tree` had `value` ('0', '1', ... or ('not', [values]))"""
    body = ctx.body
    out = []
    for d in sorted(body.dominators().get(bb, ())):
        t = body.term(d)
        if t["k"] == "switch":
            arms = t["arms"]
            succs = body.succs(d)
            hits = []
            for (val, tgt) in arms:
                # multiple arms may share a target
                if edge_dominates_multi(body, d, tgt, bb, [a for a in arms if a[1] == tgt], t["otherwise"]):
                    hits.append(val)
            _FACTS[0] = ctx.body.facts
            cond = simplify_cond(ctx, collapse_phi(ctx, operand_tree(ctx, t["discr"])))
            dty = t.get("discr_ty", "bool")
            fl = _flag_guard(ctx, d, t, hits, arms) if dty == "bool" else None
            if fl is not None:
                cond = fl
            if hits:
                for v in hits[:1]:
                    out.append((cond, v, d, dty))
            else:
                # the otherwise edge?
                other = t["otherwise"]
                if all(a[1] != other for a in arms) and edge_dominates(body, d, other, bb):
                    out.append((cond, ("not", tuple(a[0] for a in arms)), d, dty))
        elif t["k"] == "assert":
            # passing an assert means cond == expected
            if d != bb:
                cond = operand_tree(ctx, t["cond"])
                out.append((cond, "1" if t["expected"] else "0", d, "bool"))
    return out


def edge_dominates_multi(body, src, dst, target, same_target_arms, otherwise):
    if len(same_target_arms) != 1 or dst == otherwise:
        return False
    return edge_dominates(body, src, dst, target)


def _boolish(t):
    """the tree denotes a bool (comparison, negation, bool-returning call) rather than an integer"""
    if t[0] == "bin":
        return t[1] in CMP_OPS or t[1] in ("BitAnd", "BitOr", "BitXor") and _boolish(t[2])
    if t[0] == "un":
        return t[1] == "Not" and _boolish(t[2])
    if t[0] in ("call", "place", "ovf", "phi", "const"):
        return t[0] != "const" or t[1] in ("true", "false")
    return True


_FACTS = [None]


def simplify_cond(ctx, cond):
    """a branch condition that is a projection out of a combinator result (`opt.map(|i| (i, a == b))`
    matched as `Some((i, true))`) is the closure's own expression"""
    if cond[0] == "call" and cond[3] and cond[1][0] in ("Option", "Result", "bool"):
        alts = [x for x in expand(ctx.body.facts, cond) if x != NONE]
        if len(alts) == 1 and alts[0] != cond:
            return alts[0]
    if cond[0] == "un" and cond[1] == "Not":
        inner = simplify_cond(ctx, cond[2])
        if inner is not cond[2]:
            return ("un", "Not", inner)
    return cond


def normalise_guard(cond, value, dty="bool"):
    """turn (cond, value) into (op, a, b) comparison facts where possible: returns list of
    ('Lt'|'Le'|'Eq'|'Ne'|'Ge'|'Gt', a_tree, b_tree) or ('truthy', tree, bool)"""
    if cond[0] == "discr":
        inner = cond[1]
        if inner[0] == "call" and inner[1][1] == "checked_sub" and len(inner[2]) == 2 and not inner[3]:
            some = value == "1" or (isinstance(value, tuple) and value[0] == "not" and "0" in value[1])
            none = value == "0" or (isinstance(value, tuple) and value[0] == "not" and "1" in value[1])
            if some:
                return [("Ge", inner[2][0], inner[2][1]), ("variant", inner, value)]
            if none:
                return [("Lt", inner[2][0], inner[2][1]), ("variant", inner, value)]
        out = [("variant", cond[1], value)]
        # the discriminant of a payload projected out of a combinator result
        # (`match opt.map(|t| table.get(t)) { Some(Slot::Vacant) => .. }`) is the discriminant of
        # what the closure returned
        if inner[0] == "call" and inner[3] and inner[1][0] in ("Option", "Result") and _FACTS[0] is not None:
            alts = [x for x in expand(_FACTS[0], inner) if x != NONE]
            if len(alts) == 1 and alts[0] != inner and alts[0][0] in ("call", "place"):
                out.extend(f_ for f_ in normalise_guard(("discr", alts[0]), value, dty) if f_ not in out)
        # `x?` on an Option: Continue exactly when x is Some, Break exactly when it is None
        if inner[0] == "call" and inner[1] == ("Try", "branch") and inner[2] and not inner[3]:
            xx = inner[2][0]
            if xx[0] == "call" and (xx[1][0] == "Option" or xx[1][1] in OPTION_RETURNING) and not xx[3]:
                cont = value == "0" or (isinstance(value, tuple) and value[0] == "not" and "1" in value[1])
                brk = value == "1" or (isinstance(value, tuple) and value[0] == "not" and "0" in value[1])
                if cont or brk:
                    out.extend(normalise_guard(("discr", xx), "1" if cont else "0", dty))
                    return out
        # `c.then(|| ..)` / `c.then_some(..)` (possibly `.flatten()`ed) is Some only when c held
        x = inner
        some = value == "1" or (isinstance(value, tuple) and value[0] == "not" and "0" in value[1] and "1" not in value[1])
        # x.and_then(f) / x.map(f) / x.filter(p) / x.flatten() / views are Some only when x is
        while x[0] == "call" and not x[3] and x[2] and (
                x[1] in (("Option", "flatten"),) or
                (some and x[1][0] == "Option" and x[1][1] in ("and_then", "map", "filter", "as_ref", "as_mut", "as_deref",
                                                                "copied", "cloned", "inspect", "zip", "take_if"))):
            if x[1] == ("Option", "filter"):
                break  # handled below (its own predicate fact), after which the receiver is Some too
            if some and x[1] != ("Option", "flatten"):
                out.append(("variant", x[2][0], "1"))
            x = x[2][0]
        # x.map(f) / views are None exactly when x is
        none_ = value == "0" or (isinstance(value, tuple) and value[0] == "not" and "1" in value[1] and "0" not in value[1])
        y = inner
        while none_ and y[0] == "call" and not y[3] and y[2] and y[1][0] == "Option" and \
                y[1][1] in ("map", "as_ref", "as_mut", "as_deref", "copied", "cloned", "inspect"):
            out.extend(f_ for f_ in normalise_guard(("discr", y[2][0]), "0", dty) if f_ not in out)
            y = y[2][0]
        if x[0] == "call" and x[1] in (("bool", "then"), ("bool", "then_some")) and x[2] and not x[3]:
            if some:
                out.extend(normalise_guard(x[2][0], "1", "bool"))
        if x[0] == "call" and x[1] == ("Option", "filter") and len(x[2]) == 2 and not x[3] and some and _FACTS[0] is not None:
            # opt.filter(p) is Some(v) only when p(&v) held
            pay = tproj(x[2][0], ("v:Some", "f:0"))
            rs = apply_fn(_FACTS[0], x[2][1], [pay])
            if len(rs) == 1:
                out.extend(normalise_guard(next(iter(rs)), "1", "bool"))
        return out
    truth = None
    if value == "0":
        truth = False
    elif value == "1":
        truth = True
    elif isinstance(value, tuple) and value[0] == "not":
        if value[1] == ("0",):
            truth = True
        elif value[1] == ("1",):
            truth = False
    if truth is None or dty != "bool":
        # integer-valued switch: arm v means cond == v, otherwise means cond != each listed value
        if isinstance(value, str) and value.lstrip("-").isdigit():
            return [("Eq", cond, ("const", value))]
        if isinstance(value, tuple) and value[0] == "not":
            return [("Ne", cond, ("const", v)) for v in value[1]]
        return [("switch", cond, value)]
    t = cond
    # peel Not
    while t[0] == "un" and t[1] == "Not":
        t = t[2]
        truth = not truth
    if t[0] == "bin" and t[1] in CMP_OPS:
        op = t[1]
        if not truth:
            op = {"Eq": "Ne", "Ne": "Eq", "Lt": "Ge", "Ge": "Lt", "Le": "Gt", "Gt": "Le"}[op]
        return [(op, t[2], t[3])]
    if t[0] == "ovf":
        return [("overflow", t[1], truth)]
    return [("truthy", t, truth)]


OPTION_RETURNING = {"first", "last", "get", "get_mut", "next", "next_back", "nth", "pop", "peek", "find", "position",
                    "checked_sub", "checked_add", "checked_mul", "checked_div", "split_first", "split_last",
                    "first_mut", "last_mut", "strip_prefix", "strip_suffix", "max", "min", "copied", "cloned"}
OPTION_CLOSURE_VARIANT = {("Option", "or_else"): "0", ("Option", "unwrap_or_else"): "0",
                          ("Option", "map"): "1", ("Option", "and_then"): "1"}
# (consumer, argument position of the closure) -> variant of the receiver under which it runs
CLOSURE_RUNS_WHEN = {(("Option", "or_else"), 1): "0", (("Option", "unwrap_or_else"), 1): "0",
                     (("Option", "map"), 1): "1", (("Option", "and_then"), 1): "1",
                     (("Option", "map_or_else"), 1): "0", (("Option", "map_or_else"), 2): "1",
                     (("Option", "map_or"), 2): "1", (("Option", "is_some_and"), 1): "1",
                     (("Option", "filter"), 1): "1", (("Option", "inspect"), 1): "1",
                     (("Option", "ok_or_else"), 1): "0", (("Option", "get_or_insert_with"), 1): "0"}


def edge_facts(ctx, s):
    """[(target block, [facts])] for the outgoing edges of switch block s: what taking that very
    edge says about the discriminant (a fact that holds on an edge into a join block is held by no
    block, so path rules that avoid `good` blocks need the edges as well)"""
    body = ctx.body
    t = body.term(s)
    if t["k"] != "switch":
        return []
    _FACTS[0] = body.facts
    cond = simplify_cond(ctx, collapse_phi(ctx, operand_tree(ctx, t["discr"])))
    dty = t.get("discr_ty", "bool")
    out = []
    for (val, tgt) in t["arms"]:
        out.append((tgt, [f + (s,) for f in normalise_guard(cond, val, dty)]))
    if t["otherwise"] is not None:
        out.append((t["otherwise"], [f + (s,) for f in normalise_guard(cond, ("not", tuple(a[0] for a in t["arms"])), dty)]))
    return out


def reachable_avoiding(body, frm, bad_blocks, bad_edges):
    """blocks reachable from frm without entering bad_blocks and without taking bad_edges"""
    seen = set()
    st = [frm] if frm not in bad_blocks else []
    while st:
        x = st.pop()
        if x in seen:
            continue
        seen.add(x)
        for y in body.succs(x):
            if y in bad_blocks or (x, y) in bad_edges:
                continue
            st.append(y)
    return seen


_UNWRAP_SRC = {}


def try_sites(ctx):
    """[(call block, Continue-arm block, Break-arm block, blocks that build the Err / None the
    operand may be)] for every `x?` of the body.  A path through a block that builds the Err
    cannot take the Continue arm, and the Break arm is the refusal: it returns the error."""
    body = ctx.body
    out = []
    for (bi, t) in body.calls():
        if callee_tag(t.get("callee")) != ("Try", "branch") or len(t["args"]) != 1 or t.get("target") is None:
            continue
        tb = t["target"]
        tt = body.term(tb)
        if tt["k"] != "switch" or tt["discr"]["k"] not in ("copy", "move"):
            continue
        dl = tt["discr"]["place"]["l"]
        if not any(st["k"] == "assign" and st["place"]["l"] == dl and st["rv"]["k"] == "discr" and
                   st["rv"]["place"]["l"] == t["dest"]["l"] and not st["rv"]["place"]["p"] for st in body.blocks[tb]["stmts"]):
            continue
        cont = [tg for (v, tg) in tt["arms"] if v == "0"]
        brk = [tg for (v, tg) in tt["arms"] if v == "1"] or ([tt["otherwise"]] if tt.get("otherwise") is not None else [])
        if not cont or not brk or t["args"][0]["k"] == "const":
            continue
        errs = set()
        for (r, p) in ctx.org.operand(t["args"][0]):
            if r[0] == "agg" and not p:
                rv = ctx.org.stmt(r[1], r[2])["rv"]
                if rv.get("variant_name") in ("Err", "None"):
                    errs.add(r[1])
        out.append((bi, cont[0], brk[0], errs))
    return out


def _unwrap_sources(ctx):
    """[(block of the unwrapping call, block in which the only Some/Ok alternative is built)]"""
    body = ctx.body
    key = body.key
    hit = _UNWRAP_SRC.get(key)
    if hit is not None and hit[0] is body:
        return hit[1]
    out = []
    for (bi, t) in body.calls():
        tag = callee_tag(t.get("callee"))
        ok = tag in UNWRAP_PAYLOAD
        if not ok and tag in (("Option", "unwrap_or_else"), ("Result", "unwrap_or_else")) and len(t["args"]) == 2:
            # the fallback closure never returns
            for (r, p) in ctx.org.operand(t["args"][1]):
                if r[0] == "agg":
                    rv = ctx.org.stmt(r[1], r[2])["rv"]
                    cb = body.facts.body(rv.get("closure")) if rv.get("agg") == "closure" else None
                    if cb is not None and not cb.return_blocks():
                        ok = True
        via_try = None
        if not ok and tag == ("Try", "branch") and len(t["args"]) == 1 and t.get("target") is not None:
            # `x?`: past the Continue edge x was Ok / Some
            tb = t["target"]
            tt = body.term(tb)
            if tt["k"] == "switch" and tt["discr"]["k"] in ("copy", "move"):
                dl = tt["discr"]["place"]["l"]
                if any(st["k"] == "assign" and st["place"]["l"] == dl and st["rv"]["k"] == "discr" and
                       st["rv"]["place"]["l"] == t["dest"]["l"] and not st["rv"]["place"]["p"] for st in body.blocks[tb]["stmts"]):
                    cont = [tg for (v, tg) in tt["arms"] if v == "0"]
                    if cont and len(body.preds(cont[0])) == 1:
                        via_try = cont[0]
                        ok = True
        if not ok or not t["args"] or t["args"][0]["k"] == "const":
            continue
        somes, others = [], 0
        for (r, p) in ctx.org.operand(t["args"][0]):
            if r[0] == "agg" and not p:
                rv = ctx.org.stmt(r[1], r[2])["rv"]
                vn = rv.get("variant_name")
                if vn in ("Some", "Ok"):
                    somes.append(r[1])
                elif vn in ("None", "Err"):
                    others += 1
                else:
                    somes = None
                    break
            else:
                somes = None
                break
        if somes and len(somes) == 1 and others >= 1:
            out.append((bi, somes[0]) if via_try is None else (via_try, somes[0], True))
    _UNWRAP_SRC[key] = (body, out)
    if len(_UNWRAP_SRC) > 4000:
        _UNWRAP_SRC.clear()
    return out


def facts_at(ctx, bb, _depth=0):
    """dominating branch facts of block bb; a closure body additionally inherits the facts that
    hold where the parent hands it to its consumer (and what the consumer itself guarantees:
    `cond.then(|| ..)` runs the closure only when cond is true)"""
    out = []
    for (cond, val, d, dty) in guards(ctx, bb):
        for f in normalise_guard(cond, val, dty):
            out.append(f + (d,))
    # value-based refinement: past `x.unwrap()` / `x.expect(..)` / `x.unwrap_or_else(|| panic!(..))`
    # the value was Some; when x is `if c { Some(v) } else { None }` built in two places, that
    # means the place that built the Some ran, and the facts it was built under held
    for ent in _unwrap_sources(ctx):
        d, b1 = ent[0], ent[1]
        if (d != bb or len(ent) > 2) and ctx.body.dominates(d, bb):
            for (cond, val, d1, dty) in guards(ctx, b1):
                for f in normalise_guard(cond, val, dty):
                    if f + (d1,) not in out:
                        out.append(f + (d1,))
    if ctx.parent is not None and _depth < 4 and ctx.body.kind == "Closure":
        pb = ctx.consumer[0] if ctx.consumer else ctx.site_bb
        if pb is not None:
            for f in facts_at(ctx.parent, pb, _depth + 1):
                out.append(f[:-1] + (("parent", f[-1]),))
            if ctx.consumer and ctx.consumer[1] in (("bool", "then"),):
                t = ctx.parent.body.term(pb)
                cond = operand_tree(ctx.parent, t["args"][0])
                for f in normalise_guard(cond, "1", "bool"):
                    out.append(f + (("parent", pb),))
            elif ctx.consumer and (ctx.consumer[1], ctx.consumer[2] if len(ctx.consumer) >= 3 else 1) in CLOSURE_RUNS_WHEN:
                # opt.or_else(|| ..) runs the closure only when opt is None; opt.map(|x| ..) only
                # when it is Some; opt.map_or_else(d, f) runs d when None and f when Some
                t = ctx.parent.body.term(pb)
                recv = operand_tree(ctx.parent, t["args"][0])
                val = CLOSURE_RUNS_WHEN[(ctx.consumer[1], ctx.consumer[2] if len(ctx.consumer) >= 3 else 1)]
                _FACTS[0] = ctx.body.facts
                for f in normalise_guard(("discr", recv), val, "isize"):
                    out.append(f + (("parent", pb),))
    return out


# ---------------------------------------------------------------------------------------------
# infeasible blocks: two dominating branch facts that exclude each other

_REL = {"Lt": {"<"}, "Le": {"<", "="}, "Eq": {"="}, "Ne": {"<", ">"}, "Ge": {">", "="}, "Gt": {">"}}
_FLIP = {"<": ">", ">": "<", "=": "="}


def _has_kind(t, kinds):
    if isinstance(t, tuple):
        if t and t[0] in kinds:
            return True
        return any(_has_kind(x, kinds) for x in t if isinstance(x, tuple))
    return False


def _tree_roots(t, out):
    """(root, path) of every place node in t"""
    if isinstance(t, tuple):
        if t and t[0] == "place" and len(t) >= 4:
            out.add((t[2], tuple(t[3])))
        else:
            for x in t:
                if isinstance(x, tuple):
                    _tree_roots(x, out)
    return out


def _overlaps(places, r, p):
    for (r2, p2) in places:
        if r2 == r:
            k = min(len(p), len(p2))
            if tuple(p[:k]) == tuple(p2[:k]):
                return True
    return False


def _exclusive(f, g):
    if f[0] in _REL and g[0] in _REL:
        if f[1] == g[1] and f[2] == g[2]:
            return not (_REL[f[0]] & _REL[g[0]])
        if f[1] == g[2] and f[2] == g[1]:
            return not (_REL[f[0]] & {_FLIP[x] for x in _REL[g[0]]})
        return False
    if f[0] == "truthy" and g[0] == "truthy":
        return f[1] == g[1] and f[2] != g[2]
    if f[0] == "variant" and g[0] == "variant" and f[1] == g[1]:
        a, b = f[2], g[2]
        if isinstance(a, str) and isinstance(b, str):
            return a != b
        if isinstance(a, str) and isinstance(b, tuple) and b[0] == "not":
            return a in b[1]
        if isinstance(b, str) and isinstance(a, tuple) and a[0] == "not":
            return b in a[1]
    return False


def mutated_between(ctx, d1, bb, places, stops=(), include_start=True, ignore=None):
    """some block on a path d1 -> bb may write one of `places` ((root, path) pairs; a write to a
    prefix or an extension of a path counts): an assignment through a projection, or a call that
    is handed a `&mut` into it.  Paths that come back to d1 or run into one of `stops` are not
    followed (the tested value is re-evaluated there).  With include_start the statements of d1
    itself count (d1 is a branch block); without, d1 is the call that evaluated the value."""
    body = ctx.body
    stops = set(stops) | {d1}
    fwd = set()
    st_ = [s_ for s_ in body.succs(d1) if s_ not in stops]
    while st_:
        x = st_.pop()
        if x in fwd or x in stops:
            continue
        fwd.add(x)
        st_.extend(body.succs(x))

    def reaches_bb(x):
        seen = set()
        stack = [x]
        while stack:
            y = stack.pop()
            if y == bb:
                return True
            if y in seen or y in stops:
                continue
            seen.add(y)
            stack.extend(body.succs(y))
        return False
    region = {x for x in fwd if x == bb or reaches_bb(x)}
    if include_start:
        region |= {d1}
    for x in region:
        for st in body.blocks[x]["stmts"]:
            if st is ignore:
                break  # the fact is used at this very statement: what it and later ones write is irrelevant
            if st["k"] == "assign" and st["place"]["p"]:
                if any(_overlaps(places, r, _p) for (r, _p) in ctx.org.place(st["place"])):
                    return True
        if x == d1:
            continue
        t = body.term(x)
        if t["k"] == "call" and x != bb:
            for a in t["args"]:
                if a["k"] in ("move", "copy"):
                    ty = body.locals[a["place"]["l"]]["ty"]
                    if ty.get("mut") and any(_overlaps(places, r, _p) for (r, _p) in ctx.org.operand(a)):
                        return True
    return False


EVAL_MERGE = {}  # (body key, bb) -> set of blocks that evaluate the same expression (collapsed phi)


def collapse_phi(ctx, t):
    """a phi all of whose alternatives are the same expression evaluated at different program
    points (a cached flag `let mut f = e(); loop { .. if changed { f = e(); } }`) denotes that
    expression, evaluated at the most recent of those points; the points are remembered so that
    fact_still_holds can look for writes after each of them"""
    if not isinstance(t, tuple) or not t:
        return t
    if t[0] == "phi":
        alts = [collapse_phi(ctx, a) for a in t[1]]
        if alts and all(nobb(a) == nobb(alts[0]) for a in alts[1:]):
            bbs = set()
            for a in alts:
                for nd in _calls_of(a):
                    bbs.add(nd[4])
            for nd in _calls_of(alts[0]):
                EVAL_MERGE.setdefault((ctx.body.key, nd[4]), set()).update(bbs)
            return alts[0]
        return ("phi", tuple(alts))
    if t[0] in ("un",):
        return (t[0], t[1], collapse_phi(ctx, t[2]))
    if t[0] == "bin":
        return (t[0], t[1], collapse_phi(ctx, t[2]), collapse_phi(ctx, t[3]))
    if t[0] == "discr":
        return (t[0], collapse_phi(ctx, t[1]))
    return t


def _calls_of(t):
    if isinstance(t, tuple):
        if t and t[0] == "call" and len(t) == 5 and isinstance(t[4], int):
            yield t
        for x in t:
            if isinstance(x, tuple):
                yield from _calls_of(x)


def fact_still_holds(ctx, f, bb, ignore=None):
    """a dominating branch fact about mutable state is only usable at bb when nothing it mentions
    can have been written between the point where the tested value was computed (the measuring
    call, e.g. `is_empty()`; the branch itself for plain field comparisons) and bb -- a guard
    hoisted out of a loop that changes the guarded state goes stale, a cached flag that is
    re-computed after every such change does not"""
    d = f[-1]
    if not isinstance(d, int):
        return True  # inherited from an enclosing body: not tracked
    trees_ = tuple(x for x in f[1:-1] if isinstance(x, tuple))
    places = _tree_roots(trees_, set())
    if not places:
        return True
    evals = set()
    for nd in _calls_of(trees_):
        if _tree_roots(nd[2], set()) & places:
            evals.add(nd[4])
            evals |= EVAL_MERGE.get((ctx.body.key, nd[4]), set())
    kills = FLAG_META.get((ctx.body.key, d), {}).get("kills", set())
    if not evals:
        return not mutated_between(ctx, d, bb, places, stops=kills, ignore=ignore)
    for e in evals:
        if e == bb:
            continue
        if mutated_between(ctx, e, bb, places, stops=(evals - {e}) | kills, include_start=False, ignore=ignore):
            return False
    return True


def infeasible(ctx, bb):
    """block bb can never run: two of its dominating branch facts exclude each other
    (`if c { debug_assert!(c) }`, `if i < n {..} else { assert!(i >= n) }`) and nothing the facts
    mention can have been written between the two branch points.  Deliberately narrow: only
    syntactically identical operands, no loop-carried values."""
    facts = [tuple(nobb(x) for x in f[:-1]) + (f[-1],) for f in facts_at(ctx, bb) if isinstance(f[-1], int)]
    for i in range(len(facts)):
        for j in range(i + 1, len(facts)):
            f, g = facts[i], facts[j]
            if not _exclusive(f, g):
                continue
            if _has_kind((f[1], f[2], g[1], g[2]), ("phi",)):
                continue
            roots = _tree_roots((f[1], f[2], g[1], g[2]), set())
            if in_loop(ctx.body, bb) and any(r[0][0] != "arg" for r in roots):
                continue  # a value computed inside a loop differs between iterations
            d1 =f[-1] if ctx.body.dominates(f[-1], g[-1]) else g[-1]
            if not mutated_between(ctx, d1, bb, roots):
                return True
    return False


# ---------------------------------------------------------------------------------------------
# ordering of program points


def before(body, a, b):
    """program point a=(bb,si) strictly precedes b on every path that contains both, and b never
    precedes a"""
    (ba, ia), (bb_, ib) = a, b
    if ba == bb_:
        in_loop = ba in body.reachable_from_succs(ba) if hasattr(body, "reachable_from_succs") else False
        return ia < ib and not in_loop
    ra = reach_strict(body, ba)
    rb = reach_strict(body, bb_)
    return bb_ in ra and ba not in rb


def reach_strict(body, b):
    seen = set()
    st = list(body.succs(b))
    while st:
        x = st.pop()
        if x in seen:
            continue
        seen.add(x)
        st.extend(body.succs(x))
    return seen


def in_loop(body, b):
    return b in reach_strict(body, b)


def show(t, depth=0):
    """compact rendering of a tree"""
    k = t[0]
    if k == "const":
        return t[1]
    if k == "place":
        r = t[2]
        base = "arg%d" % r[1] if r[0] == "arg" else str(r)
        return base + "".join("." + x[2:] if x[:2] in ("f:", "v:", "u:") else x for x in t[3])
    if k == "call":
        s = "%s::%s(%s)" % (t[1][0], t[1][1], ", ".join(show(a, depth + 1) for a in t[2]))
        return s + "".join("." + x for x in t[3])
    if k == "bin":
        return "(%s %s %s)" % (show(t[2], depth + 1), t[1], show(t[3], depth + 1))
    if k == "un":
        return "%s(%s)" % (t[1], show(t[2], depth + 1))
    if k == "discr":
        return "discr(%s)" % show(t[1], depth + 1)
    if k == "agg":
        return "%s(%s)" % (t[1], ", ".join(show(a, depth + 1) for a in t[2]))
    if k == "ovf":
        return "overflow" + show(t[1], depth + 1)
    if k == "phi":
        return "phi(%s)" % ", ".join(show(a, depth + 1) for a in t[1])
    return str(t)


# ---------------------------------------------------------------------------------------------
# semantic value alternatives: Option/Result combinators, `?`, match and if-let all normalise to
# the same set of alternatives {Some(f(payload)), None, Ok(..), Err(..)}

NONE = ("none",)


def closure_key(t):
    if t[0] == "agg" and isinstance(t[1], str) and t[1].startswith("closure:"):
        return t[1][len("closure:"):]
    return None


def _fnitem_tag(s):
    """callee tag of a function item named by a constant's display string"""
    import re
    s2 = re.sub(r"::<[^<>]*(<[^<>]*>[^<>]*)*>", "", s)
    m = re.match(r"^<.* as (.*)>::([A-Za-z_0-9]+)$", s2.strip())
    if m:
        tr = re.sub(r"<.*$", "", m.group(1)).split("::")[-1]
        return (tr, m.group(2))
    segs = [x for x in re.sub(r"<[^<>]*>", "", s2).split("::") if x]
    if len(segs) >= 2:
        return (segs[-2].strip("<>"), segs[-1])
    return ("fn", segs[-1] if segs else s)


def apply_fn(facts, f, args, depth=0):
    """result alternatives of calling function-like tree f (closure aggregate or fn item) on
    argument trees"""
    ck = closure_key(f)
    if ck is not None and depth < 8:
        cb = facts.body(ck)
        if cb is not None:
            from core import Ctx as _Ctx
            cc = _Ctx(cb)
            out = set()
            for o in cc.org.local(0):
                t = tree(cc, o)
                out.add(subst_closure(t, cb.key, f[2], args))
            res = set()
            for t in out:
                res |= expand(facts, t, depth + 1)
            return res
    if f[0] == "const":
        fb = _fnitem_body(facts, f[1])
        if fb is not None and depth < 8 and len(args) == fb.nargs and len(fb.blocks) <= 40:
            # a crate-local function item handed to a combinator (`.map(Self::read)`): what it
            # returns, in the caller's terms
            from core import Ctx as _Ctx
            fc = _Ctx(fb)
            res = set()
            for o in fc.org.local(0):
                t = subst_closure(tree(fc, o), fb.key, (), [None] + list(args), fn_item=True)
                res |= expand(facts, t, depth + 1)
            if res:
                return res
        return {("call", _fnitem_tag(f[1]), tuple(args), (), None)}
    return {("call", ("?", "apply"), (f,) + tuple(args), (), None)}


def _fnitem_body(facts, pretty):
    """the local body a function-item constant names (by the display string the operand carries)"""
    idx = getattr(facts, "_fnitems", None)
    if idx is None:
        idx = {}
        for b in facts.bodies.values():
            for blk in b.blocks:
                t = blk["term"]
                ops = list(t.get("args", []) or []) + ([t["func"]] if isinstance(t.get("func"), dict) else [])
                for st in blk["stmts"]:
                    rv = st.get("rv") if st["k"] == "assign" else None
                    if rv:
                        ops += [rv[k] for k in ("op", "a", "b") if isinstance(rv.get(k), dict)]
                        ops += [o for o in rv.get("ops", []) if isinstance(o, dict)] if isinstance(rv.get("ops"), list) else []
                for a in ops:
                    fn = a.get("fn") if a.get("k") == "const" else None
                    if fn and fn.get("local") and fn.get("kind") in ("Fn", "AssocFn"):
                        key = (fn.get("resolved") or {}).get("key") or fn.get("key")
                        for nm in (fn.get("pretty"), fn.get("path")):
                            if nm:
                                idx.setdefault(nm, set()).add(key)
        facts._fnitems = idx
    keys = idx.get(pretty) or set()
    if len(keys) != 1:
        return None
    return facts.body(next(iter(keys)))


def subst_closure(t, key, captured, args, fn_item=False):
    """rewrite a tree expressed over the closure body's own arguments (arg1 = environment,
    arg2.. = parameters) into the caller's terms (fn_item: a plain function, args[0] is a
    placeholder and arg k is args[k])"""
    if not isinstance(t, tuple) or not t:
        return t
    if t[0] == "place" and t[1] == key:
        r, p = t[2], tuple(t[3])
        if fn_item and r[0] == "arg" and 1 <= r[1] < len(args):
            return tproj(args[r[1]], p)
        if r == ("arg", 1):
            if p and p[0].startswith("u:"):
                k = int(p[0][2:])
                if k < len(captured):
                    return tproj(captured[k], p[1:])
            return t
        if r[0] == "arg" and r[1] >= 2 and r[1] - 2 < len(args):
            return tproj(args[r[1] - 2], p)
        return t
    if t[0] == "call":
        return ("call", t[1], tuple(subst_closure(x, key, captured, args, fn_item) for x in t[2]), t[3], t[4])
    return tuple(subst_closure(x, key, captured, args, fn_item) if isinstance(x, tuple) else x for x in t)


def is_agg(t, name):
    return t[0] == "agg" and t[1] == name


def expand(facts, t, depth=0):
    """set of alternative values a tree may denote, with Option/Result combinators applied"""
    if depth > 10 or not isinstance(t, tuple) or not t:
        return {t}
    k = t[0]
    if k == "phi":
        out = set()
        for x in t[1]:
            out |= expand(facts, x, depth + 1)
        return out
    if k == "agg":
        if t[1] == "Option::None":
            return {NONE}
        if t[1].startswith("closure:") or not t[2]:
            return {t}
        # alternatives of the operands (bounded product)
        opts = [sorted(expand(facts, op, depth + 1), key=repr) for op in t[2]]
        total = 1
        for o in opts:
            total *= len(o)
        if total == 1 or total > 16:
            if total == 1:
                return {("agg", t[1], tuple(o[0] for o in opts), t[3])}
            return {t}
        import itertools
        return {("agg", t[1], tuple(c), t[3]) for c in itertools.product(*opts)}
    if k != "call":
        return {t}
    tag = t[1]
    a = t[2]
    if t[3]:
        base = expand(facts, ("call", t[1], t[2], (), t[4]), depth + 1)
        if base == {("call", t[1], t[2], (), t[4])}:
            return {t}
        out = set()
        for x in base:
            if x == NONE:
                continue
            if isinstance(x, tuple) and x and x[0] in ("first", "second"):
                x = x[1]
                if x == NONE:
                    continue
            out.add(tproj(x, t[3]))
        return out or {t}
    if tag in (("FromResidual", "from_residual"),):
        return {NONE}
    if tag in (("Option", "map"), ("Option", "and_then")) and len(a) == 2:
        out = set()
        for x in expand(facts, a[0], depth + 1):
            if x == NONE:
                out.add(NONE)
                continue
            p = x[2][0] if is_agg(x, "Option::Some") else tproj(x, ("v:Some", "f:0"))
            for r in apply_fn(facts, a[1], [p], depth + 1):
                if tag[1] == "map":
                    out.add(("agg", "Option::Some", (r,), ()))
                else:
                    out |= expand(facts, r, depth + 1)
            if not is_agg(x, "Option::Some"):
                out.add(NONE)
        return out
    if tag == ("Option", "or_else") and len(a) == 2:
        out = set()
        some = False
        for x in expand(facts, a[0], depth + 1):
            if x == NONE:
                continue
            out.add(("first", x))
        for r in apply_fn(facts, a[1], [], depth + 1):
            for y in expand(facts, r, depth + 1):
                out.add(("second", y))
        return out
    if tag in (("Result", "map"), ("Result", "map_err")) and len(a) == 2:
        out = set()
        for x in expand(facts, a[0], depth + 1):
            oks = [x[2][0]] if is_agg(x, "Result::Ok") else ([] if is_agg(x, "Result::Err") else [tproj(x, ("v:Ok", "f:0"))])
            errs = [x[2][0]] if is_agg(x, "Result::Err") else ([] if is_agg(x, "Result::Ok") else [tproj(x, ("v:Err", "f:0"))])
            for p in oks:
                if tag[1] == "map":
                    for r in apply_fn(facts, a[1], [p], depth + 1):
                        out.add(("agg", "Result::Ok", (r,), ()))
                else:
                    out.add(("agg", "Result::Ok", (p,), ()))
            for p in errs:
                if tag[1] == "map_err":
                    for r in apply_fn(facts, a[1], [p], depth + 1):
                        out.add(("agg", "Result::Err", (r,), ()))
                else:
                    out.add(("agg", "Result::Err", (p,), ()))
        return out
    if tag in (("Result", "map_or_else"), ("Option", "map_or_else")) and len(a) == 3:
        out = set()
        for x in expand(facts, a[0], depth + 1):
            if tag[0] == "Result":
                for r in apply_fn(facts, a[1], [tproj(x, ("v:Err", "f:0"))], depth + 1):
                    out.add(r)
            else:
                for r in apply_fn(facts, a[1], [], depth + 1):
                    out.add(r)
            pay = ("v:Ok", "f:0") if tag[0] == "Result" else ("v:Some", "f:0")
            for r in apply_fn(facts, a[2], [tproj(x, pay)], depth + 1):
                out.add(r)
        return out
    if tag == ("Option", "filter") and len(a) == 2:
        # Some(x) when the predicate holds, None otherwise
        out = {NONE}
        for x in expand(facts, a[0], depth + 1):
            if x != NONE:
                out.add(x)
        return out
    if tag in (("Option", "insert"), ("Option", "get_or_insert")) and len(a) == 2:
        return {a[1]}  # `*opt.insert(v)` is v
    if tag == ("bool", "then") and len(a) == 2:
        out = {NONE}
        for r in apply_fn(facts, a[1], [], depth + 1):
            out.add(("agg", "Option::Some", (r,), ()))
        return out
    if tag == ("Option", "map_or") and len(a) == 3:
        out = {a[1]}
        for x in expand(facts, a[0], depth + 1):
            if x == NONE:
                continue
            pay = x[2][0] if is_agg(x, "Option::Some") else tproj(x, ("v:Some", "f:0"))
            for r in apply_fn(facts, a[2], [pay], depth + 1):
                out.add(r)
        return out
    if tag == ("Option", "unwrap_or_else") and len(a) == 2:
        out = set()
        for x in expand(facts, a[0], depth + 1):
            if x == NONE:
                continue
            out.add(x[2][0] if is_agg(x, "Option::Some") else tproj(x, ("v:Some", "f:0")))
        for r in apply_fn(facts, a[1], [], depth + 1):
            out |= expand(facts, r, depth + 1)
        return out
    if tag in (("Option", "unwrap_or"),) and len(a) == 2:
        out = set()
        for x in expand(facts, a[0], depth + 1):
            if x == NONE:
                continue
            out.add(x[2][0] if is_agg(x, "Option::Some") else tproj(x, ("v:Some", "f:0")))
        out.add(a[1])
        return out
    return {t}


def ret_alts(ctx):
    """semantic alternatives of the function's return value"""
    facts = ctx.body.facts
    out = set()
    for o in ctx.org.local(0):
        out |= expand(facts, tree(ctx, o))
    live = {t for t in out if not _dead_proj(t)}
    return live if live else out


def nobb(t):
    """drop block ids from call nodes (for structural comparison)"""
    if isinstance(t, tuple):
        if t and t[0] == "call" and len(t) == 5:
            return ("call", t[1], tuple(nobb(x) for x in t[2]), t[3])
        return tuple(nobb(x) for x in t)
    return t
