"""C07: dictionary codec — ambiguity guard, emptiness, tag assignment, bitmap agreement."""
from core import Ctx, callee_tag, closure_sites
from model import Catalogue
from expr import trees, tree, show, operand_tree, place_tree, facts_at, reach_strict, CMP_OPS
from r_bracket import walk
from r_bound import norm_len, nlin
from r_append import fmt_facts

DC = "impls::codec::dictionary::DictionaryCodec"


def codec_body(F, name):
    bs = [b for b in F.methods_of_trait("Codec", name) if b.self_adt == DC]
    return bs[0] if bs else None


def mentions_first_byte(t, key):
    for nd in walk(t):
        if nd[0] == "call" and nd[1] in (("slice", "first"), ("slice", "get")) and nd[2] and \
                nd[2][0] == ("place", key, ("arg", 2), ()):
            return True
        if nd[0] == "place" and nd[2] == ("arg", 2) and "[]" in nd[3]:
            return True
    return False


def is_empty_fact(f, key):
    """fact saying the caller's slice (arg 2) is empty"""
    p = ("place", key, ("arg", 2), ())
    if f[0] == "variant" and f[1][0] == "call" and f[1][1] in (("slice", "first"), ("slice", "last")) \
            and f[1][2] and f[1][2][0] == p:
        return f[2] == "0" or (isinstance(f[2], tuple) and f[2][0] == "not" and "1" in f[2][1])
    if f[0] == "truthy" and f[1][0] == "call" and f[1][1][1] == "is_empty" and f[1][2] and f[1][2][0] == p:
        return f[2] is True
    if f[0] == "Eq":
        a, b = norm_len(f[1]), norm_len(f[2])
        return {a, b} == {("len", p), ("const", "0")}
    # slice patterns (`if let [first, ..] = bytes`) compare the length with 1
    if f[0] in ("Lt", "Le", "Gt", "Ge"):
        op, a, b = f[0], norm_len(f[1]), norm_len(f[2])
        if op in ("Gt", "Ge"):
            op = {"Gt": "Lt", "Ge": "Le"}[op]
            a, b = b, a
        if a == ("len", p) and b[0] == "const" and b[1].isdigit():
            return (op == "Lt" and int(b[1]) == 1) or (op == "Le" and int(b[1]) == 0)
    return False


def nonempty_fact(f, key):
    p = ("place", key, ("arg", 2), ())
    if f[0] == "variant" and f[1][0] == "call" and f[1][1] in (("slice", "first"), ("slice", "last")) \
            and f[1][2] and f[1][2][0] == p:
        return f[2] == "1" or (isinstance(f[2], tuple) and f[2][0] == "not" and "0" in f[2][1])
    if f[0] == "truthy" and f[1][0] == "call" and f[1][1][1] == "is_empty" and f[1][2] and f[1][2][0] == p:
        return f[2] is False
    if f[0] in ("Ne", "Lt", "Gt"):
        a, b = norm_len(f[1]), norm_len(f[2])
        if f[0] == "Ne":
            return {a, b} == {("len", p), ("const", "0")}
        if f[0] == "Lt":
            return a == ("const", "0") and b == ("len", p)
        if f[0] == "Gt":
            return b == ("const", "0") and a == ("len", p)
    if f[0] in ("Ge", "Le"):
        a, b = norm_len(f[1]), norm_len(f[2])
        if f[0] == "Le":
            a, b = b, a
        return a == ("len", p) and b[0] == "const" and b[1].isdigit() and int(b[1]) >= 1
    return False


def unassigned_fact(f, key):
    """fact saying the reader's table has no entry for the first byte"""
    def is_lookup(t):
        if t[0] == "phi":
            # a helper that looks the first byte up and answers None for an empty input
            # (`let tag = *bytes.first()?; self.decode.get(tag)`): None means unassigned or empty,
            # either of which admits the literal
            return any(is_lookup(x) for x in t[1]) and all(is_lookup(x) or none_for_empty(x) for x in t[1])
        return t[0] == "call" and t[1] == ("BytesMap", "get") and t[2] and \
            t[2][0] == ("place", key, ("arg", 1), ("f:decode",)) and mentions_first_byte(t[2][1], key)

    def none_for_empty(t):
        if t[0] == "agg" and t[1] == "Option::None":
            return True
        if t[0] == "call" and t[1] == ("FromResidual", "from_residual") and t[2]:
            x = t[2][0]
            while x[0] == "call" and x[1] in (("Try", "branch"), ("From", "from")) and x[2]:
                x = x[2][0]
            return x[0] == "call" and x[1] in (("slice", "first"), ("slice", "get")) and bool(x[2]) and \
                x[2][0] == ("place", key, ("arg", 2), ())
        return False
    if f[0] == "truthy" and f[1][0] == "call" and f[1][1] == ("Option", "is_none") and is_lookup(f[1][2][0]):
        return f[2] is True
    if f[0] == "truthy" and f[1][0] == "call" and f[1][1] == ("Option", "is_some") and is_lookup(f[1][2][0]):
        return f[2] is False
    if f[0] == "variant" and is_lookup(f[1]):
        return f[2] == "0" or (isinstance(f[2], tuple) and f[2][0] == "not" and "1" in f[2][1])
    return False


def r_literal_guard(F, R):
    b = codec_body(F, "encode")
    if b is None:
        R.floor("R-GUARD", "DictionaryCodec::encode", 0, 1)
        return
    R.saw(b)
    ctx = Ctx(b)
    param = ("place", b.key, ("arg", 2), ())
    lits = []
    hits = []
    merged = {}  # push block -> blocks in which the caller's bytes are selected as the value to store
    selectors = {}  # push block -> the Option whose being None selects the caller's bytes
    for (bi, t) in b.calls():
        if callee_tag(t.get("callee")) == ("Push", "push") and len(t["args"]) == 2:
            a = operand_tree(ctx, t["args"][1])
            if a == param:
                lits.append((bi, t))
            else:
                hits.append((bi, t, a))
                # one store shared by the hit and the literal case (`let encoded = match .. {
                # Some(tag) => from_ref(tag), None => bytes }; output.push(encoded)`): the literal
                # alternative is judged where the caller's bytes are selected
                sel = literal_selection_blocks(ctx, t["args"][1], (("arg", 2), ()))
                if sel:
                    lits.append((bi, t))
                    merged[bi] = sel
                else:
                    # ... or chosen by a combinator: `code.as_ref().map_or(bytes, |c| c.as_slice())`
                    # stores the caller's bytes exactly when `code` is None
                    from expr import nobb as _nobb
                    na = _nobb(a)
                    if na[0] == "call" and na[1] in (("Option", "map_or"), ("Option", "unwrap_or")) and not na[3] and \
                            len(na[2]) >= 2 and na[2][1] == param:
                        lits.append((bi, t))
                        selectors[bi] = _strip_opt(na[2][0])
    R.floor("R-GUARD", "literal store sites in encode", len(lits), 1)
    if not _table_lookup_present(F, b):
        if _mentions_field(F, b, "decode"):
            R.undecided_site("R-GUARD", b.label(), "encode does not call the reader table's lookup (inlined or replaced) but reads "
                             "the table another way: whether the literal store is guarded by it is not decided")
        else:
            for (bi, t) in lits:
                R.check("R-GUARD", b.label(), False, construct="literal store not guarded by reader's tag table",
                        where="%s:%s" % (b.file, t["line"]),
                        detail="encode never consults the reader's table: a literal whose first byte is an assigned tag is stored "
                               "as it is and reads back as the dictionary entry")
        return
    def filtered_out(f):
        """`bytes.first().filter(|tag| self.decode.get(tag).is_some())` is None: the input is empty
        or its first byte is unassigned -- either admits the literal"""
        from expr import apply_fn, nobb, tproj
        if f[0] != "variant" or not isinstance(f[1], tuple) or f[1][0] != "call" or f[1][1] != ("Option", "filter") or \
                len(f[1][2]) != 2 or f[1][3]:
            return False
        if not (f[2] == "0" or (isinstance(f[2], tuple) and f[2][0] == "not" and "1" in f[2][1])):
            return False
        src = nobb(f[1][2][0])
        if not (src[0] == "call" and src[1] in (("slice", "first"), ("slice", "get")) and src[2] and src[2][0] == param):
            return False
        res = apply_fn(F, f[1][2][1], [tproj(f[1][2][0], ("v:Some", "f:0"))])
        return len(res) == 1 and unassigned_fact(("truthy", next(iter(res)), False), b.key)

    good = set()
    for bi in b.live_blocks():
        fs = facts_at(ctx, bi)
        if any(is_empty_fact(f, b.key) or unassigned_fact(f, b.key) or filtered_out(f) for f in fs):
            good.add(bi)
    from expr import edge_facts, reachable_avoiding
    good_edges = set()
    for s_ in b.live_blocks():
        for (tgt, fs) in edge_facts(ctx, s_):
            if any(is_empty_fact(f, b.key) or unassigned_fact(f, b.key) or filtered_out(f) for f in fs):
                good_edges.add((s_, tgt))
    for (bi, t) in lits:
        g2, e2 = set(good), set(good_edges)
        if bi in selectors:
            # blocks and edges on which the selecting Option is known to be Some: the literal is
            # not what gets stored there
            sel = selectors[bi]
            for x in b.live_blocks():
                if any(_says_some(f, sel) for f in facts_at(ctx, x)):
                    g2.add(x)
            for s_ in b.live_blocks():
                for (tgt, fs) in edge_facts(ctx, s_):
                    if any(_says_some(f, sel) for f in fs):
                        e2.add((s_, tgt))
        # `self.check_literal(bytes)?; store`: the store sits behind the Continue arm of a `?`; a path
        # through the block that builds the Err being propagated never gets there
        from expr import try_sites as _try_sites
        for (_cb, cont_, _brk, errs_) in _try_sites(ctx):
            if errs_ and (cont_ == bi or b.dominates(cont_, bi)):
                g2 |= errs_
        reach = reachable_avoiding(b, 0, g2, e2)
        ok = bi not in reach if bi not in merged else not (merged[bi] & reach)
        if not ok:
            # the test may live in a closure a pipeline runs over the first byte
            # (`bytes.iter().take(1).for_each(|tag| assert!(self.decode.get(tag).is_none()))`): a
            # closure that looks the reader's table up and can diverge guards something, but which
            # paths of encode it guards is not a path property of encode itself
            from core import all_ctxs as _all_ctxs
            guarded_in_closure = False
            for c2 in _all_ctxs(F, b)[1:]:
                looks_up = any(callee_tag(t2.get("callee")) == ("BytesMap", "get") for (_, t2) in c2.body.calls())
                diverges = any(t2["k"] == "call" and t2.get("target") is None for t2 in (c2.body.term(x) for x in c2.body.live_blocks()))
                if looks_up and diverges:
                    guarded_in_closure = True
            if guarded_in_closure:
                R.undecided_site("R-GUARD", b.label(), "the reader's table is consulted, with a diverging outcome, inside a closure: "
                                 "whether every literal store is covered by it is not decided")
                continue
        # the "assigned" edge of the lookup must diverge: no path from the lookup's other edge to the store
        R.check("R-GUARD", b.label(), ok,
                construct="literal store not guarded by reader's tag table",
                where="%s:%s" % (b.file, t["line"]),
                detail="every path to the literal store must either see an empty input or pass "
                       "`self.decode.get(first byte)` on its unassigned edge; guarding blocks: %s" % sorted(good))
    # (5) dictionary hit stores exactly one byte, the tag found for the whole input
    from expr import nobb
    get_payload = ("call", ("BTreeMap", "get"), (("place", b.key, ("arg", 1), ("f:encode",)), param), ("v:Some", "f:0"))
    verdicts = []
    for (bi, t, a) in hits:
        arrays = [nd for nd in walk(nobb(a)) if nd[0] == "agg" and nd[1] == "array"]
        if not arrays:
            continue
        for arr in arrays:
            verdicts.append(len(arr[2]) == 1 and arr[2][0] == get_payload)
    if not verdicts:
        R.undecided_site("R-CODEC", b.label(), "dictionary-hit store not recognised: %s" % [show(a)[:80] for (_, _, a) in hits])
    else:
        R.check("R-CODEC", b.label(), all(verdicts), construct="dictionary hit stores exactly the one tag byte",
                where=b.where(), detail="hit stores: %s" % [show(a)[:100] for (_, _, a) in hits])


def _strip_opt(t):
    """the Option underneath value-preserving views (`as_ref`, `as_deref`, `map`, `copied`, ...):
    they are Some exactly when it is"""
    from expr import nobb
    t = nobb(t)
    while t[0] == "call" and t[1][0] == "Option" and t[1][1] in ("as_ref", "as_deref", "as_mut", "map", "copied", "cloned", "inspect") \
            and t[2] and not t[3]:
        t = nobb(t[2][0])
    return t


def _says_some(f, sel):
    """fact f says the Option `sel` (stripped) is Some"""
    if f[0] == "truthy" and f[1][0] == "call" and f[1][1][0] == "Option" and f[1][2]:
        if _strip_opt(f[1][2][0]) == sel:
            return (f[1][1][1] == "is_some" and f[2] is True) or (f[1][1][1] == "is_none" and f[2] is False)
    if f[0] == "variant" and isinstance(f[1], tuple) and _strip_opt(f[1]) == sel:
        return f[2] == "1" or (isinstance(f[2], tuple) and f[2][0] == "not" and "0" in f[2][1])
    return False


def literal_selection_blocks(ctx, op, origin, _seen=None):
    """blocks holding an assignment that puts exactly `origin` (and nothing else) into a local that
    flows, possibly together with other values, into operand `op`"""
    _seen = _seen if _seen is not None else set()
    out = set()
    if op["k"] not in ("copy", "move") or op["place"]["p"]:
        return out
    l = op["place"]["l"]
    if l in _seen:
        return out
    _seen.add(l)
    if origin not in ctx.org.operand(op) or len(ctx.org.operand(op)) < 2:
        return out
    body = ctx.body
    for (dpath, kind, data, through_deref) in ctx.org.defs.get(l, ()):
        if kind != "stmt" or dpath:
            continue
        (bi, si) = data
        st = body.blocks[bi]["stmts"][si]
        rv = st["rv"]
        if rv["k"] in ("use", "cast"):
            src = rv["op"]
        elif rv["k"] == "ref" and [e["k"] for e in rv["place"]["p"]] == ["deref"]:
            src = {"k": "copy", "place": {"l": rv["place"]["l"], "p": []}}  # a reborrow `&*x`
        else:
            continue
        o = ctx.org.operand(src) if src["k"] != "const" else set()
        if o == {origin}:
            out.add(bi)
        elif origin in o:
            out |= literal_selection_blocks(ctx, src, origin, _seen)
    return out


def r_emptiness(F, R):
    n = 0
    for name in ("encode", "decode"):
        b = codec_body(F, name)
        if b is None:
            continue
        bodies = [b] + [F.body(c[2]) for c in closure_sites(b) if F.body(c[2])]
        for bb in bodies:
            R.saw(bb)
            ctx = Ctx(bb)
            param = ("place", bb.key, ("arg", 2), ())
            bad = []
            for bi in sorted(bb.live_blocks()):
                t = bb.term(bi)
                if t["k"] == "assert" and t.get("msg") == "bounds":
                    ln = norm_len(operand_tree(ctx, t["len"]))
                    if ln == ("len", param) and bb is b:
                        fs = facts_at(ctx, bi)
                        if not any(nonempty_fact(f, bb.key) for f in fs):
                            bad.append(t["line"])
            n += 1
            R.check("R-BOUND", bb.label() if bb is b else b.label() + "::{closure}", not bad,
                    construct="bytes[0] without non-empty guard", where=bb.where(),
                    detail="constant-position reads of the caller's slice at lines %s" % bad if bad
                    else "no unguarded positional read of the caller's slice")
    R.floor("R-BOUND", "codec bodies scanned for unguarded positional reads", n, 2)


def subst(t, leaf):
    if t == leaf:
        return ("X",)
    if isinstance(t, tuple):
        if t and t[0] == "call" and len(t) == 5:
            return ("call", t[1], tuple(subst(x, leaf) for x in t[2]), t[3])
        return tuple(subst(x, leaf) for x in t)
    return t


def index_local_tree(ctx, pl):
    for e in pl["p"]:
        if e["k"] == "index":
            return trees(ctx, ctx.org.local(e["local"]))
    return None


def r_bitmap(F, R):
    enc = codec_body(F, "encode")
    nf = codec_body(F, "new_from")
    if enc is None or nf is None:
        R.floor("R-BITMAP", "encode/new_from", 0, 1)
        return
    R.saw(enc)
    R.saw(nf)
    ectx = Ctx(enc)
    # writer: stats.1[idx] = old | (1 << sh)
    w_idx = w_sh = None
    leaf_w = None
    for bi in sorted(enc.live_blocks()):
        for si, st in enumerate(enc.blocks[bi]["stmts"]):
            if st["k"] != "assign":
                continue
            pl = st["place"]
            names = [e.get("name") or str(e.get("i")) for e in pl["p"] if e["k"] == "field"]
            if names[:2] == ["stats", "1"] and any(e["k"] == "index" for e in pl["p"]):
                w_idx = index_local_tree(ectx, pl)
                val = trees(ectx, ectx.org.rvalue(st["rv"], bi, si))
                for nd in walk(val):
                    if nd[0] == "bin" and nd[1] == "Shl":
                        w_sh = nd[3]
    for nd in walk(w_idx or ()):
        if nd[0] == "call" and nd[1] == ("slice", "first"):
            leaf_w = nd
        if nd[0] == "place" and nd[2] == ("arg", 2) and "[]" in nd[3]:
            leaf_w = nd
    # reader: a word of the bitmap is loaded by index — either stats.1[idx] of a source (possibly
    # inside a fold/map closure) or an element of a local array the sources' words were OR-ed into
    from core import all_ctxs
    nctx = Ctx(nf)
    r_idx = r_sh = None
    leaf_r = None
    cands = []
    for cx in all_ctxs(F, nf):
        cb = cx.body
        for bi in sorted(cb.live_blocks()):
            for st in cb.blocks[bi]["stmts"]:
                if st["k"] != "assign":
                    continue
                for pl in places_of_rvalue(st["rv"]):
                    if not any(e["k"] == "index" for e in pl["p"]):
                        continue
                    names = [e.get("name") or str(e.get("i")) for e in pl["p"] if e["k"] == "field"]
                    base_is_stats = "stats" in names and "1" in names
                    base_local_array = not names and cb.locals[pl["l"]]["ty"]["s"].startswith("[u64;")
                    if not (base_is_stats or base_local_array):
                        continue
                    t = index_local_tree(cx, pl)
                    if t is not None and any(nd[0] == "call" and nd[1] == ("Iterator", "next") for nd in walk(t)):
                        cands.append(t)
    if cands:
        r_idx = cands[0]
    for bi in sorted(nf.live_blocks()):
        t = nf.term(bi)
        if t["k"] == "switch":
            cond = operand_tree(nctx, t["discr"])
            for nd in walk(cond):
                if nd[0] == "bin" and nd[1] == "Shr" and any(
                        (x[0] == "call" and x[1] == ("Iterator", "fold")) or
                        (x[0] == "place" and "[]" in x[3]) or (x[0] == "agg" and x[1] == "array") or x[0] == "opaque"
                        for x in walk(nd[2])):
                    r_sh = nd[3]
    for nd in walk(r_idx or ()):
        if nd[0] == "call" and nd[1] == ("Iterator", "next"):
            leaf_r = nd
    if None in (w_idx, w_sh, r_idx, r_sh, leaf_w, leaf_r):
        R.undecided_site("R-BITMAP", enc.label(), "bitmap word/bit expressions not recognised (writer %s/%s, reader %s/%s)" % (
            w_idx is not None, w_sh is not None, r_idx is not None, r_sh is not None))
        return
    ok = True
    detail = "writer idx %s bit %s; reader idx %s bit %s" % (
        show(w_idx)[:70] if w_idx else None, show(w_sh)[:60] if w_sh else None,
        show(r_idx)[:90] if r_idx else None, show(r_sh)[:80] if r_sh else None)
    if ok:
        lw = leaf_w + () if False else leaf_w
        # payload leaf: first(..).Some.0  /  next(..).Some.0 — the trees carry the path on the call node
        sw_idx, sw_sh = subst_leaf(w_idx, leaf_w), subst_leaf(w_sh, leaf_w)
        sr_idx, sr_sh = subst_leaf(r_idx, leaf_r), subst_leaf(r_sh, leaf_r)
        ok = sw_idx == sr_idx and sw_sh == sr_sh
        detail += "; normalised writer (%s, %s) reader (%s, %s)" % (
            show_x(sw_idx), show_x(sw_sh), show_x(sr_idx), show_x(sr_sh))
    R.check("R-BITMAP", enc.label(), bool(ok),
            construct="first-byte bitmap: recording (encode) and testing (new_from) use the same word/bit functions",
            where=enc.where(), detail=detail)


def subst_leaf(t, leaf):
    """replace the leaf call (ignoring its block id) by X and drop block ids elsewhere"""
    if isinstance(t, tuple):
        if t and t[0] == "place" and t == leaf:
            return ("X",)
        if t and t[0] == "call" and len(t) == 5:
            if leaf[0] == "call" and t[1] == leaf[1] and strip(t[2]) == strip(leaf[2]):
                return ("X",)
            return ("call", t[1], tuple(subst_leaf(x, leaf) for x in t[2]), t[3])
        return tuple(subst_leaf(x, leaf) for x in t)
    return t


def strip(t):
    if isinstance(t, tuple):
        if t and t[0] == "call" and len(t) == 5:
            return ("call", t[1], strip(t[2]), t[3])
        return tuple(strip(x) for x in t)
    return t


def show_x(t):
    if t == ("X",):
        return "X"
    if isinstance(t, tuple) and t and t[0] == "bin":
        return "(%s %s %s)" % (show_x(t[2]), t[1], show_x(t[3]))
    if isinstance(t, tuple) and t and t[0] == "call":
        return "%s(%s)" % (t[1][1], ", ".join(show_x(a) for a in t[2]))
    if isinstance(t, tuple) and t and t[0] == "const":
        return t[1]
    return str(t)[:40]


def places_of_rvalue(rv):
    out = []

    def op(o):
        if isinstance(o, dict) and o.get("k") in ("copy", "move"):
            out.append(o["place"])
    k = rv["k"]
    if k in ("ref", "discr", "rawptr"):
        out.append(rv["place"])
    elif k in ("use", "cast"):
        op(rv["op"])
    elif k == "binop":
        op(rv["a"])
        op(rv["b"])
    elif k == "unop":
        op(rv["a"])
    elif k == "aggregate":
        for o in rv["ops"]:
            op(o)
    return out


def loop_header(b, bi):
    """innermost loop header around block bi: a block that dominates bi and that bi can reach"""
    from expr import reach_strict
    after = reach_strict(b, bi)
    dom = b.dominators()
    live = b.live_blocks()

    def in_natural_loop(h):
        # bi reaches a back-edge source of h without passing through h itself (an inner loop that
        # merely precedes bi in every iteration is not a loop *around* bi)
        srcs = [x for x in live if h in b.succs(x) and h in dom.get(x, ())]
        if not srcs:
            return False
        if bi in srcs:
            return True
        reach = b.reachable(bi, {h})
        return any(x in reach for x in srcs)
    cands = [h for h in dom.get(bi, ()) if h in after and in_natural_loop(h)]
    if not cands:
        return None
    return max(cands, key=lambda h: len(dom.get(h, ())))


def _is_counter(t, depth=0):
    """phi of constants and (counter + constant): a local stepped by the loop"""
    if t[0] == "opaque":
        return depth > 0
    if t[0] != "phi":
        return False
    ok = False
    for m in t[1]:
        if m[0] == "const":
            continue
        if m[0] == "bin" and m[1] == "Add" and m[3][0] == "const" and (_is_counter(m[2], depth + 1) or
                                                                        m[2][0] == "opaque"):
            ok = True
            continue
        if m[0] == "bin" and m[1] == "Add" and m[2][0] == "opaque" and m[3][0] == "opaque":
            ok = True
            continue
        return False
    return ok


def loop_var_kind(b, hbi, val):
    """'loopvar': val is the variable the loop at hbi steps (next() of a range evaluated inside the
    loop, or a counter local); 'derived': val is computed from such a variable but is not it;
    'unknown' otherwise"""
    from expr import reach_strict
    inside = reach_strict(b, hbi) | {hbi}

    def is_var(t):
        if t[0] == "call" and t[1] == ("Iterator", "next") and len(t) == 5 and t[4] in inside and \
                b.dominates(hbi, t[4]) and hbi in reach_strict(b, t[4]) | {t[4]} and \
                any(nd[0] == "call" and nd[1][0] in ("RangeInclusive", "Range") for nd in walk(t[2])) and \
                tuple(t[3]) in ((), ("v:Some", "f:0")):
            return True
        return _is_counter(t)
    if is_var(val):
        return "loopvar"
    if val[0] == "const" or any(is_var(nd) for nd in walk(val) if isinstance(nd, tuple) and nd is not val):
        return "derived"
    return "unknown"


def r_tags(F, R):
    """new_from: a tag is assigned (encode.insert + decode.push(Some)) only on the bit-clear edge,
    both tables are written together with the same bytes and the loop's tag, and every iteration
    that does not exhaust the heavy hitters pushes exactly one table entry"""
    b = codec_body(F, "new_from")
    if b is None:
        R.floor("R-TAGS", "DictionaryCodec::new_from", 0, 1)
        return
    R.saw(b)
    ctx = Ctx(b)
    inserts = [(bi, t) for (bi, t) in b.calls() if callee_tag(t.get("callee")) == ("BTreeMap", "insert")]
    pushes = [(bi, t) for (bi, t) in b.calls() if callee_tag(t.get("callee")) == ("BytesMap", "push")]
    somes = [(bi, t) for (bi, t) in pushes if operand_tree(ctx, t["args"][1])[1] == "Option::Some"]
    nones = [(bi, t) for (bi, t) in pushes if (bi, t) not in somes]
    unknown = [(bi, t) for (bi, t) in nones if not (operand_tree(ctx, t["args"][1])[0] == "agg" and
                                                     operand_tree(ctx, t["args"][1])[1] == "Option::None")]
    from core import all_ctxs as _all_ctxs
    in_closures = 0
    for c2 in _all_ctxs(F, b)[1:]:
        for (_, t2) in c2.body.calls():
            if callee_tag(t2.get("callee")) in (("BTreeMap", "insert"), ("BytesMap", "push")):
                in_closures += 1
    R.floor("R-TAGS", "table writes in new_from (inserts + pushes)", len(inserts) + len(pushes) + in_closures, 3)
    if in_closures:
        # the tag loop is an iterator pipeline (`(0..=255).for_each(|tag| ..)`): the per-iteration
        # path reasoning below does not apply to a closure body
        R.undecided_site("R-TAGS", b.label(), "the tables are written inside a closure (%d writes): alignment of tags and "
                         "table positions is not decided" % in_closures)
        return
    if unknown and inserts:
        # one push shared by the assigned and the reserved case (`decode.push(entry.as_deref())`):
        # which table entry belongs to which tag is then a property of the value, not of the path
        R.undecided_site("R-TAGS", b.label(), "the reader table is written by a push whose value is not a plain Some(..)/None "
                         "(%s): alignment of tags and table positions is not decided" %
                         show(operand_tree(ctx, unknown[0][1]["args"][1]))[:100])
        return
    if inserts and not pushes:
        # the reader table's push was written out in new_from (or the table type was replaced):
        # how positions of that table line up with tags is then offset arithmetic
        R.undecided_site("R-TAGS", b.label(), "new_from does not call the reader table's push (inlined or replaced): alignment of "
                         "tags and table positions is not decided")
        return
    ok = len(inserts) == 1 and len(somes) == 1 and len(nones) >= 1
    why = []
    if ok:
        (ibi, it) = inserts[0]
        (sbi, stt) = somes[0]
        # the loop assigning the tags: innermost loop header around the insert
        hbi = loop_header(b, ibi)
        ok = hbi is not None
        if ok:
            key = operand_tree(ctx, it["args"][1])
            val = operand_tree(ctx, it["args"][2])
            pushed = operand_tree(ctx, stt["args"][1])
            # (b) tag = the loop variable: `for tag in a..=b` (next() of a range, called inside the
            #     loop) or a counter local (phi of a constant and itself + 1)
            kind = loop_var_kind(b, hbi, val)
            okb = kind == "loopvar"
            if kind == "unknown":
                R.undecided_site("R-TAGS", b.label(), "the tag stored in the writer table is not recognisably "
                                 "the loop variable nor derived from it: %s" % show(val)[:120])
                okb = True
            # (c) same bytes in both tables
            kroot = key[4] if key[0] == "call" else None
            okc = kroot is not None and any(nd[0] == "call" and nd[1] == ("Iterator", "next") and nd[4] == kroot
                                            for nd in walk(pushed))
            # (a) bit-clear edge: the bit test fact differs between Some-push and None-push
            def bit_fact(bi):
                """'set' / 'clear': what the dominating test of the seen-bitmap says on this edge"""
                for f in facts_at(ctx, bi):
                    if f[0] in ("Eq", "Ne") and any(nd[0] == "bin" and nd[1] == "BitAnd" for nd in walk(f[1])) \
                            and f[2][0] == "const" and f[2][1] in ("0", "1"):
                        is_zero = f[2][1] == "0"
                        if (f[0] == "Eq") == is_zero:
                            return "clear"
                        return "set"
                return None
            fa_s = bit_fact(sbi)
            fa_i = bit_fact(ibi)
            fa_n = [bit_fact(bi) for (bi, _) in nones]
            oka = fa_s == "clear" and fa_i == "clear" and all(x == "set" for x in fa_n) and bool(fa_n)
            if fa_s is None and fa_i is None and all(x is None for x in fa_n):
                R.undecided_site("R-TAGS", b.label(), "the seen-bitmap test guarding the tag assignment was not recognised")
                oka = True
            # (d) alignment: every way round the loop passes a table push, unless the heavy-hitter
            #     iterator (the one the stored bytes come from) reported exhaustion
            exhausted = set()
            for bi in b.live_blocks():
                for f in facts_at(ctx, bi):
                    if f[0] == "variant" and f[1][0] == "call" and f[1][1] == ("Iterator", "next") and \
                            f[1][4] == kroot and \
                            (f[2] == "0" or (isinstance(f[2], tuple) and "1" in f[2][1])):
                        exhausted.add(bi)
            avoid = {bi for (bi, _) in pushes} | exhausted
            okd = not any(hbi in b.reachable(s_, avoid) for s_ in b.succs(hbi))
            # at most one push per iteration: no push block reaches another without passing the head
            oke = True
            for (p1, _) in pushes:
                r = b.reachable(b.term(p1)["target"], {hbi}) if b.term(p1)["target"] is not None else set()
                if any(p2 in r for (p2, _) in pushes):
                    oke = False
            ok = oka and okb and okc and okd and oke
            why = ["bit-clear edge: %s" % oka, "tag is the loop variable: %s" % okb,
                   "same bytes in both tables: %s" % okc, "one table entry per non-exhausted iteration: %s" % okd,
                   "at most one per iteration: %s" % oke]
    R.check("R-TAGS", b.label(), ok,
            construct="tags are assigned only to first bytes never seen, reader/writer tables written together",
            where=b.where(), detail="; ".join(why) or "%d inserts, %d Some pushes, %d None pushes" % (
                len(inserts), len(somes), len(nones)))


def r_stats(F, R, cat=None):
    """every input that encode accepts is recorded in the statistics the next generation's
    dictionary is built from (heavy-hitter summary and first-byte bitmap), whether it was stored
    as a tag or as a literal"""
    cat = cat or Catalogue(F)
    b = codec_body(F, "encode")
    if b is None:
        R.floor("R-STATS", "DictionaryCodec::encode", 0, 1)
        return
    R.saw(b)
    ctx, effs = cat.effects(b)
    param = ("place", b.key, ("arg", 2), ())
    ins = set()
    for (bi, t) in b.calls():
        if callee_tag(t.get("callee")) in (("MisraGries", "insert"), ("MisraGries", "update")):
            recv = operand_tree(ctx, t["args"][0])
            val = operand_tree(ctx, t["args"][1])
            if recv[0] == "place" and recv[2] == ("arg", 1) and recv[3][:1] == ("f:stats",) and \
                    any(nd == param for nd in walk(val)):
                ins.add(bi)
    # a `?` that hands an error back refuses the input: that exit is not an accepted input
    from expr import try_sites as _try_sites
    refusals = {brk for (_c, _k, brk, _e) in _try_sites(ctx)}
    ok1 = bool(ins) and not b.can_return_avoiding(set(ins) | refusals)
    R.check("R-STATS", b.label(), ok1, construct="every accepted input enters the heavy-hitter summary",
            where=b.where(), detail="summary insert sites %s" % sorted(ins))
    # bitmap: stores into stats.1[..] ; empty inputs have no first byte
    bm = set()
    for e in effs:
        if e.cls == "assign" and e.ctx is ctx:
            for (c, (r, p)) in e.targets or ():
                if r == ("arg", 1) and p[:2] == ("f:stats", "f:1"):
                    bm.add(e.bb)
                elif r == ("arg", 1) and p[:1] == ("f:stats",) and len(p) == 3 and p[2] == "[]" and p[1] != "f:0":
                    bm.add(e.bb)  # the bitmap words under their field name (`stats.leading[i] |= ..`)
    empties = {bi for bi in b.live_blocks() if any(is_empty_fact(f, b.key) for f in facts_at(ctx, bi))}
    if not bm and any(e.cls == "assign" and e.ctx is not ctx and any(
            r == ("arg", 1) and p[:2] == ("f:stats", "f:1") for (c, (r, p)) in e.targets or ()) for e in effs):
        R.undecided_site("R-STATS", b.label(), "the first-byte bitmap is written inside a closure: that it runs for every non-empty input is not decided")
        return
    ok2 = bool(bm) and not b.can_return_avoiding(bm | empties | refusals)
    R.check("R-STATS", b.label(), ok2, construct="every non-empty accepted input records its first byte",
            where=b.where(), detail="bitmap stores at blocks %s; empty-input blocks %s" % (sorted(bm), sorted(empties)))


# ---------------------------------------------------------------------------------------------
# R-DEDUP: merging duplicates with Vec::dedup_by accumulates into the element that is kept


def r_dedup(F, R):
    """`Vec::dedup_by(|a, b| ..)` hands the closure the *later* element first and removes it when
    the closure returns true; `b` is the retained one.  A closure that merges duplicates (writes
    into one element and returns true) must therefore write into its second parameter.  Fires only
    on positive evidence: the closure writes through its first parameter and never through the
    second."""
    n = 0
    for b in F.bodies.values():
        if b.in_tests() or b.kind == "Closure":
            continue
        for (bi, t) in b.calls():
            if callee_tag(t.get("callee"))[1] != "dedup_by" or len(t["args"]) < 2:
                continue
            ctx = Ctx(b)
            clo = operand_tree(ctx, t["args"][1])
            if not (clo[0] == "agg" and str(clo[1]).startswith("closure:")):
                R.undecided_site("R-DEDUP", b.label(), "dedup_by with a non-closure predicate")
                continue
            cb = F.body(clo[1][len("closure:"):])
            if cb is None:
                continue
            n += 1
            R.saw(cb)
            cctx = Ctx(cb)
            wrote = {2: False, 3: False}
            for xb in cb.live_blocks():
                for st in cb.blocks[xb]["stmts"]:
                    if st["k"] == "assign" and st["place"]["p"]:
                        for (r, p) in cctx.org.place(st["place"]):
                            if r in (("arg", 2), ("arg", 3)):
                                wrote[r[1]] = True
                tt = cb.term(xb)
                if tt["k"] == "call":
                    for a in tt["args"]:
                        if a["k"] in ("move", "copy") and cb.locals[a["place"]["l"]]["ty"].get("mut"):
                            for (r, p) in cctx.org.operand(a):
                                if r in (("arg", 2), ("arg", 3)) and p:
                                    wrote[r[1]] = True
            ok = not (wrote[2] and not wrote[3])
            R.check("R-DEDUP", b.label(), ok, construct="dedup_by merges into the retained (second) element",
                    where="%s:%s" % (b.file, t["line"]),
                    detail="writes through first parameter: %s, through second: %s" % (wrote[2], wrote[3]) +
                    ("" if ok else "; the first parameter is the element dedup_by removes, so what is "
                     "accumulated into it is dropped"))
    R.info("R-DEDUP: %d dedup_by closures analysed" % n)


# ---------------------------------------------------------------------------------------------
# R-WEIGHT: the heavy-hitter summary's weighted update adds the caller's count


def r_update_weight(F, R):
    """`MisraGries::update(element, count)` stands for `count` insertions.  Every store of the
    method that bumps a stored weight in place (`*w = *w + k`) has to take the addend from the
    count parameter.  Fires only on positive evidence: a self-increment by a literal in a method
    that was handed a count.  The floor is the site where the count enters the summary."""
    MG = "impls::codec::misra_gries::MisraGries"
    bodies = [b for b in F.inherent_methods(MG) if b.nargs >= 3 and
              any(b.locals[i]["ty"].get("s") == "usize" for i in range(2, b.nargs + 1))]
    n = 0
    for b in bodies:
        ctx = Ctx(b)
        counts = [("place", b.key, ("arg", i), ()) for i in range(2, b.nargs + 1) if b.locals[i]["ty"].get("s") == "usize"]
        R.saw(b)
        enters = False
        for (bi, t) in b.calls():
            for a in t["args"][1:]:
                if any(nd in counts for nd in walk(operand_tree(ctx, a))):
                    enters = True
        for bi in b.live_blocks():
            for st in b.blocks[bi]["stmts"]:
                if st["k"] != "assign" or not st["place"]["p"]:
                    continue
                if not any(e["k"] == "deref" for e in st["place"]["p"]):
                    continue  # only stores through a reference reach the summary
                rv = st["rv"]
                if rv["k"] != "use":
                    continue
                val = operand_tree(ctx, rv["op"])
                if any(nd in counts for nd in walk(val)):
                    enters = True
                    continue
                adds = [nd for nd in walk(val) if (nd[0] == "bin" and nd[1] == "Add") or
                        (nd[0] == "call" and nd[1][1] in ("saturating_add", "wrapping_add", "checked_add"))]
                for nd in adds:
                    ops = nd[2:4] if nd[0] == "bin" else nd[2]
                    consts = [o for o in ops if o[0] == "const"]
                    if len(ops) == 2 and len(consts) == 1 and str(consts[0][1]) not in ("0",):
                        n += 1
                        R.check("R-WEIGHT", b.label(), False,
                                construct="an in-place weight increment adds the caller's count",
                                where="%s:%s" % (b.file, st.get("line", b.line)),
                                detail="a stored weight is bumped by the literal %s although the method was handed a count" % (consts[0][1],))
        n += 1
        R.check("R-WEIGHT", b.label(), enters, construct="the count parameter enters the summary",
                where=b.where(), detail="count flows into a store or call on the summary: %s" % enters)
    R.floor("R-WEIGHT", "MisraGries weighted update", n, 1)


# ---------------------------------------------------------------------------------------------
# R-DECODE: decode hands its argument back only for an empty input or an unassigned first byte


def _lookup_chain_none(F, f, key):
    """fact f says `bytes.first().and_then(|tag| self.decode.get(tag))` (or the filter form) is
    None: the input is empty or its first byte has no entry"""
    from expr import apply_fn, nobb, tproj
    param = ("place", key, ("arg", 2), ())
    if f[0] != "variant" or not isinstance(f[1], tuple) or f[1][0] != "call" or len(f[1][2]) != 2 or f[1][3]:
        return False
    if not (f[2] == "0" or (isinstance(f[2], tuple) and f[2][0] == "not" and "1" in f[2][1])):
        return False
    src = nobb(f[1][2][0])
    if not (src[0] == "call" and src[1] in (("slice", "first"), ("slice", "get")) and src[2] and src[2][0] == param):
        return False
    res = apply_fn(F, f[1][2][1], [tproj(f[1][2][0], ("v:Some", "f:0"))])
    if len(res) != 1:
        return False
    r = next(iter(res))
    if f[1][1] == ("Option", "and_then"):
        return unassigned_fact(("variant", r, "0"), key)
    if f[1][1] == ("Option", "filter"):
        return unassigned_fact(("truthy", r, False), key)
    return False


def _mentions_field(F, b, name):
    """some place in the body (or a closure / inlined helper of it) goes through the field `name`
    of the codec"""
    import json
    from core import all_ctxs
    needle = '"name": "%s"' % name
    for c in all_ctxs(F, b):
        raw = getattr(c.body, "raw", None) or {"blocks": c.body.blocks}
        if needle in json.dumps(raw.get("blocks", raw)):
            return True
    return False


def _table_lookup_present(F, b):
    """the body (or a closure / inlined helper of it) still calls BytesMap::get: the reader-table
    rules have their anchor"""
    from core import all_ctxs
    return any(callee_tag(t.get("callee")) == ("BytesMap", "get") for c in all_ctxs(F, b) for (_, t) in c.body.calls())


def r_decode_total(F, R):
    """`DictionaryCodec::decode` maps a stored slice back to what was pushed: the table entry of
    its first byte when the reader's table has one, the slice itself otherwise.  Every way of
    returning the argument unchanged must therefore have established that the input is empty or
    that the reader's table has no entry for the first byte -- a shortcut that hands the argument
    back on any other ground returns a tag byte where an entry was pushed."""
    from expr import edge_facts, reachable_avoiding, nobb
    b = codec_body(F, "decode")
    if b is None:
        R.floor("R-DECODE", "DictionaryCodec::decode", 0, 1)
        return
    R.saw(b)
    ctx = Ctx(b)
    param = ("place", b.key, ("arg", 2), ())
    if not _table_lookup_present(F, b):
        R.undecided_site("R-DECODE", b.label(), "decode does not call the reader table's lookup (inlined or replaced): not decided")
        return

    def admits(f):
        return is_empty_fact(f, b.key) or unassigned_fact(f, b.key) or _lookup_chain_none(F, f, b.key)
    good = {bi for bi in b.live_blocks() if any(admits(f) for f in facts_at(ctx, bi))}
    good_edges = set()
    for s_ in b.live_blocks():
        for (tgt, fs) in edge_facts(ctx, s_):
            if any(admits(f) for f in fs):
                good_edges.add((s_, tgt))
    reach = reachable_avoiding(b, 0, good, good_edges)
    n = 0
    for bi in sorted(b.live_blocks()):
        for si, st in enumerate(b.blocks[bi]["stmts"]):
            if not (st["k"] == "assign" and st["place"]["l"] == 0 and not st["place"]["p"]):
                continue
            val = nobb(trees(ctx, ctx.org.rvalue(st["rv"], bi, si)))
            if val == param:
                n += 1
                R.check("R-DECODE", b.label(), bi not in reach, construct="the argument is returned unchanged only when empty or unassigned",
                        where="%s:%s" % (b.file, st["line"]),
                        detail="guarding blocks %s" % sorted(good) if bi not in reach else
                        "this return of the argument can be reached without having seen an empty input or an unassigned "
                        "first byte in the reader's table: an input that is a dictionary tag is handed back as the tag byte")
    # value-level selection: `lookup.unwrap_or(bytes)` hands the argument back exactly when the lookup is None
    for (bi, t) in b.calls():
        tag = callee_tag(t.get("callee"))
        if tag in (("Option", "unwrap_or"), ("Option", "map_or")) and len(t["args"]) >= 2 and \
                nobb(operand_tree(ctx, t["args"][1])) == param:
            n += 1
            opt = _strip_opt(operand_tree(ctx, t["args"][0]))
            sel_ok = unassigned_fact(("variant", opt, "0"), b.key) or _lookup_chain_none(F, ("variant", opt, "0"), b.key)
            if sel_ok:
                R.check("R-DECODE", b.label(), True, construct="the argument is returned unchanged only when empty or unassigned",
                        where="%s:%s" % (b.file, t["line"]), detail="fallback of the table lookup itself")
            else:
                R.undecided_site("R-DECODE", b.label(), "the argument is the fallback of %s, which is not recognisably the reader's table lookup" % show(opt)[:80])
    R.floor("R-DECODE", "returns of the argument in decode", n, 1)


# ---------------------------------------------------------------------------------------------
# R-BYTESMAP: an empty range encodes None; R-STATS-ORDER: the summary is ranked heaviest first


def r_bytesmap(F, R):
    """`BytesMap::push(None)` appends no bytes, so an unassigned slot is an *empty* range; `get`
    must therefore answer Some only under a strict `lower < upper` test of the two offsets.  With
    `<=` every reserved first byte reads as an (empty) dictionary entry."""
    from expr import ret_alts, nobb, NONE
    bodies = [b for b in F.bodies.values() if (b.self_adt or "").endswith("BytesMap") and b.name == "get" and not b.in_tests()]
    if not bodies:
        # the lookup was inlined into its callers (or the table type was replaced): no anchor
        R.undecided_site("R-BYTESMAP", "BytesMap", "no BytesMap::get method on this tree: how an unassigned slot is told from an entry is not decided")
        return
    R.floor("R-BYTESMAP", "BytesMap::get", len(bodies), 1)
    for b in bodies:
        R.saw(b)
        ctx = Ctx(b)
        n = 0
        for bi in sorted(b.live_blocks()):
            for si, st in enumerate(b.blocks[bi]["stmts"]):
                if not (st["k"] == "assign" and st["place"]["l"] == 0 and not st["place"]["p"] and st["rv"]["k"] == "aggregate" and
                        st["rv"].get("variant_name") == "Some"):
                    continue
                n += 1
                strict = [f for f in facts_at(ctx, bi) if f[0] in ("Lt", "Gt") and all(
                    isinstance(x, tuple) and any(nd[0] == "place" and nd[2] == ("arg", 1) and nd[3][:1] == ("f:offsets",) for nd in walk(x))
                    for x in f[1:3])]
                weak = [f for f in facts_at(ctx, bi) if f[0] in ("Le", "Ge") and all(
                    isinstance(x, tuple) and any(nd[0] == "place" and nd[2] == ("arg", 1) and nd[3][:1] == ("f:offsets",) for nd in walk(x))
                    for x in f[1:3])]
                if strict:
                    R.check("R-BYTESMAP", b.label(), True, construct="an entry is Some only when its range is non-empty",
                            where="%s:%s" % (b.file, st["line"]), detail="strict comparison of the two offsets")
                elif weak:
                    R.check("R-BYTESMAP", b.label(), False, construct="an entry is Some only when its range is non-empty",
                            where="%s:%s" % (b.file, st["line"]),
                            detail="Some is returned under a non-strict comparison of the two offsets: an empty range -- how "
                                   "push(None) stores an unassigned slot -- reads back as an assigned, empty entry")
                else:
                    R.undecided_site("R-BYTESMAP", b.label(), "Some returned without a recognisable comparison of the two offsets")
        if n == 0:
            # combinator form `(lower < upper).then(|| ..)`
            for (bi, t) in b.calls():
                if callee_tag(t.get("callee")) in (("bool", "then"), ("bool", "then_some")) and t["args"]:
                    c = nobb(operand_tree(ctx, t["args"][0]))
                    n += 1
                    if c[0] == "bin" and c[1] in ("Lt", "Gt"):
                        R.check("R-BYTESMAP", b.label(), True, construct="an entry is Some only when its range is non-empty",
                                where="%s:%s" % (b.file, t["line"]), detail="strict comparison of the two offsets")
                    elif c[0] == "bin" and c[1] in ("Le", "Ge"):
                        R.check("R-BYTESMAP", b.label(), False, construct="an entry is Some only when its range is non-empty",
                                where="%s:%s" % (b.file, t["line"]), detail="non-strict comparison: an empty range reads back as an entry")
                    else:
                        R.undecided_site("R-BYTESMAP", b.label(), "then() condition not recognised: %s" % show(c)[:60])
        if n == 0:
            R.undecided_site("R-BYTESMAP", b.label(), "no Some result recognised")


def r_done_lossless(F, R):
    """`MisraGries::done` hands the ranking to `new_from`, which calls it on a *clone* of the
    summary: what it returns must not depend on the allocation's capacity (a clone's capacity is
    its length, not the 2k the summary was created with).  Positive evidence: in done (or a helper
    inlined into it) a `truncate` / `pop` / weight subtraction whose amount or guard is derived from
    `capacity()` -- the bound that `tidy` applies while the summary is live cuts a cloned summary in
    half and subtracts the cut-off weight from the heavy hitters."""
    from core import all_ctxs
    from expr import nobb
    MG = "impls::codec::misra_gries::MisraGries"
    n = 0
    for b in F.bodies.values():
        if b.self_adt != MG or b.in_tests() or b.kind != "AssocFn" or b.name != "done":
            continue
        R.saw(b)
        ctxs = list(all_ctxs(F, b))
        seen = {b.key}
        for ctx in list(ctxs):
            for (bi, t) in ctx.body.calls():
                ce = t.get("callee") or {}
                if ce.get("local") and callee_tag(ce)[0] == "MisraGries":
                    hb = F.body(((ce.get("resolved") or {}).get("key")) or ce.get("key"))
                    if hb is not None and hb.key not in seen:
                        seen.add(hb.key)
                        ctxs.extend(all_ctxs(F, hb))  # a method of the summary that done() calls (not inlined)
        for ctx in ctxs:
            for (bi, t) in ctx.body.calls():
                if callee_tag(t.get("callee"))[1] not in ("truncate", "pop", "drain", "split_off"):
                    continue
                n += 1
                args = [nobb(operand_tree(ctx, a)) for a in t["args"][1:]]
                dep = any(nd[0] == "call" and nd[1][1] == "capacity" for a in args for nd in walk(a))
                if not dep:
                    for f in facts_at(ctx, bi):
                        if any(isinstance(x, tuple) and any(nd[0] == "call" and nd[1][1] == "capacity" for nd in walk(nobb(x)))
                               for x in f[1:3]):
                            dep = True
                R.check("R-STATS", b.label(), not dep, construct="the ranking handed out does not depend on the allocation's capacity",
                        where="%s:%s" % (ctx.body.file, t["line"]),
                        detail="%s at block %d" % (callee_tag(t.get("callee"))[1], bi) +
                        (": its amount or guard derives from capacity(); new_from calls done() on a clone, whose capacity is its "
                         "length -- half of the distinct strings are cut and the cut-off weight is subtracted from the rest"
                         if dep else ""))
    R.info("R-STATS: %d shrinking calls in MisraGries::done inspected" % n)
    # new_from sums the rankings of all its sources: a ranking cut short per source (`done().into_iter().take(256)`)
    # drops the counts of strings that are in no single source's top but dominate the sum
    nb = codec_body(F, "new_from")
    if nb is not None:
        for ctx in all_ctxs(F, nb):
            for (bi, t) in ctx.body.calls():
                tag = callee_tag(t.get("callee"))
                if tag[1] not in ("take", "take_while", "truncate", "step_by", "skip") or not t["args"]:
                    continue
                src = nobb(operand_tree(ctx, t["args"][0]))
                if any(nd[0] == "call" and nd[1] == ("MisraGries", "done") for nd in walk(src)):
                    R.saw(nb)
                    R.check("R-STATS", nb.label(), False, construct="the sources' rankings are summed in full",
                            where="%s:%s" % (ctx.body.file, t["line"]),
                            detail="%s is applied to a source's ranking (%s) before the sources are summed: a string that is outside that "
                                   "cut in every source but heaviest in the sum gets no tag" % (tag[1], show(src)[:60]))


def r_stats_order(F, R):
    """`MisraGries::tidy` keeps the first k entries after sorting and `done` hands the ranking to
    `new_from`, which assigns tags in that order: both sorts must rank the heaviest first, i.e.
    their comparison closures compare the *second* parameter's weight with the first's."""
    from expr import nobb
    MG = "impls::codec::misra_gries::MisraGries"
    n = 0
    for b in F.bodies.values():
        if b.self_adt != MG or b.in_tests() or b.kind != "AssocFn":
            continue
        ctx = Ctx(b)
        for (bi, t) in b.calls():
            if callee_tag(t.get("callee"))[1] in ("sort_by_key", "sort_by_cached_key", "sort_unstable_by_key") and len(t["args"]) >= 2:
                # `sort_by_key(|x| Reverse(x.1))`: descending by weight
                clo_ = operand_tree(ctx, t["args"][1])
                cb_ = F.body(clo_[1][len("closure:"):]) if clo_[0] == "agg" and str(clo_[1]).startswith("closure:") else None
                if cb_ is not None:
                    cc_ = Ctx(cb_)
                    keys = [nobb(tree(cc_, o)) for o in cc_.org.local(0)]
                    by_w = [k for k in keys if any(nd[0] == "place" and nd[1] == cb_.key and nd[3] and nd[3][-1] == "f:1" for nd in walk(k))]
                    if by_w and len(by_w) == len(keys):
                        n += 1
                        R.saw(b)
                        desc = all(k[0] == "agg" and str(k[1]).startswith("Reverse") for k in keys)
                        R.check("R-STATS", b.label(), desc, construct="the summary is ranked heaviest first",
                                where="%s:%s" % (b.file, t["line"]),
                                detail="sort key %s" % show(keys[0])[:60] + ("" if desc else ": ascending by weight"))
                continue
            if callee_tag(t.get("callee"))[1] not in ("sort_by", "sort_unstable_by") or len(t["args"]) < 2:
                continue
            clo = operand_tree(ctx, t["args"][1])
            if clo[0] == "const":
                from expr import _fnitem_body
                cb = _fnitem_body(F, clo[1])  # `sort_by(by_count_descending)`: a named comparison function
            elif clo[0] == "agg" and str(clo[1]).startswith("closure:"):
                cb = F.body(clo[1][len("closure:"):])
            else:
                continue
            if cb is None:
                continue
            cctx = Ctx(cb)
            rets = [nobb(tree(cctx, o)) for o in cctx.org.local(0)]
            recognised = False
            for r in rets:
                flip = False
                while r[0] == "call" and r[1][1] == "reverse" and len(r[2]) == 1:
                    r = r[2][0]  # `a.cmp(b).reverse()`
                    flip = not flip
                if r[0] == "call" and r[1][1] == "cmp" and len(r[2]) == 2:
                    a, c = r[2]
                    pa = [nd for nd in walk(a) if nd[0] == "place" and nd[1] == cb.key]
                    pc = [nd for nd in walk(c) if nd[0] == "place" and nd[1] == cb.key]
                    ra = [nd[2] for nd in pa]
                    rc = [nd[2] for nd in pc]
                    # only the ranking by *weight* (the second component of an entry); the sort by
                    # element that consolidation does is ascending on purpose
                    by_weight = all(nd[3] and nd[3][-1] == "f:1" for nd in pa + pc)
                    if by_weight and len(set(ra)) == 1 and len(set(rc)) == 1 and ra[0][0] == "arg" and rc[0][0] == "arg" and ra[0] != rc[0]:
                        n += 1
                        recognised = True
                        R.saw(b)
                        desc = (ra[0][1] > rc[0][1]) != flip
                        R.check("R-STATS", b.label(), desc, construct="the summary is ranked heaviest first",
                                where="%s:%s" % (b.file, t["line"]),
                                detail="comparison of parameter %d with parameter %d" % (ra[0][1] - 1, rc[0][1] - 1) +
                                ("" if desc else ": ascending order -- tidy() then truncates away the heaviest entries and done() "
                                                 "hands new_from the lightest strings first"))
            if not recognised and any(nd[0] == "place" and nd[1] == cb.key and nd[3] and nd[3][-1] == "f:1"
                                      for r in rets for nd in walk(r)) and \
                    not any(nd[0] == "place" and nd[1] == cb.key and nd[3] and nd[3][-1] == "f:0" for r in rets for nd in walk(r)):
                n += 1
                R.undecided_site("R-STATS", b.label(), "the comparison at %s:%s looks at the weights in a shape the rule does not "
                                 "read (%s): which end of the ranking is the heaviest is not decided" %
                                 (b.file, t["line"], show(rets[0])[:80] if rets else "?"))
    R.floor("R-STATS", "ranking sorts of the heavy-hitter summary", n, 2)
