"""Lifecycle rules: R-TODO, R-RESET, R-SEED, R-FRESH, R-RESERVE-ONLY, R-CLONE, R-COVER(heap_size)."""
from core import (Ctx, body_effects, callee_tag, classify, describe, short, base_places)
from model import (Catalogue, absval, equiv, navigate, constructed, field_of_target,
                   self_field_targets, is_phantom, is_storage_type, store_type, item_storage,
                   EMPTY_CTORS, SIZED_CTORS, STAT_CTORS)

LIMITING_ADAPTORS = {"skip", "take", "step_by", "filter", "skip_while", "take_while", "filter_map",
                     "rev_"}

# ---------------------------------------------------------------------------------------------
# R-TODO

TODO_TRAITS = ("Region", "Push", "ReserveItems", "Storage", "IndexContainer", "Codec", "IntoOwned",
               "PushStorage")


def unconditional_diverge(body):
    """True when no `return` is reachable from the entry block"""
    return not body.return_blocks()


def r_todo(F, R, names=None, traits=TODO_TRAITS):
    n = 0
    for b in F.bodies.values():
        if b.kind != "AssocFn" or b.in_tests() or b.trait not in traits:
            continue
        if names is not None and b.name not in names:
            continue
        n += 1
        R.saw(b)
        div = unconditional_diverge(b)
        what = ""
        if div:
            for i in sorted(b.diverging_blocks()):
                ce = b.term(i).get("callee")
                what = short(ce["path"]) if ce else "?"
                break
        R.check("R-TODO", b.label(), not div, construct="entry always diverges" if div else "",
                where=b.where(), detail="body never returns (%s)" % what if div else "",
                nontrivial=len(b.blocks) > 1)
    R.floor("R-TODO", "trait-method bodies inspected", n, 1)
    return n


# ---------------------------------------------------------------------------------------------
# defaults


def default_values(cat, adt):
    """field -> abstract value constructed by Default::default() of adt, plus the seed appends
    {field: [(tag, (absargs))]}; None if no Default impl with MIR"""
    bs = cat.methods(adt, "default", "Default")
    if not bs:
        return None
    b = bs[0]
    ctx, effs = cat.effects(b)
    cons = constructed(ctx, adt)
    a_ = cat.F.adts.get(adt)
    if a_ is not None and a_["kind"] == "enum":
        cons = []
    if not cons:
        # enum (#[default] variant) or other shape: abstract value of the return place
        vals = {}
        for o in ctx.org.local(0):
            vals[None] = absval(ctx, o)
        return {"values": vals, "seeds": {}, "body": b}
    root, fm = cons[0]
    vals = {}
    for f, origins in fm.items():
        if len(origins) == 1:
            vals[f] = absval(ctx, next(iter(origins)))
        else:
            vals[f] = ("multi",)
    seeds = seeds_constructed(ctx, effs, fm)
    return {"values": vals, "seeds": seeds, "body": b}


def abs_args(e):
    out = []
    for os_ in (e.argorigins or [])[1:]:
        vals = sorted(repr(absval(e.ctx, o)) for o in os_)
        out.append("|".join(vals))
    return tuple(out)


def seeds_constructed(ctx, effs, fm, drop_fresh_children=False):
    seeds = {}
    for e in effs:
        if e.cls != "append":
            continue
        for t in e.targets or ():
            fr = field_of_target(ctx, t, fm)
            if fr is not None:
                if drop_fresh_children and appended_is_fresh_child(e, effs):
                    continue
                seeds.setdefault(fr[0], []).append((e.tag[1], abs_args(e)))
    return seeds


BULK_APPENDS = ("extend", "extend_from_slice", "append")


def appended_values(e):
    """(ctx, origin) of what an append-class effect stores: the argument itself for push-like
    calls, the *elements* of the argument for bulk appends (`extend(iter)`: what the iterator
    yields -- for `iter.map(f)` that is what f returns)"""
    out = []
    bulk = e.tag[1] in BULK_APPENDS
    for os_ in (e.argorigins or [])[1:]:
        for o in os_:
            o2 = (o[0], tuple(o[1]) + ("[]",)) if bulk else o
            for (c2, o3) in base_places(e.ctx, o2):
                out.append((c2, o3))
    return out


def appended_is_fresh_child(e, effs):
    """the appended value is a freshly constructed child region (column creation), not content"""
    vals = [fresh_value(c2, o2, effs) for (c2, o2) in appended_values(e)]
    return bool(vals) and all(v[0] and ("merge_regions" in v[1] or "Default::default" in v[1] or
                                        "with_capacity" in v[1]) for v in vals)


# ---------------------------------------------------------------------------------------------
# R-RESET / R-SEED


def reset_sites(cat, b, ctx, effs, adt, field, dflt):
    """blocks (top-level) at which `field` is reset on the way; plus reasons"""
    sites = set()
    notes = []
    iter_starts = {}
    subclears = {}  # field of the field's own struct type -> blocks that clear it
    for e in effs:
        if e.cls == "access" and e.tag[1] in ("into_iter", "iter_mut", "iter"):
            for (f, rest) in self_field_targets(e, ctx):
                if f == field and rest == ():
                    iter_starts.setdefault(f, set()).add(e.top_bb)
    for e in effs:
        for (f, rest) in self_field_targets(e, ctx):
            if f is None and rest == ():
                # whole-self effects
                if e.cls == "clear":
                    sites.add(e.top_bb)
                    notes.append("self cleared")
                elif e.cls == "assign":
                    vals = [absval(e.ctx, o) for o in e.value]
                    dv = dflt["values"].get(None) if dflt else None
                    if all(v == ("empty",) or (dv is not None and equiv(v, dv)) for v in vals):
                        sites.add(e.top_bb)
                        notes.append("*self = default")
                continue
            if f != field:
                continue
            if e.cls == "clear":
                if rest == ():
                    sites.add(e.top_bb)
                    notes.append("%s() @%s" % (e.tag[1], e.line))
                elif rest == ("[]",):
                    starts = [s for s in iter_starts.get(f, ()) if b.dominates(s, e.top_bb)]
                    if starts:
                        sites.update(starts)
                    else:
                        sites.add(e.top_bb)
                    notes.append("element-wise %s() @%s" % (e.tag[1], e.line))
                else:
                    # clearing a sub-part: fine if default() has 'empty' there
                    dv = dflt["values"].get(field) if dflt else None
                    sub = navigate(dv, rest) if dv else None
                    if sub == ("empty",):
                        sites.add(e.top_bb)
                        notes.append("sub-part %s cleared @%s" % (".".join(rest), e.line))
                    elif len(rest) == 1 and rest[0].startswith("f:"):
                        subclears.setdefault(rest[0][2:], set()).add(e.top_bb)
            elif e.cls == "destructive" and e.tag == ("Option", "take") and rest == ():
                # `self.f.take()` leaves None behind
                dv = dflt["values"].get(field) if dflt else None
                if dv is None or equiv(("empty",), dv):
                    sites.add(e.top_bb)
                    notes.append("take() leaves None @%s" % e.line)
            elif e.cls == "assign" and rest == ():
                vals = [absval(e.ctx, o) for o in e.value]
                dv = dflt["values"].get(field) if dflt else None
                if dv is not None and all(equiv(v, dv) for v in vals):
                    sites.add(e.top_bb)
                    notes.append("= %s @%s" % (vals[0], e.line))
                elif dv is None and all(v == ("empty",) for v in vals):
                    sites.add(e.top_bb)
                    notes.append("= default @%s" % e.line)
                else:
                    notes.append("assigned %s but default() gives %s @%s" % (vals, dv, e.line))
    if not sites and subclears and field is not None:
        # the field is a struct of the crate and its parts are cleared one by one
        # (`self.spilled.smol.clear(); self.spilled.chonk.clear()`): a reset when every part is
        # cleared on every path
        fty = next((fd["ty"] for fd in cat.fields(adt) if fd["name"] == field), None)
        sub_adt = fty.get("adt") if fty else None
        if sub_adt and sub_adt in cat.F.adts and cat.F.adts[sub_adt].get("kind") == "struct":
            subs = [fd["name"] for fd in cat.fields(sub_adt) if not is_phantom(fd["ty"])]
            if subs and all(sf in subclears and not b.can_return_avoiding(subclears[sf]) for sf in subs):
                sites |= subclears[subs[0]]
                notes.append("every part of %s cleared (%s)" % (field, ", ".join(subs)))
    return sites, notes


def limited_iteration(effs, ctx, field):
    for e in effs:
        if e.cls == "adaptor" and e.tag[1] in LIMITING_ADAPTORS:
            for (f, rest) in self_field_targets(e, ctx):
                if f == field:
                    return e
    return None


def clear_methods(cat, adt):
    return [b for b in cat.methods(adt, "clear")]


def r_reset(F, R, cat=None, only=None):
    cat = cat or Catalogue(F)
    n = 0
    for adt in cat.local_types():
        if only and short(adt) not in only:
            continue
        fields = cat.fields(adt)
        dflt = default_values(cat, adt)
        for b in clear_methods(cat, adt):
            R.saw(b)
            ctx, effs = cat.effects(b)
            if F.adts[adt]["kind"] == "enum":
                # enum state machine: *self must be reassigned from default on every path
                sites, notes = reset_sites(cat, b, ctx, effs, adt, None, dflt)
                ok = not b.can_return_avoiding(sites)
                R.check("R-RESET", b.label(), ok, construct="*self", where=b.where(),
                        detail="; ".join(notes) or "no reset of *self on some path")
                n += 1
                continue
            # forwarding wrapper (Storage::clear -> inherent clear)?
            fwd = forwarding_to_own(b, effs, ctx, "clear")
            if fwd:
                R.check("R-RESET", b.label(), True, construct="forwards to " + fwd, where=b.where(),
                        nontrivial=False)
                n += 1
                continue
            for fd in fields:
                if is_phantom(fd["ty"]):
                    continue
                f = fd["name"]
                sites, notes = reset_sites(cat, b, ctx, effs, adt, f, dflt)
                ok = bool(sites) and not b.can_return_avoiding(sites)
                lim = limited_iteration(effs, ctx, f)
                if ok and lim is not None:
                    ok = False
                    notes.append("iteration limited by %s" % lim.tag[1])
                R.check("R-RESET", b.label(), ok, construct="field " + f, where=b.where(),
                        detail="; ".join(notes) if notes else "field is not cleared/reset on every path")
                n += 1
    R.floor("R-RESET", "field reset obligations", n, 20 if not only else 1)


def forwarding_to_own(b, effs, ctx, name):
    """body consists of a single call on whole self to a same-named method"""
    calls = [e for e in effs if e.kind == "call"]
    if len(calls) == 1 and calls[0].tag[1] == name:
        ts = self_field_targets(calls[0], ctx)
        if ts == [(None, ())]:
            return short(calls[0].callee["path"])
    return None


def r_seed(F, R, cat=None, only=None):
    """default(), clear(), merge_regions() agree on post-construction content"""
    cat = cat or Catalogue(F)
    n = 0
    for adt in cat.local_types():
        if only and short(adt) not in only:
            continue
        dflt = default_values(cat, adt)
        if dflt is None:
            continue
        dseeds = dflt["seeds"]
        # clear: appends to self fields dominated by the reset of that field
        for b in clear_methods(cat, adt):
            ctx, effs = cat.effects(b)
            if forwarding_to_own(b, effs, ctx, "clear"):
                continue
            cseeds = {}
            for e in effs:
                if e.cls != "append":
                    continue
                for (f, rest) in self_field_targets(e, ctx):
                    if f is not None and rest == ():
                        cseeds.setdefault(f, []).append((e.tag[1], abs_args(e), e))
            fields = set(dseeds) | set(cseeds)
            for f in sorted(fields):
                want = sorted(dseeds.get(f, []))
                got = sorted((x[0], x[1]) for x in cseeds.get(f, []))
                ok = want == got
                # ordering: each seed append must come after the field's reset
                if ok and got:
                    sites, _ = reset_sites(cat, b, ctx, effs, adt, f, dflt)
                    for (_, _, e) in cseeds[f]:
                        if not any(b.dominates(s, e.top_bb) for s in sites):
                            ok = False
                R.saw(b)
                R.check("R-SEED", b.label(), ok, construct="field %s seeds" % f, where=b.where(),
                        detail="default() seeds %s, clear() seeds %s" % (want, got))
                n += 1
        for b in cat.methods(adt, "merge_regions", "Region"):
            ctx, effs = cat.effects(b)
            cons = constructed(ctx, adt)
            if not cons:
                continue
            root, fm = cons[0]
            # appends of freshly merged child regions (column creation) are not seeds
            mseeds = seeds_constructed(ctx, effs, fm, drop_fresh_children=True)
            mseeds = {f: [s for s in v if not _is_child_ctor_arg(s)] for f, v in mseeds.items()}
            fields = set(dseeds) | {f for f, v in mseeds.items() if v}
            for f in sorted(fields):
                want = sorted(dseeds.get(f, []))
                got = sorted(mseeds.get(f, []))
                R.saw(b)
                R.check("R-SEED", b.label(), want == got, construct="field %s seeds" % f,
                        where=b.where(),
                        detail="default() seeds %s, merge_regions() seeds %s" % (want, got))
                n += 1
    R.floor("R-SEED", "seed agreement obligations", n, 2 if not only else 0)


def _is_child_ctor_arg(seed):
    return any("merge_regions" in a or "'empty'" in a for a in seed[1])


# ---------------------------------------------------------------------------------------------
# R-FRESH

FRESH_OK_TAGS = EMPTY_CTORS | SIZED_CTORS | STAT_CTORS


def fresh_value(ctx, origin, effs, depth=0):
    """(ok, why) — value is built by an empty/sized constructor, possibly nested in aggregates,
    or a local collection filled only with freshly merged children"""
    root, path = origin
    if root[0] == "call":
        t = ctx.body.term(root[1])
        tag = callee_tag(t.get("callee"))
        if tag in FRESH_OK_TAGS:
            return True, "%s::%s" % tag
        if tag[1] in ("collect", "from_iter") and t["args"] and depth < 6:
            # `(0..n).map(|i| R::merge_regions(..)).collect()`: a collection of freshly built children
            from expr import operand_tree, apply_fn, nobb
            src = nobb(operand_tree(ctx, t["args"][0]))
            while src[0] == "call" and src[1][1] in ("into_iter", "iter") and src[2]:
                src = src[2][0]
            if src[0] == "call" and src[1] == ("Iterator", "map") and len(src[2]) == 2:
                base = src[2][0]
                while base[0] == "call" and base[1][1] in ("into_iter", "iter") and base[2]:
                    base = base[2][0]
                res = apply_fn(ctx.body.facts, src[2][1], [("opaque", "element")])
                fresh_children = bool(res) and all(r[0] == "call" and r[1] in FRESH_OK_TAGS for r in res)
                if fresh_children and base[0] == "agg" and str(base[1]).startswith("Range"):
                    return True, "collected from freshly built children"
        return False, "built by %s::%s" % tag
    if root[0] == "agg":
        rv = ctx.org.stmt(root[1], root[2])["rv"]
        for op in rv["ops"]:
            for o in ctx.org.operand(op):
                ok, why = fresh_value(ctx, o, effs, depth + 1)
                if not ok:
                    return False, why
        return True, "aggregate of fresh parts"
    if root[0] == "const":
        return True, "constant " + root[1]
    return False, "derives from %s" % describe(ctx, origin)


def r_fresh(F, R, cat=None, only=None):
    cat = cat or Catalogue(F)
    n = 0
    for adt in cat.types:
        if only and short(adt) not in only:
            continue
        bodies = cat.methods(adt, "merge_regions", "Region")
        if adt == "FlatStack":
            bodies = cat.methods(adt, "merge_capacity") + cat.methods(adt, "with_capacity")
        for b in bodies:
            R.saw(b)
            ctx, effs = cat.effects(b)
            dflt = default_values(cat, adt) if adt in F.adts else None
            cons = constructed(ctx, adt) if adt in F.adts else []
            if not cons:
                # non-struct Self (Vec<T>): returned value must itself be a fresh constructor
                oks = []
                for o in ctx.org.local(0):
                    oks.append(fresh_value(ctx, o, effs))
                ok = bool(oks) and all(x[0] for x in oks)
                R.check("R-FRESH", b.label(), ok, construct="return value", where=b.where(),
                        detail="; ".join(x[1] for x in oks))
                n += 1
                continue
            for (root, fm) in cons:
                for fd in cat.fields(adt):
                    f = fd["name"]
                    if is_phantom(fd["ty"]):
                        continue
                    origins = fm.get(f, set())
                    storage = is_storage_type(fd["ty"]["s"], F)
                    oks = []
                    for o in origins:
                        if storage:
                            oks.append(fresh_value(ctx, o, effs))
                        else:
                            v = absval(ctx, o)
                            dv = dflt["values"].get(f) if dflt else None
                            oks.append((dv is not None and equiv(v, dv),
                                        "bookkeeping %s vs default %s" % (v, dv)))
                    ok = bool(oks) and all(x[0] for x in oks)
                    R.check("R-FRESH", b.label(), ok, construct="field " + f, where=b.where(),
                            detail="; ".join(x[1] for x in oks))
                    n += 1
                # appended content of constructed fields must itself be fresh (columns) or a seed
                for e in effs:
                    if e.cls not in ("append", "assign", "destructive", "clone_from"):
                        continue
                    for t in e.targets or ():
                        fr = field_of_target(ctx, t, fm)
                        if fr is None:
                            continue
                        vals = [fresh_value(c2, o2, effs) for (c2, o2) in appended_values(e)]
                        ok = e.cls == "append" and all(v[0] for v in vals)
                        R.check("R-FRESH", b.label(), ok,
                                construct="%s into field %s" % (e.tag[1], fr[0]), where=e.where(),
                                detail="; ".join(v[1] for v in vals))
                        n += 1
    R.floor("R-FRESH", "constructed-field obligations", n, 15 if not only else 1)


# ---------------------------------------------------------------------------------------------
# R-RESERVE-ONLY

RESERVE_OK = {"read", "measure", "reserve", "access", "adaptor", "construct", "callback",
              "heap_report", "diverge"}
RESERVE_EXEMPT = {
    # (adt, field, callee name): reason
    ("impls::columns::ColumnsRegion", "inner", "push"):
        "column creation: appends R::default() so that per-column reserve has a receiver",
}


def reserve_methods(cat):
    out = []
    for b in cat.F.bodies.values():
        if b.kind != "AssocFn" or b.in_tests():
            continue
        if (b.trait, b.name) in (("ReserveItems", "reserve_items"), ("Region", "reserve_regions"),
                                 ("Storage", "reserve"), ("Storage", "reserve_regions")):
            out.append(b)
        elif b.trait is None and b.self_adt in ("FlatStack", "impls::index::IndexList") and \
                b.name in ("reserve", "reserve_items", "reserve_regions"):
            out.append(b)
    return out


def r_reserve_only(F, R, cat=None):
    cat = cat or Catalogue(F)
    n = 0
    nbodies = 0
    for b in reserve_methods(cat):
        if unconditional_diverge(b):
            continue  # R-TODO reports it
        nbodies += 1
        R.saw(b)
        ctx, effs = cat.effects(b)
        bad = []
        touched = 0
        for e in effs:
            tg = self_field_targets(e, ctx)
            if not tg:
                continue
            touched += 1
            if e.cls in RESERVE_OK:
                continue
            if e.cls == "unclassified":
                R.undecided_site("R-RESERVE-ONLY", b.label(),
                                 "unclassified callee %s receives self state" % e.tag[1])
                continue
            for (f, rest) in tg:
                if e.cls == "append" and (b.self_adt, f, e.tag[1]) in RESERVE_EXEMPT:
                    vals = [absval(e.ctx, o) for os_ in e.argorigins[1:] for o in os_]
                    if vals and all(v == ("empty",) for v in vals):
                        continue
                if e.cls == "assign" and not is_storage_type(store_type(e), F):
                    # scalar bookkeeping store: not allowed either in a reserve path
                    pass
                bad.append((e, f))
        for (e, f) in bad:
            R.check("R-RESERVE-ONLY", b.label(), False,
                    construct="%s %s on %s" % (e.cls, e.tag[1], f or "self"), where=e.where(),
                    detail="reserve path performs a %s effect" % e.cls)
            n += 1
        if not bad:
            R.check("R-RESERVE-ONLY", b.label(), True, construct="", where=b.where(),
                    detail="%d effects on self, all in {read,measure,reserve}" % touched,
                    nontrivial=touched > 0)
            n += 1
    # reserve bodies that a crate trait *provides* (Storage::reserve_regions): they have no fields
    # to look at, but replacing the receiver wholesale (`*self = Self::merge_regions(..)`) is the
    # same breach -- whatever capacity (and contents) it had is dropped
    for b in F.bodies.values():
        if b.kind != "AssocFn" or b.in_tests() or not b.owner.get("in_trait") or \
                b.name not in ("reserve", "reserve_items", "reserve_regions"):
            continue
        R.saw(b)
        for bi in sorted(b.live_blocks()):
            for st in b.blocks[bi]["stmts"]:
                if st["k"] == "assign" and st["place"]["l"] == 1 and [e["k"] for e in st["place"]["p"]] == ["deref"]:
                    R.check("R-RESERVE-ONLY", b.label(), False, construct="assign = on self", where="%s:%s" % (b.file, st["line"]),
                            detail="the provided reserve path replaces the receiver by a new value: an earlier, larger reservation "
                                   "(an empty but pre-sized storage) is dropped and the reported capacity shrinks")
                    n += 1
            t = b.term(bi)
            if t["k"] == "call" and t.get("dest") and t["dest"]["l"] == 1 and [e["k"] for e in t["dest"]["p"]] == ["deref"]:
                R.check("R-RESERVE-ONLY", b.label(), False, construct="assign = on self", where="%s:%s" % (b.file, t["line"]),
                        detail="the provided reserve path replaces the receiver by the result of %s: an earlier, larger reservation "
                               "(an empty but pre-sized storage) is dropped and the reported capacity shrinks" % callee_tag(t.get("callee"))[1])
                n += 1
    R.floor("R-RESERVE-ONLY", "reserve bodies", nbodies, 30)


# ---------------------------------------------------------------------------------------------
# R-CLONE


def copy_tree(t, key, path, root=("arg", 1)):
    """t denotes a copy of <root>.<path> (self by default): the place itself (clone()/copied()
    are transparent in trees), or an enum/struct aggregate rebuilt from copies of the same
    variant's payload"""
    if t[0] == "place":
        return t[1] == key and t[2] == root and tuple(t[3]) == tuple(path)
    if t[0] == "phi":
        # a payload-free variant (`None => None`) is a copy only next to alternatives that copy
        # the payload-carrying variants of the same field
        unit = [a for a in t[1] if a[0] == "agg" and not a[2]]
        rest = [a for a in t[1] if a not in unit]
        return bool(rest) and all(copy_tree(a, key, path, root) for a in rest)
    if t[0] == "agg" and "::" in str(t[1]) and not str(t[1]).startswith("closure:"):
        if not t[2]:
            return False  # a constant variant on its own copies nothing
        variant = str(t[1]).split("::")[-1]
        return all(copy_tree(op, key, tuple(path) + ("v:" + variant, "f:%d" % i), root) or
                   copy_tree(op, key, tuple(path) + ("f:%d" % i,), root)
                   for i, op in enumerate(t[2]))
    return False


def _tuple_arity(ty):
    ty = ty.strip()
    if not ty.startswith("("):
        return 1
    depth = 0
    n = 1
    inner = ty[1:-1] if ty.endswith(")") else ty[1:]
    if not inner.strip():
        return 0
    for ch in inner:
        if ch in "(<[":
            depth += 1
        elif ch in ")>]":
            depth -= 1
        elif ch == "," and depth == 0:
            n += 1
    if inner.rstrip().endswith(","):
        n -= 1
    return n


def _payload_types(body, adt_field):
    """{variant: type string of payload field 0} read off the field projections in the body"""
    out = {}
    def scan(pl):
        ps = pl["p"]
        for k, e in enumerate(ps):
            if e["k"] == "field" and e.get("name") == adt_field and k + 2 < len(ps) + 1:
                rest = ps[k + 1:]
                if len(rest) >= 2 and rest[0]["k"] == "downcast" and rest[1]["k"] == "field" and rest[1].get("i") == 0:
                    out.setdefault(rest[0].get("name") or str(rest[0].get("variant")), rest[1].get("ty", ""))
    for bi in body.live_blocks():
        for st in body.blocks[bi]["stmts"]:
            if "place" in st:
                scan(st["place"])
            if st["k"] == "assign":
                rv = st["rv"]
                if "place" in rv:
                    scan(rv["place"])
                for key in ("op", "a", "b"):
                    v = rv.get(key)
                    if isinstance(v, dict) and v.get("k") in ("copy", "move"):
                        scan(v["place"])
    return out


def _split_top(s):
    out, depth, cur = [], 0, ""
    for ch in s:
        if ch in "(<[":
            depth += 1
        elif ch in ")>]":
            depth -= 1
        if ch == "," and depth == 0:
            out.append(cur.strip())
            cur = ""
        else:
            cur += ch
    if cur.strip():
        out.append(cur.strip())
    return out


def _payload_types_of_type(F, ty):
    """{variant: payload type} from the declared type of an enum-typed field"""
    ty = ty.strip()
    for (prefix, names) in (("std::result::Result<", ("Ok", "Err")), ("std::option::Option<", ("Some",))):
        if ty.startswith(prefix) and ty.endswith(">"):
            args = _split_top(ty[len(prefix):-1])
            return {n: a for n, a in zip(names, args)}
    base = ty.split("<")[0]
    a = F.adts.get(base)
    if a and a.get("kind") == "enum":
        return {v["name"]: (v["fields"][0]["ty"]["s"] if v["fields"] else "()") for v in a["variants"]}
    return {}


def component_sites(b, ctx, effs, f):
    """blocks at which one variant of the enum-typed field f has been copied completely,
    component by component, from the same variant of source.f"""
    ptypes = _payload_types(b, f)
    F = b.facts
    adt = F.adts.get(b.self_adt)
    if adt and adt["variants"]:
        for fd in adt["variants"][0]["fields"]:
            if fd["name"] == f:
                for k, v in _payload_types_of_type(F, fd["ty"]["s"]).items():
                    ptypes.setdefault(k, v)
    ups = {}  # variant -> {component index or None: [blocks]}
    for e in effs:
        if e.cls not in ("clone_from", "assign"):
            continue
        for (c2, (r, p)) in e.targets or ():
            if c2 is not ctx or r != ("arg", 1) or p[:1] != ("f:" + f,) or len(p) < 3 or not p[1].startswith("v:"):
                continue
            variant = p[1][2:]
            if p[2] != "f:0":
                continue
            comp = p[3] if len(p) > 3 else None
            if len(p) > 4:
                continue  # deeper than one component level: not handled
            want = (("arg", 2), tuple(p))
            if e.cls == "clone_from":
                src = e.argorigins[1] if len(e.argorigins) > 1 else set()
                good = src == {want}
            else:
                good = True
                for o in e.value:
                    if o == want:
                        continue
                    if o[0][0] == "call":
                        t = e.ctx.body.term(o[0][1])
                        if callee_tag(t.get("callee")) == ("Clone", "clone") and t["args"] and \
                                e.ctx.org.operand(t["args"][0]) == {want}:
                            continue
                    good = False
            if good:
                ups.setdefault(variant, {}).setdefault(comp, []).append(e.top_bb)
    sites = set()
    notes = []
    for variant, comps in ups.items():
        if None in comps:
            sites |= set(comps[None])
            notes.append("%s payload copied whole" % variant)
            continue
        if variant not in ptypes:
            notes.append("%s arm: payload type unknown, component-wise copy not decided" % variant)
            continue
        arity = _tuple_arity(ptypes[variant])
        if None in comps:
            sites |= set(comps[None])
            notes.append("%s payload copied whole" % variant)
            continue
        need = ["f:%d" % i for i in range(arity)]
        missing = [c for c in need if c not in comps]
        if missing:
            notes.append("%s arm: component %s of the payload is not copied from the source" % (
                variant, ", ".join(m[2:] for m in missing)))
            continue
        # the point where all components are done: an update block dominated by (or equal to) an
        # update block of every other component
        for c in need:
            for x in comps[c]:
                if all(any(u == x or b.dominates(u, x) for u in comps[c2]) for c2 in need):
                    sites.add(x)
        notes.append("%s arm: all %d components copied" % (variant, arity))
    return sites, notes


def reach_strict_(b, x):
    from expr import reach_strict
    return reach_strict(b, x)


def enum_clone_from(F, R, b, ctx, effs):
    """clone_from of an enum: on every path either the whole value is replaced by a copy of the
    source, or -- in an arm where both sides are the same variant -- every field of that variant is
    updated from the same field of the source."""
    from expr import tree as _tree
    adt = F.adts[b.self_adt]
    vfields = {v["name"]: len(v["fields"]) for v in adt["variants"]}
    sites = set()
    notes = []
    ups = {}
    for e in effs:
        if e.cls not in ("clone_from", "assign"):
            continue
        for (c2, (r, p)) in e.targets or ():
            if c2 is not ctx or r != ("arg", 1):
                continue
            if p == ():
                # whole self
                if e.cls == "clone_from":
                    good = (e.argorigins[1] if len(e.argorigins) > 1 else set()) == {(("arg", 2), ())}
                else:
                    good = bool(e.value)
                    for o in e.value:
                        if o == (("arg", 2), ()):
                            continue
                        if o[0][0] == "call":
                            t = e.ctx.body.term(o[0][1])
                            if callee_tag(t.get("callee")) == ("Clone", "clone") and t["args"] and \
                                    e.ctx.org.operand(t["args"][0]) == {(("arg", 2), ())}:
                                continue
                        if o[0][0] == "agg" and copy_tree(_tree(e.ctx, o), e.ctx.body.key, (), root=("arg", 2)):
                            continue
                        good = False
                if good:
                    sites.add(e.top_bb)
                    notes.append("whole value copied")
                continue
            if len(p) != 2 or not p[0].startswith("v:") or not p[1].startswith("f:"):
                continue
            want = (("arg", 2), tuple(p))
            if e.cls == "clone_from":
                good = (e.argorigins[1] if len(e.argorigins) > 1 else set()) == {want}
            else:
                good = bool(e.value)
                for o in e.value:
                    if o == want:
                        continue
                    if o[0][0] == "call":
                        t = e.ctx.body.term(o[0][1])
                        if callee_tag(t.get("callee")) == ("Clone", "clone") and t["args"] and \
                                e.ctx.org.operand(t["args"][0]) == {want}:
                            continue
                    good = False
            if good:
                ups.setdefault(p[0][2:], {}).setdefault(p[1], []).append(e.top_bb)
    for variant, comps in ups.items():
        need = ["f:%d" % i for i in range(vfields.get(variant, 0))]
        named = [fd["name"] for v in adt["variants"] if v["name"] == variant for fd in v["fields"]]
        need = ["f:" + nm for nm in named] if named and not named[0].isdigit() else need
        missing = [c for c in need if c not in comps]
        if missing or not need:
            notes.append("%s arm: field %s is not copied from the source" % (variant, ", ".join(m[2:] for m in missing)))
            continue
        for c in need:
            for x in comps[c]:
                if all(any(u == x or b.dominates(u, x) for u in comps[c2]) for c2 in need):
                    sites.add(x)
        notes.append("%s arm: all %d fields copied" % (variant, len(need)))
    ok = bool(sites) and not b.can_return_avoiding(sites)
    R.check("R-CLONE", b.label(), ok, construct="every path copies the whole value or every field of the matched variant",
            where=b.where(), detail="; ".join(sorted(set(notes))) or "no update of self from the source found")


def r_clone(F, R, cat=None, only=None):
    cat = cat or Catalogue(F)
    n_clone = 0
    n_from = 0
    for b in F.methods_of_trait("Clone"):
        if b.in_tests() or b.derived:
            continue
        adt = b.self_adt
        if only and short(adt or "") not in only:
            continue
        if adt not in F.adts:
            continue
        a = F.adts[adt]
        if a["kind"] == "enum" and b.name == "clone_from":
            R.saw(b)
            ctx, effs = cat.effects(b)
            n_from += 1
            enum_clone_from(F, R, b, ctx, effs)
            continue
        if a["kind"] != "struct":
            continue
        fields = a["variants"][0]["fields"]
        R.saw(b)
        ctx, effs = cat.effects(b)
        if b.name == "clone":
            n_clone += 1
            cons = constructed(ctx, adt)
            if not cons:
                # `*self` copy (Copy types)
                ok = any(r == ("arg", 1) and p == () for (r, p) in ctx.org.local(0))
                R.check("R-CLONE", b.label(), ok, construct="copy of *self", where=b.where(),
                        nontrivial=False)
                continue
            for (root, fm) in cons:
                for fd in fields:
                    f = fd["name"]
                    if is_phantom(fd["ty"]):
                        continue
                    ok = False
                    why = []
                    for o in fm.get(f, ()):
                        r, p = o
                        if r == ("arg", 1) and p == ("f:" + f,):
                            ok = True
                            why.append("copy of self." + f)
                        elif r[0] == "call":
                            t = b.term(r[1])
                            tag = callee_tag(t.get("callee"))
                            src = set()
                            for oo in ctx.org.operand(t["args"][0]) if t["args"] else ():
                                src.add(oo)
                            if tag == ("Clone", "clone") and src == {(("arg", 1), ("f:" + f,))}:
                                ok = True
                                why.append("clone of self." + f)
                            else:
                                ok = False
                                why.append("%s::%s of %s" % (tag[0], tag[1],
                                                            [describe(ctx, s) for s in src]))
                                break
                        else:
                            # rebuilt variant by variant (`match &self.f { Ok(x) => Ok(x.clone()), .. }`)
                            from expr import tree as _tree
                            if copy_tree(_tree(ctx, o), b.key, ("f:" + f,)):
                                ok = True
                                why.append("structural copy of self." + f)
                                continue
                            ok = False
                            why.append("from " + describe(ctx, o))
                            break
                    R.check("R-CLONE", b.label(), ok, construct="field " + f, where=b.where(),
                            detail="; ".join(why))
        elif b.name == "clone_from":
            n_from += 1
            for fd in fields:
                f = fd["name"]
                if is_phantom(fd["ty"]):
                    continue
                sites = set()
                why = []
                for e in effs:
                    for (ff, rest) in self_field_targets(e, ctx):
                        if ff != f or rest != ():
                            continue
                        if e.cls == "clone_from":
                            src = e.argorigins[1] if len(e.argorigins) > 1 else set()
                            if src == {(("arg", 2), ("f:" + f,))}:
                                sites.add(e.top_bb)
                                why.append("clone_from(&source.%s)" % f)
                            else:
                                why.append("clone_from(%s)" % [describe(e.ctx, s) for s in src])
                        elif e.cls == "assign":
                            good = True
                            for o in e.value:
                                r, p = o
                                if r == ("arg", 2) and p == ("f:" + f,):
                                    continue
                                if r[0] == "call":
                                    t = e.ctx.body.term(r[1])
                                    tag = callee_tag(t.get("callee"))
                                    src = e.ctx.org.operand(t["args"][0]) if t["args"] else set()
                                    if tag == ("Clone", "clone") and src == {(("arg", 2), ("f:" + f,))}:
                                        continue
                                if r[0] == "agg":
                                    # rebuilt variant by variant from the source's payloads
                                    from expr import tree as _tree
                                    if copy_tree(_tree(e.ctx, o), e.ctx.body.key, ("f:" + f,), root=("arg", 2)):
                                        continue
                                good = False
                            if good:
                                sites.add(e.top_bb)
                                why.append("= source.%s" % f)
                            else:
                                why.append("assigned from %s" % [describe(e.ctx, o) for o in e.value])
                ok = bool(sites) and not b.can_return_avoiding(sites)
                if not ok:
                    # variant by variant (`match (&mut self.f, &source.f) { (Ok((a, b)), Ok((sa, sb))) => ..`):
                    # an arm is complete at the point where every component of the variant's payload
                    # has been updated from the same component of the source
                    arm_sites, notes = component_sites(b, ctx, effs, f)
                    sites2 = sites | arm_sites
                    if arm_sites and not b.can_return_avoiding(sites2):
                        ok = True
                        why.extend(notes)
                    elif notes:
                        why.extend(notes)
                if ok:
                    # ... and what was copied is not wiped again afterwards (a `self.clear()` after
                    # the field was copied resets it to its default)
                    wipers = []
                    for e in effs:
                        if e.cls not in ("clear", "destructive") or e.top_bb in sites:
                            continue
                        hit = any((ff == f and rest == ()) or (ff is None and rest == ())
                                  for (ff, rest) in self_field_targets(e, ctx))
                        if hit and any(e.top_bb in reach_strict_(b, s_) for s_ in sites):
                            wipers.append("%s::%s at line %s" % (e.tag[0], e.tag[1], e.line))
                    if wipers:
                        ok = False
                        why.append("copied, then reset again by %s" % ", ".join(wipers))
                R.check("R-CLONE", b.label(), ok, construct="field " + f, where=b.where(),
                        detail="; ".join(why) or "field not updated from source")
    R.floor("R-CLONE", "hand-written clone bodies", n_clone, 13 if not only else 0)
    R.floor("R-CLONE", "hand-written clone_from bodies", n_from, 11 if not only else 0)


# ---------------------------------------------------------------------------------------------
# R-COVER(heap_size)

HEAP_EXEMPT = {
    ("impls::index::IndexOptimized", "strided"): "Stride is an inline enum of usizes: no heap",
    ("impls::codec::dictionary::DictionaryCodec", None): "author's choice: dictionary is not payload (info)",
}


def r_cover_heap(F, R, cat=None):
    cat = cat or Catalogue(F)
    n = 0
    nb = 0
    for adt in cat.types:
        for b in cat.methods(adt, "heap_size"):
            if b.trait not in ("Region", "Storage", "Codec", None):
                continue
            if unconditional_diverge(b):
                continue
            nb += 1
            R.saw(b)
            ctx, effs = cat.effects(b)
            if forwarding_to_own(b, effs, ctx, "heap_size"):
                R.check("R-COVER(heap_size)", b.label(), True, construct="forwards", where=b.where(),
                        nontrivial=False)
                continue
            if adt not in F.adts:
                # Vec<T>: direct callback with (len*size, capacity*size)
                check_direct_callback(R, b, ctx, effs, self_path=())
                n += 1
                continue
            if (adt, None) in HEAP_EXEMPT:
                R.info("heap_size of %s is empty: %s" % (short(adt), HEAP_EXEMPT[(adt, None)]))
                continue
            for fd in cat.fields(adt):
                f = fd["name"]
                if is_phantom(fd["ty"]) or not is_storage_type(fd["ty"]["s"], F):
                    continue
                if (adt, f) in HEAP_EXEMPT:
                    R.info("%s.%s not reported: %s" % (short(adt), f, HEAP_EXEMPT[(adt, f)]))
                    continue
                sites = set()
                why = []
                iter_starts = set()
                for e in effs:
                    if e.cls in ("access", "read") and e.tag[1] in ("into_iter", "iter"):
                        for (ff, rest) in self_field_targets(e, ctx):
                            if ff == f and rest == ():
                                iter_starts.add(e.top_bb)
                for e in effs:
                    if e.cls != "heap_report":
                        continue
                    for (ff, rest) in self_field_targets(e, ctx):
                        if ff != f:
                            continue
                        if rest == ():
                            sites.add(e.top_bb)
                            why.append("%s.heap_size" % f)
                        elif rest == ("[]",):
                            st = [s for s in iter_starts if b.dominates(s, e.top_bb)]
                            if not st and e.ctx is ctx:
                                st = indexed_over_full_range(ctx, e, f)
                            sites.update(st or [e.top_bb])
                            why.append("every element of %s" % f)
                if not sites:
                    # the field is a struct of the crate whose parts are reported one by one
                    sub_adt = fd["ty"].get("adt")
                    if sub_adt and sub_adt in F.adts and F.adts[sub_adt].get("kind") == "struct":
                        parts = {}
                        for e in effs:
                            if e.cls == "heap_report":
                                for (ff, rest) in self_field_targets(e, ctx):
                                    if ff == f and len(rest) == 1 and rest[0].startswith("f:"):
                                        parts.setdefault(rest[0][2:], set()).add(e.top_bb)
                        subs = [x["name"] for x in cat.fields(sub_adt) if not is_phantom(x["ty"]) and is_storage_type(x["ty"]["s"], F)]
                        if subs and all(sf in parts and not b.can_return_avoiding(parts[sf]) for sf in subs):
                            sites |= parts[subs[0]]
                            why.append("every part of %s reported (%s)" % (f, ", ".join(subs)))
                ok = bool(sites) and not b.can_return_avoiding(sites)
                lim = limited_iteration(effs, ctx, f)
                if ok and lim is not None:
                    ok = False
                    why.append("iteration limited by " + lim.tag[1])
                R.check("R-COVER(heap_size)", b.label(), ok, construct="field " + f, where=b.where(),
                        detail="; ".join(why) or "field contributes nothing to heap_size")
                n += 1
            # own Vec header of collection-of-regions fields (ColumnsRegion.inner)
            for fd in cat.fields(adt):
                if fd["ty"]["s"].startswith("std::vec::Vec<") and any(
                        e.cls == "heap_report" and (fd["name"], ("[]",)) in self_field_targets(e, ctx)
                        for e in effs):
                    check_direct_callback(R, b, ctx, effs, self_path=("f:" + fd["name"],))
                    n += 1
            check_callback_wrappers(F, R, b)
            check_conditional_report(F, R, b)
    R.floor("R-COVER(heap_size)", "heap_size bodies", nb, 12)


def indexed_over_full_range(ctx, e, f):
    """`for i in 0..self.f.len() { self.f[i].heap_size(..) }`: the element is indexed by the element
    of the range 0..len(self.f).  Returns [block that starts the range iteration] or []"""
    from expr import operand_tree
    from r_alloc import walk
    t = e.term
    if not t.get("args"):
        return []
    fld = ("place", ctx.body.key, ("arg", 1), ("f:" + f,))
    for nd in walk(operand_tree(ctx, t["args"][0])):
        if nd[0] == "call" and nd[1][1] in ("index", "index_mut", "get_unchecked") and len(nd[2]) == 2 and nd[2][0] == fld:
            pos = nd[2][1]
            if pos[0] == "call" and pos[1] == ("Iterator", "next") and tuple(pos[3]) == ("v:Some", "f:0") and pos[2]:
                src = pos[2][0]
                start_bb = pos[4]
                while src[0] == "call" and src[1][1] in ("into_iter", "by_ref", "iter") and src[2]:
                    start_bb = src[4]
                    src = src[2][0]
                if src[0] == "agg" and src[1] == "Range::Range" and len(src[2]) == 2 and src[2][0] == ("const", "0"):
                    end = src[2][1]
                    is_len = (end[0] == "call" and end[1][1] == "len" and end[2] and end[2][0] == fld) or \
                        (end[0] == "un" and end[1] == "PtrMetadata" and fld in list(walk(end)))
                    if is_len and isinstance(start_bb, int):
                        return [start_bb]
    return []


def check_conditional_report(F, R, b):
    """heap_size reports every allocation it knows of: a call of the caller's callback that is
    made only under a condition on the *size* being reported (`if total.size != 0 { callback(..) }`)
    drops reports of storage that is allocated but empty -- after clear, or after a reserve -- so the
    reported capacity shrinks although nothing was freed"""
    from core import all_ctxs
    from expr import facts_at, operand_tree, nobb, show
    from r_alloc import walk
    for ctx in all_ctxs(F, b):
        if ctx.body is not b:
            continue
        for (bi, t) in b.calls():
            tag = callee_tag(t.get("callee"))
            if tag[1] not in ("call_mut", "call_once", "call") or len(t["args"]) < 2:
                continue
            if not any(r == ("arg", 2) for (r, p) in ctx.org.operand(t["args"][0])):
                continue
            tup = nobb(operand_tree(ctx, t["args"][1]))
            if not (tup[0] == "agg" and len(tup[2]) == 2):
                continue
            size_t, cap_t = tup[2]
            if size_t[0] == "const":
                continue
            hits = []
            for f in facts_at(ctx, bi):
                if f[0] not in ("Eq", "Ne", "Lt", "Le", "Gt", "Ge", "truthy"):
                    continue  # (not the no-overflow facts of the arithmetic that computes the size)
                for x in f[1:3]:
                    if isinstance(x, tuple) and any(nd == size_t for nd in walk(nobb(x))):
                        hits.append(f)
            if hits:
                R.check("R-COVER(heap_size)", b.label(), False, construct="every report is passed on, whatever its size",
                        where="%s:%s" % (b.file, t["line"]),
                        detail="the callback is called only under a condition on the size being reported (%s): storage that is "
                               "allocated but holds nothing (after clear, after a reserve) is not reported, the reported capacity "
                               "shrinks without anything being freed" % show(size_t)[:60])


def check_callback_wrappers(F, R, b):
    """a closure that heap_size hands to a child in place of the caller's callback must pass
    every report on: the call of the captured callback is not control-dependent on the reported
    values and passes (size, capacity) in that order"""
    from core import closure_sites
    from expr import facts_at, operand_tree
    from r_alloc import walk
    _Ctx = Ctx
    for (bi, si, ckey, ops) in closure_sites(b):
        cb = F.body(ckey)
        if cb is None or cb.nargs < 3:
            continue
        cctx = _Ctx(cb)
        params = {("place", cb.key, ("arg", i), ()) for i in range(2, cb.nargs + 1)}
        calls_cb = any(callee_tag(t.get("callee"))[1] in ("call_mut", "call_once", "call") and t["args"] and
                       ("arg", 1) in {r for (r, p) in cctx.org.operand(t["args"][0])} for (xb, t) in cb.calls())
        if not calls_cb:
            # a summarising closure (`|size, cap| total = (total.0 + size, total.1 + cap)`): every
            # captured accumulator it writes must add the reported value to its own old value
            from expr import trees as _trees, nobb as _nobb, show
            went = {}  # parameter index -> bases (captured place minus its last component) it is accumulated into
            for xb in sorted(cb.live_blocks()):
                for si, st in enumerate(cb.blocks[xb]["stmts"]):
                    if st["k"] != "assign" or not any(e["k"] == "deref" for e in st["place"]["p"]):
                        continue
                    tg = [(r, p) for (r, p) in cctx.org.place(st["place"]) if r == ("arg", 1)]
                    if not tg:
                        continue
                    (r, p) = tg[0]
                    tgt = ("place", cb.key, r, tuple(p))
                    val = _nobb(_trees(cctx, cctx.org.rvalue(st["rv"], xb, si)))
                    for nd_ in walk(val):
                        if nd_ not in params or not p:
                            continue
                        if str(p[-1]).startswith("f:") and len(p) >= 2:
                            went.setdefault(nd_[2][1], set()).add((tuple(p[:-1]), st["line"]))
                        elif str(p[0]).startswith("u:") and len(p) == 1:
                            # a field of a parent local captured on its own (`&mut ok.1`): the parent's place
                            k_ = int(p[0][2:])
                            if k_ < len(ops) and ops[k_].get("k") in ("move", "copy") and not ops[k_]["place"]["p"]:
                                rl_ = ops[k_]["place"]["l"]
                                for pb_ in b.live_blocks():
                                    for pst_ in b.blocks[pb_]["stmts"]:
                                        if pst_["k"] == "assign" and pst_["place"]["l"] == rl_ and not pst_["place"]["p"] and \
                                                pst_["rv"]["k"] == "ref" and pst_["rv"]["place"]["p"] and \
                                                pst_["rv"]["place"]["p"][-1]["k"] == "field":
                                            pp_ = pst_["rv"]["place"]
                                            base_ = (("local", pp_["l"]),) + tuple(str(e_.get("name", e_["k"])) for e_ in pp_["p"][:-1])
                                            went.setdefault(nd_[2][1], set()).add((base_, st["line"]))
                    comps = list(enumerate(val[2])) if val[0] == "agg" and val[1] == "tuple" else [(None, val)]
                    for (i, v) in comps:
                        own = tgt if i is None else ("place", cb.key, r, tuple(p) + ("f:%d" % i,))
                        from_param = any(nd in params for nd in walk(v))
                        keeps = any(nd == own for nd in walk(v))
                        if from_param:
                            R.check("R-COVER(heap_size)", b.label(), keeps,
                                    construct="a summarising callback adds every report to its total",
                                    where="%s:%s" % (cb.file, st["line"]),
                                    detail="component %s := %s" % ("" if i is None else i, show(v)[:60]) +
                                    ("" if keeps else ": the reported value overwrites what earlier reports contributed "
                                                      "(a child that reports several pairs is under-counted)"))
            if not calls_cb and len(went) >= 2:
                ks = sorted(went)
                b0 = {x[0] for x in went[ks[0]]}
                b1 = {x[0] for x in went[ks[-1]]}
                if b0 and b1 and not (b0 & b1):
                    R.check("R-COVER(heap_size)", b.label(), False, construct="size and capacity of one report go to the same total",
                            where="%s:%s" % (cb.file, sorted(went[ks[-1]])[0][1]),
                            detail="the summarising callback adds the reported size to %s but the reported capacity to %s: the pair "
                                   "reported for the first total has capacity it does not own, the other one is short (used > capacity)" %
                                   (sorted(b0)[0], sorted(b1)[0]))
        for (xb, t) in cb.calls():
            tag = callee_tag(t.get("callee"))
            if tag[1] not in ("call_mut", "call_once", "call") or not t["args"]:
                continue
            roots = {r for (r, p) in cctx.org.operand(t["args"][0])}
            if ("arg", 1) not in roots:
                continue
            dep = [f for f in facts_at(cctx, xb) if any(nd in params for x in f[1:3] if isinstance(x, tuple) for nd in walk(x))]
            cap = ("place", cb.key, ("arg", cb.nargs), ())
            if dep and any(nd == cap for f in dep for x in f[1:3] if isinstance(x, tuple) for nd in walk(x)):
                # dropping pairs without capacity leaves both sums unchanged; anything finer is value-level
                R.undecided_site("R-COVER(heap_size)", b.label(), "a wrapped callback filters reports by their capacity")
                continue
            R.check("R-COVER(heap_size)", b.label(), not dep,
                    construct="a wrapped callback passes every report on",
                    where="%s:%s" % (cb.file, t["line"]),
                    detail="the captured callback is called unconditionally" if not dep else
                    "the captured callback is called only under a condition on the reported values: "
                    "reports are dropped (a storage with capacity but no contents still holds heap memory)")
            if len(t["args"]) >= 2:
                tup = operand_tree(cctx, t["args"][1])
                if tup[0] == "agg" and len(tup[2]) == 2 and tup[2][0] not in params:
                    # the size handed on is not the size reported: a reduction of it (minus a
                    # constant, saturating_sub, min, halved) under-reports every pair the child
                    # reports -- and a child may report several pairs, each reduced
                    from expr import nobb as _nb2, show as _show2
                    v0 = _nb2(tup[2][0])
                    size_p = ("place", cb.key, ("arg", 2), ())
                    reduces = (v0[0] == "bin" and v0[1] in ("Sub", "Div", "Shr", "Rem", "BitAnd") and v0[2] == size_p) or \
                              (v0[0] == "call" and v0[1][1] in ("saturating_sub", "wrapping_sub", "checked_sub", "min") and v0[2] and v0[2][0] == size_p)
                    if reduces:
                        R.check("R-COVER(heap_size)", b.label(), False, construct="a wrapped callback passes the reported size on unreduced",
                                where="%s:%s" % (cb.file, t["line"]),
                                detail="the size passed on is %s: every pair the child reports loses that much -- a child that reports "
                                       "several pairs, or whose first element is not what is subtracted, is under-reported" % _show2(v0)[:60])
                    elif any(nd == size_p for nd in walk(v0)):
                        R.undecided_site("R-COVER(heap_size)", b.label(), "a wrapped callback passes on a size computed from the reported "
                                         "one (%s): not decided" % _show2(v0)[:60])
                if tup[0] == "agg" and len(tup[2]) == 2 and all(x in params for x in tup[2]):
                    order = [x[2][1] for x in tup[2]]
                    R.check("R-COVER(heap_size)", b.label(), order == sorted(order) and order[0] != order[1],
                            construct="a wrapped callback passes (size, capacity) in order",
                            where="%s:%s" % (cb.file, t["line"]), detail="parameters passed on: %s" % order)


def check_direct_callback(R, b, ctx, effs, self_path):
    """callback(len-derived, capacity-derived) in that order, both over self_path"""
    found = False
    for e in effs:
        if e.cls != "callback" or e.ctx is not ctx:
            continue
        t = e.term
        # FnMut::call_mut(&mut callback, (a, b)) : args[1] is a tuple aggregate
        if len(t["args"]) < 2:
            continue
        tup = ctx.org.operand(t["args"][1])
        for (r, p) in tup:
            if r[0] != "agg":
                continue
            rv = ctx.org.stmt(r[1], r[2])["rv"]
            if len(rv["ops"]) != 2:
                continue
            found = True
            d0 = measures_in(ctx, ctx.org.operand(rv["ops"][0]))
            d1 = measures_in(ctx, ctx.org.operand(rv["ops"][1]))
            want = (("arg", 1), self_path)
            if not any(n in ("len", "capacity") for (n, tg) in d0 | d1):
                R.undecided_site("R-COVER(heap_size)", b.label(),
                                 "callback arguments are not recognisably derived from len()/capacity()")
                continue
            n0 = {n for (n, tg) in d0 if n in ("len", "capacity")}
            n1 = {n for (n, tg) in d1 if n in ("len", "capacity")}
            if n0 == {"len", "capacity"} or n1 == {"len", "capacity"}:
                R.undecided_site("R-COVER(heap_size)", b.label(),
                                 "callback arguments mix len() and capacity() in one expression (not attributable)")
                continue
            ok0 = any(n in ("len",) and tg == want for (n, tg) in d0) and \
                not any(n == "capacity" for (n, tg) in d0)
            ok1 = any(n == "capacity" and tg == want for (n, tg) in d1)
            R.check("R-COVER(heap_size)", b.label(), ok0 and ok1,
                    construct="callback(used, capacity) over %s" % (".".join(self_path) or "self"),
                    where="%s:%s" % (b.file, t["line"]),
                    detail="first argument derives from %s, second from %s" % (sorted(d0), sorted(d1)))
    if not found:
        R.undecided_site("R-COVER(heap_size)", b.label(), "no direct callback invocation recognised")


def measures_in(ctx, origins, depth=0, seen=None):
    """set of (measure-name, (root,path) of receiver) the value derives from"""
    out = set()
    seen = seen if seen is not None else set()
    for o in origins:
        if o in seen or depth > 12:
            continue
        seen.add(o)
        r, p = o
        if r[0] == "call":
            t = ctx.body.term(r[1])
            tag = callee_tag(t.get("callee"))
            if classify(t.get("callee")) == "measure" and t["args"]:
                for (c2, tg) in [(c, o2) for a in t["args"][:1] for oo in ctx.org.operand(a)
                                 for (c, o2) in base_places(ctx, oo)]:
                    out.add((tag[1], tg))
            else:
                for a in t["args"]:
                    out |= measures_in(ctx, ctx.org.operand(a), depth + 1, seen)
        elif r[0] == "expr":
            rv = ctx.org.stmt(r[1], r[2])["rv"]
            for k in ("a", "b", "op"):
                if isinstance(rv.get(k), dict):
                    out |= measures_in(ctx, ctx.org.operand(rv[k]), depth + 1, seen)
        elif r[0] == "agg":
            rv = ctx.org.stmt(r[1], r[2])["rv"]
            for op in rv["ops"]:
                out |= measures_in(ctx, ctx.org.operand(op), depth + 1, seen)
    return out


def r_retain(F, R, cat=None):
    """C18: clear() must not replace a storage whose capacity heap_size reports (the reported
    capacity would shrink): reported fields may only be cleared in place"""
    cat = cat or Catalogue(F)
    n = 0
    for adt in cat.local_types():
        reported = set()
        reported_elems = set()  # fields whose *elements* report capacity (a Vec of child regions)
        for hb in cat.methods(adt, "heap_size"):
            if unconditional_diverge(hb):
                continue
            hctx, heffs = cat.effects(hb)
            for e in heffs:
                if e.cls == "heap_report":
                    if e.tag == ("Codec", "heap_size") and not codec_reports_anything(cat):
                        continue  # no Codec impl in the crate reports any capacity
                    for (f, rest) in self_field_targets(e, hctx):
                        if f:
                            reported.add(f)
                            if rest[:1] == ("[]",):
                                reported_elems.add(f)
        if not reported:
            continue
        for b in clear_methods(cat, adt):
            ctx, effs = cat.effects(b)
            if forwarding_to_own(b, effs, ctx, "clear"):
                continue
            n += 1
            R.saw(b)
            bad = []
            for e in effs:
                # dropping the elements of a collection whose elements report capacity (round 17:
                # `self.inner.clear()` on ColumnsRegion's Vec of column regions drops the columns and
                # their allocations; push recreates them empty, so the reported capacity shrinks)
                if e.kind == "call" and e.tag[0] in ("Vec", "VecDeque") and \
                        e.tag[1] in ("clear", "truncate", "drain", "pop", "split_off", "retain"):
                    for (f, rest) in self_field_targets(e, ctx):
                        if f in reported_elems and rest == ():
                            bad.append("%s::%s on %s at line %s drops elements whose capacity heap_size reports" %
                                       (e.tag[0], e.tag[1], f, e.line))
                if e.cls != "assign":
                    continue
                for (f, rest) in self_field_targets(e, ctx):
                    if (f is None and rest == ()) or (f in reported and rest == ()):
                        st = store_type(e)
                        if f is None or is_storage_type(st, F):
                            bad.append("%s replaced at line %s" % (f or "*self", e.line))
            R.check("R-RETAIN", b.label(), not bad, construct="clear keeps the allocations heap_size reports",
                    where=b.where(), detail="; ".join(bad) or "reported fields %s are cleared in place" % sorted(reported))
    R.floor("R-RETAIN", "clear bodies of types that report capacity", n, 8)


def codec_reports_anything(cat):
    for b in cat.F.methods_of_trait("Codec", "heap_size"):
        ctx, effs = cat.effects(b)
        if any(e.cls in ("callback", "heap_report") for e in effs):
            return True
    return False


def r_retain_noshrink(F, R, cat=None):
    """C18: no clear() path shrinks an allocation (shrink_to / shrink_to_fit / a fresh Vec)"""
    cat = cat or Catalogue(F)
    n = 0
    for b in F.bodies.values():
        if b.kind != "AssocFn" or b.name != "clear" or b.in_tests() or b.derived:
            continue
        if b.trait not in ("Region", "Storage", None):
            continue
        n += 1
        ctx, effs = cat.effects(b)
        bad = [e for e in effs if e.kind == "call" and e.tag[1] in ("shrink_to", "shrink_to_fit") and
               any(c is ctx and r == ("arg", 1) for (c, (r, p)) in e.targets or ())]
        R.saw(b)
        R.check("R-RETAIN", b.label(), not bad, construct="clear never shrinks an allocation",
                where=bad[0].where() if bad else b.where(),
                detail="%s on self in clear(): reported capacity can shrink" % ["%s::%s" % e.tag for e in bad] if bad else "")
    R.floor("R-RETAIN", "clear bodies scanned for shrinking", n, 10)


def r_storage_clear(F, R, cat=None):
    """`Storage::clear` implemented for a std container (the plain-vector index / byte storage
    behind most regions and behind FlatStack) empties the container on every path: the accepted
    emptying calls are `clear()`, `truncate(0)` and `drain(..)` on the whole receiver.  A branch
    that only truncates to some other length, or shrinks, leaves elements behind."""
    from expr import operand_tree, nobb
    n = 0
    for b in F.methods_of_trait("Storage", "clear"):
        if b.in_tests() or (b.self_adt and b.self_adt in F.adts):
            continue  # local types: R-RESET proper
        n += 1
        R.saw(b)
        ctx = Ctx(b)
        me = ("place", b.key, ("arg", 1), ())
        sites = set()
        why = []
        for (bi, t) in b.calls():
            tag = callee_tag(t.get("callee"))
            if not t["args"] or nobb(operand_tree(ctx, t["args"][0])) != me:
                continue
            if tag[1] == "clear":
                sites.add(bi)
                why.append("clear()")
            elif tag[1] == "truncate" and len(t["args"]) == 2 and nobb(operand_tree(ctx, t["args"][1])) == ("const", "0"):
                sites.add(bi)
                why.append("truncate(0)")
            elif tag[1] == "drain" and len(t["args"]) == 2 and str(nobb(operand_tree(ctx, t["args"][1]))[1]).startswith("RangeFull"):
                sites.add(bi)
                why.append("drain(..)")
        ok = bool(sites) and not b.can_return_avoiding(sites)
        R.check("R-RESET", b.label(), ok, construct="Storage::clear empties the container on every path",
                where=b.where(), detail="emptying calls: %s" % (why or "none") +
                ("" if ok else "; some path returns without one of them: elements survive the clear"))
    R.floor("R-RESET", "Storage::clear impls for std containers", n, 1)


def r_merge_sources_polled(F, R, cat=None):
    """merge_regions / merge_capacity / reserve_regions size (and, for the coded regions, build)
    their result from *all* the sources they are handed.  An iterator over the sources that was
    polled once (`rest.next()` to see whether there is any source) and is then handed on as the
    list of sources has lost its first element: the first source contributes nothing.  Positive
    evidence: a local iterator is the receiver of an `Iterator::next` call outside any loop and is
    afterwards moved into another call."""
    from expr import in_loop, reach_strict
    names = ("merge_regions", "merge_capacity", "reserve_regions")
    n = 0
    for b in F.bodies.values():
        if b.in_tests() or b.derived or b.kind == "Closure" or b.name not in names:
            continue
        refs = {}  # local holding `&mut X` -> X
        for bi in b.live_blocks():
            for st in b.blocks[bi]["stmts"]:
                if st["k"] == "assign" and not st["place"]["p"] and st["rv"]["k"] == "ref" and st["rv"].get("mut") and \
                        not st["rv"]["place"]["p"]:
                    refs[st["place"]["l"]] = st["rv"]["place"]["l"]
        for (bi, t) in b.calls():
            if callee_tag(t.get("callee")) != ("Iterator", "next") or len(t["args"]) != 1 or in_loop(b, bi):
                continue
            a0 = t["args"][0]
            if a0["k"] not in ("copy", "move") or a0["place"]["p"] or a0["place"]["l"] not in refs:
                continue
            x = refs[a0["place"]["l"]]
            if 1 <= x <= b.nargs:
                pass  # the parameter itself: same thing
            n += 1
            later = reach_strict(b, bi)
            alias = {x}
            for _ in range(4):
                for xb in later:
                    for st in b.blocks[xb]["stmts"]:
                        if st["k"] == "assign" and not st["place"]["p"] and st["rv"]["k"] == "use" and \
                                st["rv"]["op"]["k"] in ("move", "copy") and not st["rv"]["op"]["place"]["p"] and \
                                st["rv"]["op"]["place"]["l"] in alias:
                            alias.add(st["place"]["l"])
            for (ci, ct) in b.calls():
                if ci not in later or ct is t:
                    continue
                if any(a["k"] in ("move", "copy") and not a["place"]["p"] and a["place"]["l"] in alias for a in ct.get("args", [])):
                    R.saw(b)
                    if any(callee_tag(zt.get("callee"))[1] in ("chain", "once", "peekable", "successors") for (zi, zt) in b.calls() if zi in later):
                        R.undecided_site("R-COVER(merge_regions)", b.label(), "a polled source iterator is handed on at %s:%s, and the body "
                                         "also chains iterators: whether the polled element is put back is not decided" % (b.file, ct["line"]))
                        break
                    R.check("R-COVER(%s)" % ("merge_regions" if b.name != "reserve_regions" else "reserve_regions"), b.label(), False,
                            construct="every source contributes",
                            where="%s:%s" % (b.file, ct["line"]),
                            detail="the iterator over the sources was polled at line %s (outside any loop) and is then handed on as the "
                                   "list of sources: the first source is missing from it -- what only that source knows (its "
                                   "dictionary entries, its symbol counts, its sizes) is not in the result" % t["line"])
                    break
    R.info("R-COVER: %d single polls of a source iterator inspected" % n)


def r_merge_sources_may_be_empty(F, R, cat=None):
    """merge_regions / reserve_regions / merge_capacity are handed arbitrary regions of the same
    type -- fresh, cleared or filled -- and must not assume that a source holds anything: a lookup
    at `len - k` in a container, without a dominating fact that it is non-empty, underflows and
    panics for an empty source, so the merged region is never built.  Checked in those bodies and
    in the private helpers inlined into them."""
    from core import all_ctxs
    from expr import operand_tree, nobb, facts_at, lin, show
    from r_alloc import walk
    names = ("merge_regions", "reserve_regions", "merge_capacity")
    n = 0
    for top in F.bodies.values():
        if top.in_tests() or top.derived or top.kind == "Closure" or top.name not in names:
            continue
        n += 1
        for ctx in all_ctxs(F, top):
            for (bi, t) in ctx.body.calls():
                tag = callee_tag(t.get("callee"))
                if tag[1] not in ("index", "index_mut", "get_unchecked") or len(t["args"]) != 2:
                    continue
                recv = nobb(operand_tree(ctx, t["args"][0]))
                pos = nobb(operand_tree(ctx, t["args"][1]))
                if not (pos[0] == "bin" and pos[1] == "Sub" and pos[3][0] == "const" and str(pos[3][1]).isdigit() and int(pos[3][1]) >= 1):
                    continue
                ln = pos[2]
                is_len = (ln[0] == "call" and ln[1][1] == "len" and ln[2] and ln[2][0] == recv) or \
                    (ln[0] == "un" and ln[1] == "PtrMetadata")
                if not is_len:
                    continue
                k = int(pos[3][1])
                guarded = False
                for f in facts_at(ctx, bi):
                    x = nobb(f[1]) if isinstance(f[1], tuple) else f[1]
                    y = nobb(f[2]) if len(f) > 2 and isinstance(f[2], tuple) else (f[2] if len(f) > 2 else None)
                    if f[0] == "truthy" and f[2] is False and x[0] == "call" and x[1][1] == "is_empty" and x[2] and x[2][0] == recv:
                        guarded = True
                    if f[0] in ("Ne", "Gt", "Ge", "Lt", "Le") and (x == ln or y == ln):
                        guarded = True  # some comparison of this very length dominates the lookup
                R.saw(top)
                R.check("R-FRESH", top.label(), guarded, construct="sources of a merge may be empty",
                        where="%s:%s" % (ctx.body.file, t["line"]),
                        detail="lookup at %s %s" % (show(pos)[:60], "under a test of that length" if guarded else
                                                     "without a test that the container is non-empty: an empty (fresh or cleared) source "
                                                     "underflows here and the merge panics"))
    R.info("R-FRESH: %d merge/reserve bodies scanned for lookups at len - k in their sources" % n)
    R.floor("R-FRESH", "merge/reserve bodies scanned for len - k lookups", n, 10)
