"""Catalogue of the crate's types and shared semantic helpers (abstract values, field
attribution, item storage)."""
import re
from collections import defaultdict

from core import (Ctx, body_effects, base_places, callee_tag, classify, short, strip_generics,
                  self_arg, describe, CONSTRUCT)

EXTRA_TYPES = [
    "FlatStack", "impls::index::Stride", "impls::index::IndexList", "impls::index::IndexOptimized",
    "impls::codec::BytesMap", "impls::codec::dictionary::DictionaryCodec",
    "impls::codec::misra_gries::MisraGries", "impls::huffman_container::huffman::Huffman",
]

LIFECYCLE_TRAITS = ("Region", "Storage", "IndexContainer", "Codec", "Default", "Clone", "Push",
                    "ReserveItems", "PushStorage", "IntoOwned")


class Catalogue:
    def __init__(self, F):
        self.F = F
        self.region_types = []  # adt paths (or 'std::vec::Vec') with impl Region
        seen = set()
        for b in F.methods_of_trait("Region", "index"):
            a = b.self_adt
            if a and a not in seen:
                seen.add(a)
                self.region_types.append(a)
        self.types = list(self.region_types)
        for t in EXTRA_TYPES:
            if t in F.adts and t not in self.types:
                self.types.append(t)
        self._eff = {}

    def local_types(self):
        return [t for t in self.types if t in self.F.adts]

    def methods(self, adt, name, trait=None):
        out = []
        for b in self.F.bodies.values():
            if b.kind != "AssocFn" or b.name != name or b.in_tests():
                continue
            if b.self_adt != adt:
                continue
            if trait is not None and b.trait != trait:
                continue
            out.append(b)
        return out

    def fields(self, adt):
        a = self.F.adts.get(adt)
        if not a or a["kind"] != "struct":
            return []
        return a["variants"][0]["fields"]

    def effects(self, body):
        if body.key not in self._eff:
            ctx = Ctx(body)
            self._eff[body.key] = (ctx, body_effects(self.F, ctx))
        return self._eff[body.key]


UNIT_ADTS = set()  # crate structs without fields (filled by Facts): zero-sized, they carry no state


def is_phantom(fty):
    return fty["s"].startswith("std::marker::PhantomData") or bool(fty.get("debug_only")) or (
        fty.get("adt") in UNIT_ADTS and fty.get("k") == "adt" and not fty.get("ref"))


SCALARS = {"usize", "u8", "u16", "u32", "u64", "u128", "isize", "i8", "i16", "i32", "i64", "i128",
           "bool", "char", "()"}


STATE_MACHINES = {"impls::index::Stride"}


def is_storage_type(s, F=None, _depth=0):
    """type string denotes something that can hold item data"""
    s = s.strip()
    while s.startswith("&"):
        s = s[1:].strip()
        if s.startswith("mut "):
            s = s[4:]
    if s in SCALARS:
        return False
    if s.startswith("std::marker::PhantomData"):
        return False
    if "Vec<" in s or "BTreeMap<" in s or "Box<" in s:
        return True
    if re.fullmatch(r"[A-Z][A-Za-z0-9_]*", s):
        return True  # bare generic parameter
    if s.startswith("std::option::Option<") or s.startswith("std::result::Result<"):
        inner = s[s.index("<") + 1:-1]
        return any(is_storage_type(x, F, _depth + 1) for x in split_top(inner))
    if s.startswith("(") and s.endswith(")"):
        return any(is_storage_type(x, F, _depth + 1) for x in split_top(s[1:-1]))
    if s.startswith("["):
        return False if re.match(r"\[(u|i)\d+; ", s) else True
    if s.startswith("<") and " as " in s:
        return False  # associated type projection (an index type): copyable bookkeeping
    if strip_generics(s) in STATE_MACHINES:
        return True
    if F is not None and _depth < 4:
        base = strip_generics(s)
        a = F.adts.get(base)
        if a is not None:
            for v in a["variants"]:
                for f in v["fields"]:
                    if is_storage_type(f["ty"]["s"], F, _depth + 1):
                        return True
            return False
    return True


def split_top(s):
    out = []
    depth = 0
    cur = []
    for ch in s:
        if ch in "<([":
            depth += 1
        elif ch in ">)]":
            depth -= 1
        if ch == "," and depth == 0:
            out.append("".join(cur).strip())
            cur = []
        else:
            cur.append(ch)
    if "".join(cur).strip():
        out.append("".join(cur).strip())
    return out


# --------------------------------------------------------------------------------------------
# abstract values


def norm_const(s):
    s = s.strip()
    if s.startswith("const "):
        s = s[6:]
    m = re.fullmatch(r"(-?\d+)_?[iu](8|16|32|64|128|size)", s)
    if m:
        return m.group(1)
    return s


EMPTY_CTORS = {("Default", "default"), ("Vec", "new"), ("BTreeMap", "new"), ("BinaryHeap", "new"),
               ("String", "new"), ("Vec", "default")}
SIZED_CTORS = {("Vec", "with_capacity"), ("Storage", "with_capacity"),
               ("Storage", "merge_regions"), ("Region", "merge_regions"),
               ("IndexList", "with_capacity"), ("FlatStack", "with_capacity"),
               ("FlatStack", "merge_capacity"), ("MisraGries", "with_capacity")}
STAT_CTORS = {("Codec", "new_from"), ("Huffman", "create_from")}


_DEFAULT_VARIANT = {}


def _default_variant(F, adt):
    """name of the unit variant `<adt as Default>::default()` returns, if that is what it does"""
    key = (id(F), adt)
    if key in _DEFAULT_VARIANT:
        return _DEFAULT_VARIANT[key]
    out = None
    a = F.adts.get(adt) if hasattr(F, "adts") else None
    if a is not None and a.get("kind") == "enum":
        for b in F.bodies.values():
            if b.name == "default" and (b.owner.get("trait") or "").split("::")[-1] == "Default" and \
                    (b.owner.get("impl_self") or {}).get("adt") == adt:
                names = set()
                for blk in b.blocks:
                    for st in blk["stmts"]:
                        if st["k"] == "assign" and st["place"]["l"] == 0 and not st["place"]["p"] and \
                                st["rv"]["k"] == "aggregate" and st["rv"].get("adt") == adt and not st["rv"]["ops"]:
                            names.add(st["rv"]["variant_name"])
                if len(names) == 1:
                    out = next(iter(names))
    if len(_DEFAULT_VARIANT) > 64:
        _DEFAULT_VARIANT.clear()
    _DEFAULT_VARIANT[key] = out
    return out


def absval(ctx, origin, depth=0):
    """abstract value of an origin (root, path) in ctx"""
    root, path = origin
    if depth > 8:
        return ("opaque", "deep")
    if root[0] == "const":
        c = norm_const(root[1])
        if "PhantomData" in c:
            return ("phantom",)
        return ("const", c) if not path else ("const", c, path)
    if root[0] == "call":
        t = ctx.body.term(root[1])
        tag = callee_tag(t.get("callee"))
        if tag in EMPTY_CTORS:
            return ("empty",)
        if tag in SIZED_CTORS:
            return ("empty",) if not path else ("empty", path)
        if tag in STAT_CTORS:
            return ("stat-ctor", tag)
        return ("call", tag, path)
    if root[0] == "agg" and not path:
        rv = ctx.org.stmt(root[1], root[2])["rv"]
        ops = []
        for op in rv["ops"]:
            os_ = ctx.org.operand(op)
            vals = sorted({repr(absval(ctx, o, depth + 1)) for o in os_})
            if len(os_) == 1:
                ops.append(absval(ctx, next(iter(os_)), depth + 1))
            else:
                ops.append(("multi", tuple(vals)))
        if rv["agg"] == "adt":
            nm = short(rv["adt"])
            if nm == "Option" and rv["variant_name"] == "None":
                return ("empty",)
            if nm == "PhantomData":
                return ("phantom",)
            if not ops and _default_variant(ctx.body.facts, rv["adt"]) == rv["variant_name"]:
                return ("empty",)  # the unit variant the enum's Default impl returns (`Stride::Empty`)
            return ("agg", nm, rv["variant_name"], tuple(ops))
        return ("agg", rv["agg"], "", tuple(ops))
    if root[0] == "arg":
        return ("arg", root[1], path)
    if root[0] == "expr":
        rv = ctx.org.stmt(root[1], root[2])["rv"]
        return ("expr", rv.get("op", rv["k"]))
    return ("opaque", repr(root), path)


def equiv(a, b):
    if a == b:
        return True
    za = a in (("empty",), ("const", "0"), ("const", "false"))
    zb = b in (("empty",), ("const", "0"), ("const", "false"))
    if za and zb:
        return True
    if a[0] == "agg" and b[0] == "agg" and a[1:3] == b[1:3] and len(a[3]) == len(b[3]):
        return all(equiv(x, y) for x, y in zip(a[3], b[3]))
    return False


def navigate(val, path):
    """follow a projection path into an abstract value; None when it does not fit"""
    for step in path:
        if val[0] != "agg":
            if val == ("empty",):
                return None
            return None
        if step.startswith("v:"):
            if val[2] != step[2:]:
                return None
            continue
        if step.startswith("f:") and step[2:].isdigit():
            i = int(step[2:])
            if i >= len(val[3]):
                return None
            val = val[3][i]
            continue
        return None
    return val


# --------------------------------------------------------------------------------------------
# constructed Self values


def constructed(ctx, adt):
    """In a constructor-like body, map field name -> set of origins of the operand that
    initialises it, for every aggregate of type `adt` that flows into the return place.
    Returns (list of (aggroot, {field: origins}))"""
    org = ctx.org
    out = []
    for (root, path) in org.local(0):
        if root[0] == "agg" and not path:
            rv = org.stmt(root[1], root[2])["rv"]
            if rv["agg"] == "adt" and rv["adt"] == adt:
                m = {}
                for nm, op in zip(rv["fields"], rv["ops"]):
                    m[nm] = org.operand(op)
                out.append((root, m))
    return out


def field_of_target(ctx, target, self_root_fields):
    """attribute an effect target to a field of the constructed value: target root equals the
    root of a field's initialiser"""
    (c, (r, p)) = target
    if c is not ctx:
        return None
    for f, origins in self_root_fields.items():
        for (r2, p2) in origins:
            if r2 == r and p[:len(p2)] == p2 and r[0] in ("call", "agg"):
                return (f, p[len(p2):])
    return None


def self_field_targets(effect, ctx):
    """[(field, rest)] for targets rooted at `self` (arg 1) of the top-level ctx"""
    out = []
    for (c, (r, p)) in effect.targets or ():
        if c is ctx and r == ("arg", 1):
            if p and p[0].startswith("f:"):
                out.append((p[0][2:], p[1:]))
            elif not p:
                out.append((None, ()))
            elif p[0] == "[]" or p[0].startswith("v:"):
                out.append((None, p))
    return out


def store_type(effect):
    """type string of the place written by a store effect"""
    st = effect.term
    pl = st["place"]
    body = effect.ctx.body
    last_field = None
    for e in pl["p"]:
        if e["k"] == "field":
            last_field = e
    if last_field is not None and pl["p"][-1]["k"] in ("field",):
        return last_field.get("ty", "?")
    if pl["p"] and pl["p"][-1]["k"] in ("index", "constindex"):
        return "?elem"
    return body.locals[pl["l"]]["ty"]["peeled"]


LIFECYCLE_NAMES = {
    "push", "reserve_items", "reserve_regions", "reserve", "clear", "merge_regions", "clone",
    "clone_from", "default", "heap_size", "fmt", "serialize", "deserialize", "visit_seq",
    "visit_map", "print", "report", "encode", "new_from", "with_capacity", "merge_capacity",
    "copy", "extend", "push_storage", "expecting", "visit_newtype_struct", "visit_enum",
}


def _places_in(x, out):
    if isinstance(x, dict):
        if "l" in x and "p" in x and isinstance(x["p"], list):
            for e in x["p"]:
                if e.get("k") == "field" and "adt" in e and "name" in e:
                    out.add((e["adt"], e["name"]))
        for v in x.values():
            _places_in(v, out)
    elif isinstance(x, list):
        for v in x:
            _places_in(v, out)


def field_mentions(F):
    """(adt, field) -> set of item keys (closures attributed to their enclosing item) whose MIR
    names that field in any place"""
    if hasattr(F, "_field_mentions"):
        return F._field_mentions
    idx = {}
    for b in F.bodies.values():
        s = set()
        _places_in(b.blocks, s)
        for k in s:
            idx.setdefault(k, set()).add(b.owner.get("item_key"))
    F._field_mentions = idx
    return idx


def item_storage(cat, adt):
    """fields of `adt` that hold item data: storage-typed fields that some body other than the
    type's own write/lifecycle methods reads (Region::index, the read-item accessors that go
    back through the region reference, iterators, ...).  Statistics that only push/merge/print
    touch are therefore not item storage.  None for non-local types."""
    fields = cat.fields(adt)
    if not fields:
        return None
    F = cat.F
    idx = field_mentions(F)
    res = set()
    for fd in fields:
        f = fd["name"]
        if is_phantom(fd["ty"]) or not is_storage_type(fd["ty"]["s"], F):
            continue
        for item_key in idx.get((adt, f), ()):
            ib = F.bodies.get(item_key)
            if ib is None:
                continue
            if ib.derived:
                continue
            if ib.self_adt == adt and (ib.name in LIFECYCLE_NAMES or only_lifecycle_callers(F, ib, adt)):
                continue
            if ib.self_adt in F.custom_iterator_adts():
                continue  # a helper iterator type of the crate (it reads on behalf of whoever builds it)
            res.add(f)
            break
    return res


def callers_of(F):
    if hasattr(F, "_callers"):
        return F._callers
    idx = {}
    for key, d in F.raw_bodies.items():
        owner = d["owner"].get("item_key", key)
        for bl in d["blocks"]:
            t = bl["term"]
            if t["k"] == "call" and t.get("callee"):
                ce = t["callee"]
                for k in (ce.get("key"), (ce.get("resolved") or {}).get("key")):
                    if k:
                        idx.setdefault(k, set()).add(owner)
    F._callers = idx
    return idx


def only_lifecycle_callers(F, ib, adt, _depth=0):
    """a non-public helper all of whose (transitive) callers are write/lifecycle methods of adt"""
    if ib.d.get("vis_pub") or ib.trait is not None or _depth > 3:
        return False
    cs = callers_of(F).get(ib.key, set())
    if not cs:
        return False
    for ck in cs:
        cb = F.bodies.get(ck)
        if cb is None:
            return False
        if cb.self_adt == adt and cb.name in LIFECYCLE_NAMES:
            continue
        if cb.self_adt == adt and only_lifecycle_callers(F, cb, adt, _depth + 1):
            continue
        return False
    return True
