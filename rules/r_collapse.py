"""C11: CollapseSequence::push collapses exactly on equality with the previous item."""
from core import Ctx, callee_tag
from model import Catalogue, self_field_targets
from expr import trees, tree, show, operand_tree, place_tree, facts_at, reach_strict

CS = "impls::deduplicate::CollapseSequence"


def r_collapse_push(F, R, cat=None):
    cat = cat or Catalogue(F)
    bodies = [b for b in F.methods_of_trait("Push", "push") if b.self_adt == CS]
    R.floor("R-COLLAPSE", "CollapseSequence push impls", len(bodies), 1)
    for b in bodies:
        R.saw(b)
        ctx, effs = cat.effects(b)
        last = ("place", b.key, ("arg", 1), ("f:last_index", "v:Some", "f:0"))
        inner = ("place", b.key, ("arg", 1), ("f:inner",))
        item = ("place", b.key, ("arg", 2), ())
        # the equality test
        eqs = [(bi, t) for (bi, t) in b.calls() if callee_tag(t.get("callee")) == ("PartialEq", "eq")]
        ok_eq = False
        eq_tree = None
        for (bi, t) in eqs:
            a0 = operand_tree(ctx, t["args"][0])
            a1 = operand_tree(ctx, t["args"][1])
            whole = ("place", b.key, ("arg", 1), ())

            def is_prev(x):
                return x[0] == "call" and x[1] == ("Region", "index") and x[2] in ((inner, last), (whole, last))
            if (a0 == item and is_prev(a1)) or (a1 == item and is_prev(a0)):
                ok_eq = True
                eq_tree = (bi, t)
        R.check("R-COLLAPSE", b.label(), ok_eq and len(eqs) == 1,
                construct="compares the pushed item with inner.index(last_index)", where=b.where(),
                detail="%d equality tests; operands %s" % (len(eqs), [
                    (show(operand_tree(ctx, t["args"][0])), show(operand_tree(ctx, t["args"][1]))) for (_, t) in eqs]))
        # return values
        rets = [tree(ctx, o) for o in ctx.org.local(0)]
        pushes = [e for e in effs if e.tag == ("Push", "push") and ("inner", ()) in self_field_targets(e, ctx)]
        ok_ret = len(rets) == 2 and last in rets and any(
            t[0] == "call" and t[1] == ("Push", "push") and t[2] == (inner, item) for t in rets)
        R.check("R-COLLAPSE", b.label(), ok_ret,
                construct="returns either the stored last_index or the result of inner.push(item)",
                where=b.where(), detail="returns %s" % [show(t) for t in rets])
        R.check("R-COLLAPSE", b.label(), len(pushes) == 1, construct="exactly one inner.push site",
                where=b.where(), detail="%d" % len(pushes))
        # early return lies on the == true edge and no write happens on it
        early = []
        for bi in sorted(b.live_blocks()):
            for st in b.blocks[bi]["stmts"]:
                if st["k"] == "assign" and st["place"]["l"] == 0 and not st["place"]["p"]:
                    v = trees(ctx, ctx.org.rvalue(st["rv"], bi, 0))
                    if v == last:
                        early.append(bi)
        ok_early = bool(early)
        why = []
        for eb in early:
            facts = facts_at(ctx, eb)
            on_true = any(f[0] == "truthy" and f[2] is True and f[1][0] == "call" and
                          f[1][1] == ("PartialEq", "eq") for f in facts)
            if not on_true:
                ok_early = False
                why.append("collapse return at bb%d not on the equality-true edge" % eb)
            writes = [e for e in effs if e.cls in ("append", "assign", "destructive", "clear") and
                      self_field_targets(e, ctx) and
                      (e.top_bb == eb or eb in reach_strict(b, e.top_bb) or e.top_bb in reach_strict(b, eb))]
            if writes:
                ok_early = False
                why.append("writes on the collapse path: %s" % [(e.cls, e.tag[1], e.line) for e in writes])
        R.check("R-COLLAPSE", b.label(), ok_early,
                construct="collapse path: only when equal, and it writes nothing",
                where=b.where(), detail="; ".join(why) or "early-return blocks %s" % early)
        # the storing path remembers the new index
        ok_store = False
        for e in effs:
            if e.cls == "assign" and ("last_index", ()) in self_field_targets(e, ctx):
                v = trees(e.ctx, e.value)
                if v[0] == "agg" and v[1] == "Option::Some" and v[2] and v[2][0][0] == "call" and \
                        v[2][0][1] == ("Push", "push"):
                    if pushes and (e.top_bb in reach_strict(b, pushes[0].top_bb)):
                        ok_store = True
        R.check("R-COLLAPSE", b.label(), ok_store,
                construct="last_index = Some(result of inner.push) after the push",
                where=b.where())
