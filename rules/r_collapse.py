"""C11: CollapseSequence::push collapses exactly on equality with the previous item."""
from core import Ctx, callee_tag
from model import Catalogue, self_field_targets
from expr import trees, tree, show, operand_tree, place_tree, facts_at, reach_strict

CS = "impls::deduplicate::CollapseSequence"


def r_collapse_push(F, R, cat=None):
    """CollapseSequence::push, read through closures and Option combinators:
      * exactly one equality test, between the pushed item and inner.index(last_index);
      * the function returns either the remembered last_index or the result of inner.push(item);
      * the remembered index is returned only where that test is known to have been true, and
        nothing is written on that path;
      * exactly one inner.push site, after which last_index = Some(its result)."""
    from core import all_ctxs
    from expr import ret_alts, expand, nobb, NONE
    cat = cat or Catalogue(F)
    bodies = [b for b in F.methods_of_trait("Push", "push") if b.self_adt == CS]
    R.floor("R-COLLAPSE", "CollapseSequence push impls", len(bodies), 1)
    for b in bodies:
        R.saw(b)
        ctx, effs = cat.effects(b)
        last = ("place", b.key, ("arg", 1), ("f:last_index", "v:Some", "f:0"))
        inner = ("place", b.key, ("arg", 1), ("f:inner",))
        whole = ("place", b.key, ("arg", 1), ())
        item = ("place", b.key, ("arg", 2), ())

        def is_prev(x):
            return x[0] == "call" and x[1] == ("Region", "index") and tuple(x[2]) in ((inner, last), (whole, last))

        def is_eq_tree(t):
            return t[0] == "call" and t[1] == ("PartialEq", "eq") and len(t[2]) == 2 and (
                (t[2][0] == item and is_prev(t[2][1])) or (t[2][1] == item and is_prev(t[2][0])))
        # the equality test (possibly inside a closure handed to filter / map / is_some_and ..)
        eqs = []
        for c in all_ctxs(F, b):
            for (bi, t) in c.body.calls():
                if callee_tag(t.get("callee")) == ("PartialEq", "eq"):
                    eqs.append(nobb(("call", ("PartialEq", "eq"),
                                     (operand_tree(c, t["args"][0]), operand_tree(c, t["args"][1])), ())))
        ok_eq = len(eqs) == 1 and is_eq_tree(eqs[0])
        R.check("R-COLLAPSE", b.label(), ok_eq,
                construct="compares the pushed item with inner.index(last_index)", where=b.where(),
                detail="%d equality tests; operands %s" % (len(eqs), [(show(e[2][0]), show(e[2][1])) for e in eqs]))
        # return values
        rets = {nobb(t) for t in ret_alts(ctx) if t != NONE}
        pushes = [e for e in effs if e.tag == ("Push", "push") and ("inner", ()) in self_field_targets(e, ctx)]

        def is_push_result(t):
            return t[0] == "call" and t[1] == ("Push", "push") and tuple(t[2]) == (inner, item) and not t[3]
        ok_ret = last in rets and any(is_push_result(t) for t in rets) and \
            all(t == last or is_push_result(t) for t in rets)
        R.check("R-COLLAPSE", b.label(), ok_ret,
                construct="returns either the stored last_index or the result of inner.push(item)",
                where=b.where(), detail="returns %s" % sorted(show(t) for t in rets))
        R.check("R-COLLAPSE", b.label(), len(pushes) == 1, construct="exactly one inner.push site",
                where=b.where(), detail="%d" % len(pushes))
        # blocks that make the remembered index the result
        early = []
        for bi in sorted(b.live_blocks()):
            for si, st in enumerate(b.blocks[bi]["stmts"]):
                if st["k"] == "assign" and st["place"]["l"] == 0 and not st["place"]["p"]:
                    v = trees(ctx, ctx.org.rvalue(st["rv"], bi, si))
                    alts = {nobb(x) for x in expand(F, v) if x != NONE}
                    if alts == {last}:
                        early.append(bi)
        ok_early = bool(early)
        why = []
        for eb in early:
            facts = facts_at(ctx, eb)
            on_true = any(f[0] == "truthy" and f[2] is True and is_eq_tree(nobb(f[1])) for f in facts)
            if not on_true:
                ok_early = False
                why.append("collapse return at bb%d not on the equality-true edge" % eb)
            writes = [e for e in effs if e.cls in ("append", "assign", "destructive", "clear") and
                      self_field_targets(e, ctx) and
                      (e.top_bb == eb or eb in reach_strict(b, e.top_bb) or e.top_bb in reach_strict(b, eb))]
            # Option::insert / replace on last_index is a write as well
            for (bi, t) in b.calls():
                if callee_tag(t.get("callee")) in (("Option", "insert"), ("Option", "replace"), ("Option", "take")) and \
                        (bi == eb or eb in reach_strict(b, bi) or bi in reach_strict(b, eb)):
                    writes.append(("call", callee_tag(t.get("callee"))[1], t.get("line")))
            if writes:
                ok_early = False
                why.append("writes on the collapse path: %s" % [
                    (e.cls, e.tag[1], e.line) if hasattr(e, "cls") else e for e in writes])
        if not early:
            # combinator form: `self.last_index.filter(|&l| item == self.inner.index(l))
            #                      .unwrap_or_else(|| <store>)` -- the remembered index is the
            # payload of a filter over last_index whose predicate is the equality test, and every
            # write sits in the closure that only runs when the filter answered None
            from expr import apply_fn, closure_key
            rt = nobb(trees(ctx, ctx.org.local(0)))
            lastopt = ("place", b.key, ("arg", 1), ("f:last_index",))
            if rt[0] == "call" and rt[1] == ("Option", "unwrap_or_else") and len(rt[2]) == 2 and not rt[3]:
                sel, fallback = rt[2]
                fkey = closure_key(fallback)
                pred_ok = False
                if sel[0] == "call" and sel[1] == ("Option", "filter") and len(sel[2]) == 2 and not sel[3] and \
                        nobb(sel[2][0]) == lastopt:
                    res = {nobb(x) for x in apply_fn(F, sel[2][1], [last])}
                    pred_ok = len(res) == 1 and is_eq_tree(next(iter(res)))
                pkey = closure_key(sel[2][1]) if sel[0] == "call" and len(sel[2]) == 2 else None
                outside = [e for e in effs if e.cls in ("append", "assign", "destructive", "clear") and
                           self_field_targets(e, ctx) and (fkey is None or not _inside(e.ctx, fkey))]
                for c in all_ctxs(F, b):
                    if fkey is not None and _inside(c, fkey):
                        continue
                    for (bi, t) in c.body.calls():
                        if callee_tag(t.get("callee")) in (("Option", "insert"), ("Option", "replace"), ("Option", "take")):
                            outside.append(("call", callee_tag(t.get("callee"))[1], t.get("line")))
                ok_early = pred_ok and fkey is not None and not outside
                early = ["filter(last_index, item == inner.index(..)).unwrap_or_else(store)"]
                if not pred_ok:
                    why.append("the remembered index is not selected by a filter on the equality test")
                if outside:
                    why.append("writes outside the fallback closure: %s" % [
                        (e.cls, e.tag[1], e.line) if hasattr(e, "cls") else e for e in outside])
        R.check("R-COLLAPSE", b.label(), ok_early,
                construct="collapse path: only when equal, and it writes nothing",
                where=b.where(), detail="; ".join(why) or "early-return blocks %s" % early)
        # the storing path remembers the new index
        ok_store = False
        for e in effs:
            if e.cls == "assign" and ("last_index", ()) in self_field_targets(e, ctx):
                v = trees(e.ctx, e.value)
                if v[0] == "agg" and v[1] == "Option::Some" and v[2] and v[2][0][0] == "call" and \
                        v[2][0][1] == ("Push", "push"):
                    if pushes and (e.top_bb in reach_strict(b, pushes[0].top_bb)):
                        ok_store = True
        for (bi, t) in b.calls():
            if callee_tag(t.get("callee")) in (("Option", "insert"), ("Option", "replace")) and len(t["args"]) == 2:
                recv = nobb(operand_tree(ctx, t["args"][0]))
                val = nobb(operand_tree(ctx, t["args"][1]))
                if recv == ("place", b.key, ("arg", 1), ("f:last_index",)) and is_push_result(val) and pushes and \
                        (bi == pushes[0].top_bb or bi in reach_strict(b, pushes[0].top_bb)):
                    ok_store = True
        if not ok_store:
            # the store may sit in a closure (`|| *self.last_index.insert(self.inner.push(item))`)
            for c in all_ctxs(F, b):
                if c is ctx:
                    continue
                pbs = [bi for (bi, t) in c.body.calls() if callee_tag(t.get("callee")) == ("Push", "push") and
                       len(t["args"]) == 2 and nobb(operand_tree(c, t["args"][0])) == inner]
                for (bi, t) in c.body.calls():
                    if callee_tag(t.get("callee")) in (("Option", "insert"), ("Option", "replace")) and len(t["args"]) == 2:
                        recv = nobb(operand_tree(c, t["args"][0]))
                        val = nobb(operand_tree(c, t["args"][1]))
                        if recv == ("place", b.key, ("arg", 1), ("f:last_index",)) and is_push_result(val) and \
                                len(pbs) == 1 and (bi == pbs[0] or bi in reach_strict(c.body, pbs[0])):
                            ok_store = True
        R.check("R-COLLAPSE", b.label(), ok_store,
                construct="last_index = Some(result of inner.push) after the push",
                where=b.where())


def _inside(c, key):
    """ctx c is the closure `key` or nested in it"""
    while c is not None:
        if c.body.key == key:
            return True
        c = c.parent
    return False


def r_collapse_remembers(F, R, cat=None):
    """whatever method of CollapseSequence stores an item in the inner region (push itself, a batch
    hook, an extend-style helper) remembers it: on every path from an `inner.push` to the return
    of the body (or closure) it sits in, `last_index` is written.  An item stored without being
    remembered is not what the next push is compared with."""
    from core import all_ctxs
    from expr import nobb
    n = 0
    for b in F.bodies.values():
        if b.self_adt != CS or b.kind != "AssocFn" or b.in_tests() or b.derived:
            continue
        inner = ("place", b.key, ("arg", 1), ("f:inner",))
        lastp = ("place", b.key, ("arg", 1), ("f:last_index",))
        ctxs = None
        c0 = Ctx(b)
        direct = any(callee_tag(t.get("callee")) == ("Push", "push") and len(t["args"]) == 2 and
                     nobb(operand_tree(c0, t["args"][0])) == inner for (_, t) in b.calls())
        if not direct and not any(st["k"] == "assign" and st["rv"]["k"] == "aggregate" and st["rv"].get("agg") == "closure"
                                  for blk in b.blocks for st in blk["stmts"]):
            continue
        for c in all_ctxs(F, b):
            body = c.body
            pushes = [(bi, t) for (bi, t) in body.calls() if callee_tag(t.get("callee")) == ("Push", "push") and
                      len(t["args"]) == 2 and nobb(operand_tree(c, t["args"][0])) == inner]
            if not pushes:
                continue
            stores = set()
            for bi in body.live_blocks():
                for st in body.blocks[bi]["stmts"]:
                    if st["k"] == "assign" and st["place"]["p"]:
                        if nobb(place_tree(c, st["place"]))[:4] == lastp or any(
                                cc is not None and r == ("arg", 1) and tuple(p[:1]) == ("f:last_index",) and cc.body is b
                                for o in c.org.place(st["place"]) for (cc, (r, p)) in _base(c, o)):
                            stores.add(bi)
            for (bi, t) in body.calls():
                if callee_tag(t.get("callee")) in (("Option", "insert"), ("Option", "replace"), ("Option", "get_or_insert")) and t["args"]:
                    if nobb(operand_tree(c, t["args"][0])) == lastp:
                        stores.add(bi)
            for (bi, t) in pushes:
                n += 1
                R.saw(b)
                tgt = t.get("target")
                forgets = tgt is not None and bi not in stores and body.can_return_avoiding(stores, frm=tgt)
                R.check("R-COLLAPSE", b.label(), not forgets, construct="an item stored in the inner region is remembered as the last one",
                        where="%s:%s" % (body.file, t["line"]),
                        detail="last_index is written on every path from this inner.push to the return" if not forgets else
                        "some path from this inner.push returns without writing last_index: the next push is compared with an older item")
    R.floor("R-COLLAPSE", "inner.push sites in CollapseSequence methods", n, 1)


def _base(c, o):
    from core import base_places
    return base_places(c, o)
