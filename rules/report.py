"""Obligation / violation bookkeeping shared by all rules."""


class Report:
    def __init__(self, prop, tier):
        self.prop = prop
        self.tier = tier
        self.config = None
        self.obligations = []  # dicts
        self.violations = {}  # key -> dict (deduplicated across configs)
        self.infos = []
        self.floor_fail = []
        self.floors = []
        self.functions = set()
        self.callsites = 0
        self.undecided = []
        self.extra = {}

    def set_config(self, config):
        self.config = config

    def saw(self, body):
        self.functions.add(body.path)

    def check(self, rule, subject, ok, construct="", where="", detail="", nontrivial=True):
        """one rule instance (= obligation).  `subject` and `construct` form the stable key;
        `where` (file:line) is only for the human-readable report."""
        ob = {
            "rule": rule,
            "subject": subject,
            "construct": construct,
            "ok": bool(ok),
            "where": where,
            "detail": detail,
            "config": self.config,
            "nontrivial": nontrivial,
        }
        self.obligations.append(ob)
        if not ok:
            key = "%s|%s|%s|%s" % (self.prop, rule, subject, construct)
            if key not in self.violations:
                v = dict(ob)
                v["key"] = key
                self.violations[key] = v
        return ok

    def floor(self, rule, what, count, minimum):
        self.floors.append({"rule": rule, "what": what, "count": count, "floor": minimum,
                            "config": self.config})
        if count < minimum:
            self.floor_fail.append("%s: %s = %d below the floor %d counted on the pinned tree (%s)"
                                   % (rule, what, count, minimum, self.config))

    def info(self, msg):
        if msg not in self.infos:
            self.infos.append(msg)

    def undecided_site(self, rule, subject, what):
        s = "%s: %s: %s" % (rule, subject, what)
        if s not in self.undecided:
            self.undecided.append(s)
