"""Obligation / violation bookkeeping shared by all rules."""


class Report:
    def __init__(self, prop, tier):
        self.prop = prop
        self.tier = tier
        self.config = None
        self.obligations = []  # dicts
        self.violations = {}  # key -> dict (deduplicated across configs)
        self.infos = []
        self.floor_fail = []
        self.floors = []
        self.functions = set()
        self.callsites = 0
        self.undecided = []
        self.extra = {}

    def set_config(self, config):
        self.config = config

    def saw(self, body):
        self.functions.add(body.path)

    def check(self, rule, subject, ok, construct="", where="", detail="", nontrivial=True):
        """one rule instance (= obligation).  `subject` and `construct` form the stable key;
        `where` (file:line) is only for the human-readable report."""
        ob = {
            "rule": rule,
            "subject": subject,
            "construct": construct,
            "ok": bool(ok),
            "where": where,
            "detail": detail,
            "config": self.config,
            "nontrivial": nontrivial,
        }
        self.obligations.append(ob)
        if not ok:
            key = "%s|%s|%s|%s" % (self.prop, rule, subject, construct)
            if key not in self.violations:
                v = dict(ob)
                v["key"] = key
                self.violations[key] = v
        return ok

    def floor(self, rule, what, count, minimum):
        # `minimum` is the number of instances counted by hand on the pinned tree; it is recorded in
        # the evidence.  The check fails closed only when a rule would pass *vacuously* (no instance
        # at all although the pinned tree had some): a refactoring may legitimately merge or split
        # instances, so a smaller non-zero count is not an infrastructure failure.
        self.floors.append({"rule": rule, "what": what, "count": count, "pinned_count": minimum,
                            "config": self.config})
        if minimum >= 1 and count < 1:
            self.floor_fail.append("%s: %s = 0 (the pinned tree had %d): the rule would pass vacuously (%s)"
                                   % (rule, what, minimum, self.config))

    def info(self, msg):
        if msg not in self.infos:
            self.infos.append(msg)

    def undecided_site(self, rule, subject, what):
        s = "%s: %s: %s" % (rule, subject, what)
        if s not in self.undecided:
            self.undecided.append(s)
