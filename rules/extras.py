"""R-ITER for read items, type inventories, and the thorough-tier extras (witness crate)."""
import json
import os
import shutil
import subprocess
import tempfile

from core import Ctx, callee_tag, closure_sites
from expr import trees, tree, show, operand_tree
from r_bracket import walk
from r_flatstack import strip_bb

VERIF = os.path.dirname(os.path.dirname(os.path.abspath(__file__)))
BAD_ITER = {"next_back", "rev", "skip", "step_by", "nth", "nth_back", "last", "take", "filter"}


def bad_adaptors(b):
    return sorted({callee_tag(t.get("callee"))[1] for (_, t) in b.calls()
                   if callee_tag(t.get("callee"))[1] in BAD_ITER})


def P(b, *path, arg=1):
    return ("place", b.key, ("arg", arg), tuple(path))


def r_iter_readitems(F, R):
    """R-ITER for the read items of slice and columns regions, on the semantic alternatives of
    what each function returns (match / if-let / `?` / combinators all look the same there)."""
    from expr import ret_alts, nobb, NONE
    n = 0
    # ---- ReadSlice::into_iter builds start..end of the same item
    for b in [x for x in F.bodies.values() if x.trait == "IntoIterator" and x.name == "into_iter" and
              x.self_adt == "impls::slice::ReadSlice"]:
        n += 1
        R.saw(b)
        ctx = Ctx(b)
        alts = [nobb(t) for t in ret_alts(ctx) if t != NONE]
        ok_range = False
        ok_owned = False
        bad_range = []
        for t in alts:
            for nd in walk(t):
                if nd[0] == "agg" and nd[1] == "Range::Range" and len(nd[2]) == 2:
                    s_, e_ = nd[2]
                    good = (s_[0] == "place" and e_[0] == "place" and s_[3][-1:] == ("f:start",) and
                            e_[3][-1:] == ("f:end",) and s_[3][:-1] == e_[3][:-1])
                    ok_range = ok_range or good
                    if not good:
                        bad_range.append(show(nd))
                if nd[0] == "agg" and nd[1] != "Range::Range" and not str(nd[1]).startswith("closure:") and len(nd[2]) >= 2:
                    # the iterator keeps the two cursors as fields of its own instead of a Range:
                    # the item's start and end, in that order
                    ss = [i for i, c in enumerate(nd[2]) if c[0] == "place" and c[3][-1:] == ("f:start",)]
                    ee = [i for i, c in enumerate(nd[2]) if c[0] == "place" and c[3][-1:] == ("f:end",)]
                    if len(ss) == 1 and len(ee) == 1 and nd[2][ss[0]][3][:-1] == nd[2][ee[0]][3][:-1]:
                        if ss[0] < ee[0]:
                            ok_range = True
                        else:
                            bad_range.append(show(nd))
                if nd[0] == "call" and nd[1] == ("slice", "iter") and nd[2] and nd[2][0][0] == "place" and \
                        len(nd[2][0][3]) >= 2 and nd[2][0][3][-2].startswith("v:") and nd[2][0][3][-1] == "f:0":
                    ok_owned = True  # the owned representation (Err on the pinned tree, any variant of a private either-type)
        if not ok_range and not bad_range and not ok_owned:
            R.undecided_site("R-ITER", b.label(), "iterator construction not recognised: %s" % [show(t)[:100] for t in alts])
        else:
            R.check("R-ITER", b.label(), ok_range and ok_owned and not bad_range and not bad_adaptors(b),
                    construct="iterates start..end of the region-backed item / the whole owned slice",
                    where=b.where(), detail="returns %s" % [show(t)[:140] for t in alts])
    # ---- ReadSliceIterInner::next = range.next().map(|i| region.inner.index(region.slices.index(i)))
    for b in [x for x in F.bodies.values() if x.trait == "Iterator" and x.name == "next" and
              x.self_adt == "impls::slice::ReadSliceIterInner"]:
        n += 1
        R.saw(b)
        ctx = Ctx(b)
        somes = [nobb(t) for t in ret_alts(ctx) if t != NONE]
        ok = bool(somes)
        for t in somes:
            good = False
            if t[0] == "agg" and t[1] == "Option::Some" and t[2][0][0] == "call" and t[2][0][1] == ("Region", "index"):
                inner_, pos_ = t[2][0][2]
                if pos_[0] == "call" and pos_[1] == ("IndexContainer", "index"):
                    slices_, k_ = pos_[2]
                    rng = [f["name"] for f in F.adts["impls::slice::ReadSliceIterInner"]["variants"][0]["fields"]
                           if "Range" in f["ty"]["s"]]
                    same_region = (inner_[0] == "place" and slices_[0] == "place" and inner_[3][-1:] == ("f:inner",) and
                                   slices_[3][-1:] == ("f:slices",) and inner_[3][:-1] == slices_[3][:-1])
                    good = (same_region and
                            k_[0] == "call" and k_[1] == ("Iterator", "next") and k_[3] == ("v:Some", "f:0") and
                            k_[2][0][0] == "place" and k_[2][0][2] == ("arg", 1) and
                            (not rng or k_[2][0][3] == ("f:" + rng[0],)))
                    if not good and same_region and k_[0] == "place" and k_[2] == ("arg", 1) and k_[3]:
                        # the range is stepped by hand: position = the cursor field, which R-ITER
                        # (positions) checks to be guarded by cursor < end and advanced by one
                        good = True
            ok = ok and good
        R.check("R-ITER", b.label(), ok and not bad_adaptors(b),
                construct="next = range.next().map(|i| region.inner.index(region.slices.index(i)))",
                where=b.where(), detail="yields %s" % [show(t)[:150] for t in somes])
    # ---- wrappers: per-arm delegation
    for adt in ("impls::slice::ReadSliceIter", "impls::columns::ReadColumnsIter"):
        for b in [x for x in F.bodies.values() if x.trait == "Iterator" and x.name == "next" and x.self_adt == adt]:
            n += 1
            R.saw(b)
            ctx = Ctx(b)
            alts = [nobb(t) for t in ret_alts(ctx) if t != NONE]
            arms = set()
            bad = []
            # the two representations: region-backed (delegates to the inner iterator) and owned
            # (borrows each element); Ok / Err on the pinned tree, any two variants of a private
            # either-type otherwise
            variants_seen = {}
            for t in alts:
                if t[0] == "call" and t[1] == ("Iterator", "next") and t[2][0][0] == "place" and \
                        len(t[2][0][3]) >= 2 and t[2][0][3][-2].startswith("v:") and t[2][0][3][-1] == "f:0":
                    arms.add("Ok")
                    variants_seen["Ok"] = t[2][0][3][-2]
                elif t[0] == "agg" and t[1] == "Option::Some" and t[2][0][0] == "call" and \
                        t[2][0][1] == ("IntoOwned", "borrow_as") and t[2][0][2][0][0] == "call" and \
                        t[2][0][2][0][1] == ("Iterator", "next") and t[2][0][2][0][3] == ("v:Some", "f:0") and \
                        t[2][0][2][0][2][0][0] == "place" and len(t[2][0][2][0][2][0][3]) >= 2 and \
                        t[2][0][2][0][2][0][3][-2].startswith("v:") and t[2][0][2][0][2][0][3][-1] == "f:0":
                    arms.add("Err")
                    variants_seen["Err"] = t[2][0][2][0][2][0][3][-2]
                elif t[0] == "agg" and t[1] == "Option::Some" and t[2][0][0] == "call" and t[2][0][1] == ("Region", "index") and \
                        len(t[2][0][2]) == 2:
                    # the inner iterator's `next` written out in the wrapper: both halves of one zip
                    # element of the region-backed representation
                    col, idx = t[2][0][2]
                    same_zip = col[0] == "call" and idx[0] == "call" and col[1] == idx[1] == ("Iterator", "next") and \
                        col[2] == idx[2] and col[3] == ("v:Some", "f:0", "f:1") and idx[3] == ("v:Some", "f:0", "f:0")
                    src = col[2][0] if same_zip and col[2] else None
                    if same_zip and src is not None and src[0] == "place" and any(x.startswith("v:") for x in src[3]):
                        arms.add("Ok")
                        variants_seen["Ok"] = [x for x in src[3] if x.startswith("v:")][-1]
                    else:
                        bad.append(show(t)[:100])
                else:
                    bad.append(show(t)[:100])
            if len(variants_seen) == 2 and variants_seen["Ok"] == variants_seen["Err"]:
                bad.append("both arms read the same variant %s" % variants_seen["Ok"])
            R.check("R-ITER", b.label(), arms == {"Ok", "Err"} and not bad and not bad_adaptors(b),
                    construct="next delegates to the matching arm's next",
                    where=b.where(), detail="yields %s" % [show(t)[:100] for t in alts])
    # ---- ReadColumns::into_iter zips (row indices, columns) in that order; next = r.index(i)
    for b in [x for x in F.bodies.values() if x.trait == "IntoIterator" and x.name == "into_iter" and
              x.self_adt == "impls::columns::ReadColumns"]:
        n += 1
        R.saw(b)
        ctx = Ctx(b)
        alts = [nobb(t) for t in ret_alts(ctx) if t != NONE]
        ok = False
        seen_zip = False
        for t in alts:
            for nd in walk(t):
                if nd[0] == "call" and nd[1] == ("Iterator", "zip") and len(nd[2]) == 2:
                    seen_zip = True
                    a, c = nd[2]
                    pa = [x for x in walk(a) if x[0] == "place"]
                    pc = [x for x in walk(c) if x[0] == "place"]
                    ok = bool(pa) and bool(pc) and pa[0][3][-1] == "f:index" and pc[0][3][-1] == "f:columns" \
                        and pa[0][3][:-1] == pc[0][3][:-1]
        if not seen_zip:
            R.undecided_site("R-ITER", b.label(), "row iterator construction not recognised")
        else:
            R.check("R-ITER", b.label(), ok and not bad_adaptors(b),
                    construct="iterates zip(row indices, columns) of the same row",
                    where=b.where(), detail="returns %s" % [show(t)[:140] for t in alts])
    for b in [x for x in F.bodies.values() if x.trait == "Iterator" and x.name == "next" and
              x.self_adt == "impls::columns::ReadColumnsIterInner"]:
        n += 1
        R.saw(b)
        ctx = Ctx(b)
        somes = [nobb(t) for t in ret_alts(ctx) if t != NONE]
        ok = bool(somes)
        unknown = False
        for t in somes:
            good = False
            if t[0] == "agg" and t[1] == "Option::Some" and t[2][0][0] == "call" and t[2][0][1] == ("Region", "index"):
                col, idx = t[2][0][2]
                # one zip over (row indices, columns): both halves of the same element
                good = (col[0] == "call" and idx[0] == "call" and col[1] == idx[1] == ("Iterator", "next") and
                        col[2] == idx[2] and col[3] == ("v:Some", "f:0", "f:1") and idx[3] == ("v:Some", "f:0", "f:0"))
                if not good and col[0] == "call" and idx[0] == "call" and col[1] == idx[1] and \
                        col[1][1] in ("split_first", "first", "next") and col[2] != idx[2]:
                    # two stored sequences advanced in lock step (heads of both): the pairing of
                    # positions is kept by advancing both on the same path, which is not decided here
                    unknown = True
                    good = True
            ok = ok and good
        if unknown and ok:
            R.undecided_site("R-ITER", b.label(), "row iterator keeps two sequences and takes the head of each: "
                             "that both advance together is not decided")
        R.check("R-ITER", b.label(), ok and not bad_adaptors(b),
                construct="next = zip.next().map(|(i, column)| column.index(i))",
                where=b.where(), detail="yields %s" % [show(t)[:150] for t in somes])
    # ---- stepping the row iterator from the back
    RCI = "impls::columns::ReadColumnsIterInner"
    for b in [x for x in F.bodies.values() if x.self_adt == RCI and x.kind == "AssocFn" and not x.in_tests() and
              x.name in ("next_back", "last", "nth_back") and x.trait in ("Iterator", "DoubleEndedIterator")]:
        ctx = Ctx(b)
        somes = [nobb(t) for t in ret_alts(ctx) if t != NONE]
        for t in somes:
            if not (t[0] == "agg" and t[1] == "Option::Some" and t[2][0][0] == "call" and t[2][0][1] == ("Region", "index")):
                continue
            col, idx = t[2][0][2]
            if not (col[0] == "call" and idx[0] == "call" and col[1][1] in ("next_back", "last", "nth_back") and
                    idx[1][1] in ("next_back", "last", "nth_back") and col[2] and idx[2] and col[2][0] != idx[2][0] and
                    col[2][0][0] == "place" and idx[2][0][0] == "place"):
                continue
            n += 1
            R.saw(b)
            # what the two sequences are built from
            fields = [f["name"] for f in F.adts[RCI]["variants"][0]["fields"]] if RCI in F.adts else []
            built = {}
            for ib in [x for x in F.bodies.values() if x.trait == "IntoIterator" and x.name == "into_iter" and
                       x.self_adt == "impls::columns::ReadColumns"]:
                for alt in ret_alts(Ctx(ib)):
                    for nd in walk(nobb(alt)):
                        if nd[0] == "agg" and nd[1].startswith("ReadColumnsIterInner::") and len(nd[2]) == len(fields):
                            built = dict(zip(fields, nd[2]))
            cf = col[2][0][3][-1][2:] if col[2][0][3] else None
            xf = idx[2][0][3][-1][2:] if idx[2][0][3] else None
            cv, xv = built.get(cf), built.get(xf)

            def plain_iter_of(v, fld):
                return v is not None and v[0] == "call" and v[1][1] == "iter" and v[2] and v[2][0][0] == "place" and \
                    v[2][0][3][-1:] == ("f:" + fld,)
            if plain_iter_of(cv, "columns") and plain_iter_of(xv, "index"):
                R.check("R-ITER", b.label(), False, construct="cells are paired by position when stepping from the back",
                        where=b.where(),
                        detail="%s() takes the last remaining index and the last remaining column, but the two sequences "
                               "are the row's own indices and *all* columns of the region: a row narrower than the region "
                               "pairs its last index with a column it has no cell in" % b.name)
            else:
                R.undecided_site("R-ITER", b.label(), "%s() steps two sequences from the back; that they have equal length is not decided" % b.name)
    R.floor("R-ITER", "read-item iterator bodies", n, 6)


def r_index_types(F, R):
    """C19 type inventory"""
    a = F.adts.get("impls::index::Stride")
    ok = a is not None
    tys = []
    if ok:
        for v in a["variants"]:
            for f in v["fields"]:
                tys.append(f["ty"]["s"])
        ok = all(t == "usize" for t in tys)
    R.check("R-TYPES", "impls::index::Stride", ok, construct="Stride holds only usize fields (no heap)",
            where="%s:%s" % (a["span"]["file"], a["span"]["line"]) if a else "", detail="field types %s" % tys)
    # IndexList<S: IndexContainer<u32>, L: IndexContainer<u64>>
    preds = set()
    for i in F.impls:
        if i["self_ty"].get("adt") == "impls::index::IndexList" and i.get("trait") == "impls::index::IndexContainer":
            preds |= set(i["predicates"])
    # by the type parameters of the two fields, whatever they are called
    al = F.adts.get("impls::index::IndexList")
    pnames = [f["ty"]["s"] for f in al["variants"][0]["fields"]] if al else []
    small, large = (pnames + ["S", "L"])[:2] if len(pnames) >= 2 else ("S", "L")
    ok = any("IndexContainer<u32>" in p and p.startswith(small + ":") for p in preds) and \
        any("IndexContainer<u64>" in p and p.startswith(large + ":") for p in preds)
    R.check("R-TYPES", "impls::index::IndexList", ok, construct="S stores u32, L stores u64",
            detail="bounds %s" % sorted(p for p in preds if "IndexContainer" in p))
    # IndexOptimized::heap_size reports only spilled: covered by C18's exemption table; here: strided is a Stride
    a = F.adts.get("impls::index::IndexOptimized")
    ok = a is not None and [f["ty"]["s"] for f in a["variants"][0]["fields"] if f["name"] == "strided"] == ["impls::index::Stride"]
    R.check("R-TYPES", "impls::index::IndexOptimized", ok, construct="strided is an inline Stride")


# ---------------------------------------------------------------------------------------------
# witnesses (thorough tier)


def witness(prop):
    def run(R, repo):
        res = run_witnesses(repo)
        mine = [w for w in res["tests"] if w["name"].lower().startswith("src/lib.rs - %s" % prop.lower())
                or ("::" + prop.lower() + "_") in w["name"].lower() or (" " + prop.lower() + "_") in w["name"].lower()]
        R.set_config("witness")
        for w in mine:
            R.check("WITNESS", w["name"], w["ok"], construct="compile-fail witness / compiling twin",
                    where="witness/src/lib.rs", detail=w["detail"])
        R.floor("WITNESS", "witness doc-tests for %s" % prop, len(mine), 2)
        R.extra["witness"] = {"ran": len(res["tests"]), "for_this_property": len(mine),
                              "cmd": "cargo +nightly test --doc --offline (in /verif/witness, path-dependent on the repo)"}
    run.__name__ = "witness_" + prop
    return run


_WIT_CACHE = {}


def run_witnesses(repo):
    if repo in _WIT_CACHE:
        return _WIT_CACHE[repo]
    from factcache import InfraError
    wdir = os.path.join(VERIF, "witness")
    tmp = tempfile.mkdtemp(prefix="fc-witness.")
    try:
        work = os.path.join(tmp, "witness")
        shutil.copytree(wdir, work, ignore=shutil.ignore_patterns("target", "Cargo.lock"))
        # point the path dependency at the repo under analysis
        ct = open(os.path.join(work, "Cargo.toml")).read().replace('path = "/repo"', 'path = "%s"' % repo)
        open(os.path.join(work, "Cargo.toml"), "w").write(ct)
        lock = os.path.join(repo, "Cargo.lock")
        if os.path.exists(lock):
            shutil.copy(lock, os.path.join(work, "Cargo.lock"))
        env = dict(os.environ)
        env["CARGO_TARGET_DIR"] = os.path.join(tmp, "target")
        env["CARGO_NET_OFFLINE"] = "true"
        p = subprocess.run(["cargo", "+nightly", "test", "--doc", "--offline", "--", "--test-threads", "8"],
                           cwd=work, env=env, capture_output=True, text=True)
        out = p.stdout + "\n" + p.stderr
        tests = []
        for line in out.splitlines():
            line = line.strip()
            if line.startswith("test ") and (" ... " in line):
                name, res = line[5:].rsplit(" ... ", 1)
                tests.append({"name": name, "ok": res.startswith("ok"), "detail": res})
        if not tests:
            raise InfraError("witness crate produced no doc-test results:\n" + out[-3000:])
        res = {"tests": tests, "raw_tail": out[-1500:]}
        _WIT_CACHE[repo] = res
        return res
    finally:
        shutil.rmtree(tmp, ignore_errors=True)


def r_exact_size(F, R, cat=None):
    """`ExactSizeIterator::len()` is a provided method that asserts `size_hint()`'s lower and upper
    bound agree.  The provided `Iterator::size_hint` returns `(0, None)`, so a type that implements
    ExactSizeIterator without overriding size_hint (or len) panics on *every* call of len().  For
    each local ExactSizeIterator impl: the type's Iterator impl overrides size_hint (or the
    ExactSizeIterator impl overrides len), and that size_hint is taken from an underlying
    iterator's size_hint / len, not a constant."""
    n = 0
    for im in F.impls:
        if (im.get("trait") or "").split("::")[-1] != "ExactSizeIterator":
            continue
        adt = (im.get("self_ty") or {}).get("adt")
        if not adt or adt not in F.adts or (im.get("span") or {}).get("file", "").startswith("tests"):
            continue
        n += 1
        hints = [b for b in F.bodies.values() if b.self_adt == adt and b.kind == "AssocFn" and
                 ((b.trait == "Iterator" and b.name == "size_hint") or
                  (b.trait == "ExactSizeIterator" and b.name == "len"))]
        where = "%s:%s" % (im["span"]["file"], im["span"]["line"])
        label = "<%s as ExactSizeIterator>" % adt
        if not hints:
            R.check("R-ITER", label, False, construct="ExactSizeIterator impl backed by a size_hint override",
                    where=where,
                    detail="the type inherits Iterator::size_hint = (0, None): ExactSizeIterator::len() asserts "
                           "upper == Some(lower) and panics on every call")
            continue
        for b in hints:
            R.saw(b)
            from core import all_ctxs, fnitem_of_operand
            srcs = []
            for c2 in all_ctxs(F, b):
                for (_, t) in c2.body.calls():
                    srcs.append(callee_tag(t.get("callee")))
                    # a method handed on as a function item (`map_or_else(Iterator::size_hint, ..)`)
                    for a in t.get("args", []):
                        fi = fnitem_of_operand(a)
                        if fi is not None:
                            srcs.append(callee_tag(fi))
            ok = any(tg[1] in ("size_hint", "len") for tg in srcs)
            if not ok:
                # computed from the iterator's own cursor fields (`end - start`, saturating)
                from expr import ret_alts, nobb
                c_ = Ctx(b)
                for alt in ret_alts(c_):
                    alt = nobb(alt)
                    low = alt[2][0] if alt[0] == "agg" and alt[1] == "tuple" and alt[2] else alt
                    places = [nd for nd in walk(low) if nd and nd[0] == "place" and nd[2] == ("arg", 1)]
                    arith = [nd for nd in walk(low) if nd and ((nd[0] == "bin" and nd[1] == "Sub") or
                                                                (nd[0] == "call" and nd[1][1] in ("saturating_sub", "checked_sub", "wrapping_sub")))]
                    if places and arith:
                        ok = True
            R.check("R-ITER", label, ok, construct="ExactSizeIterator impl backed by a size_hint override",
                    where=b.where(), detail="size_hint/len derived from %s" % [("%s::%s" % tg) for tg in srcs][:4])
    R.floor("R-ITER", "local ExactSizeIterator impls", n, 3)


def cursor_stepped(c, e, origin):
    """the looked-up position is a field of the iterator that the same body (a) compares strictly
    below another field of self on a dominating branch and (b) advances by exactly one: the
    hand-written form of `range.next()`"""
    from expr import facts_at, tree, lin, nobb
    body = c.body
    if c.parent is not None:
        return False
    (r, p) = origin
    cur = ("place", body.key, r, tuple(p))
    guarded = False
    for f in facts_at(c, e.bb):
        f = tuple(nobb(x) if isinstance(x, tuple) else x for x in f)
        if f[0] == "Lt" and f[1] == cur and f[2][0] == "place" and f[2][2] == ("arg", 1):
            guarded = True
        if f[0] == "Gt" and f[2] == cur and f[1][0] == "place" and f[1][2] == ("arg", 1):
            guarded = True
    if not guarded:
        return False
    steps = 0
    for bi in body.live_blocks():
        for si, st in enumerate(body.blocks[bi]["stmts"]):
            if st["k"] == "assign" and st["place"]["p"]:
                if any(o == (r, tuple(p)) for o in c.org.place(st["place"])):
                    val = nobb(trees(c, c.org.rvalue(st["rv"], bi, si)))
                    d = lin(val)
                    if d.get(cur) == 1 and d.get(1) == 1 and len(d) == 2:
                        steps += 1
                    else:
                        return False
    return steps == 1


def r_iter_positions(F, R, cat=None):
    """Every method of a read-item iterator (next and any specialisation such as nth, last,
    count ...) obtains the positions it looks up from its underlying range iterator's own
    methods, never from arithmetic on the range's fields."""
    from model import Catalogue
    from core import base_places
    cat = cat or Catalogue(F)
    # iterator types whose next() looks positions up in an index container
    types = set()
    for b in F.methods_of_trait("Iterator", "next"):
        if b.derived or not b.self_adt or not b.self_adt.startswith("impls::"):
            continue
        ctx, effs = cat.effects(b)
        if any(e.tag == ("IndexContainer", "index") for e in effs):
            types.add(b.self_adt)
    n = 0
    for b in F.methods_of_trait("Iterator"):
        if b.self_adt not in types or b.kind != "AssocFn":
            continue
        ctx, effs = cat.effects(b)
        for e in effs:
            if e.tag != ("IndexContainer", "index") or len(e.argorigins) < 2:
                continue
            n += 1
            R.saw(b)
            ok = True
            why = []
            for o in e.argorigins[1]:
                for (c, (r, p)) in base_places(e.ctx, o):
                    if r[0] == "call":
                        tag = callee_tag(c.body.term(r[1]).get("callee"))
                        if tag[0] in ("Iterator", "DoubleEndedIterator") and tag[1] in (
                                "next", "next_back", "nth", "nth_back", "last"):
                            why.append("%s::%s of the range" % tag)
                            continue
                        ok = False
                        why.append("result of %s::%s" % tag)
                    elif r[0] == "arg" and "[]" in p and p[0].startswith("f:"):
                        why.append("an element yielded by iterating self.%s" % p[0][2:])
                    elif r == ("arg", 1) and p and cursor_stepped(c, e, (r, p)):
                        why.append("a cursor field stepped by one under cursor < end (%s)" % c.org.describe((r, p)))
                    else:
                        ok = False
                        why.append("computed from %s" % c.org.describe((r, p)))
            R.check("R-ITER", b.label(), ok, construct="looked-up position comes from the range iterator",
                    where=e.where(), detail="; ".join(sorted(set(why))))
    # a method that moves the cursor by assigning the range (`self.1 = a..self.1.end`): the range
    # is region-absolute, so the new start continues from the old one (old start + k, possibly
    # capped by the end); a start computed without the old start is item-relative
    from expr import nobb, lin
    for b in F.bodies.values():
        if b.self_adt not in types or b.kind != "AssocFn" or b.in_tests() or b.derived:
            continue
        a = F.adts.get(b.self_adt)
        if not a or not a.get("variants"):
            continue
        rfields = [f["name"] for f in a["variants"][0]["fields"] if "ops::Range<" in f["ty"]["s"]]
        if not rfields:
            continue
        ctx = Ctx(b)
        for bi in sorted(b.live_blocks()):
            for si, st in enumerate(b.blocks[bi]["stmts"]):
                if st["k"] != "assign" or not st["place"]["p"]:
                    continue
                tg = [(r, p) for (r, p) in ctx.org.place(st["place"]) if r == ("arg", 1) and p and p[0][2:] in rfields]
                if not tg:
                    continue
                (r, p) = tg[0]
                old_start = ("place", b.key, ("arg", 1), (p[0], "f:start"))
                val = nobb(trees(ctx, ctx.org.rvalue(st["rv"], bi, si)))
                if len(p) == 1 and val[0] == "agg" and val[1] == "Range::Range" and len(val[2]) == 2:
                    new_start = val[2][0]
                elif len(p) == 2 and p[1] == "f:start":
                    new_start = val
                else:
                    continue
                n += 1
                R.saw(b)
                mentions = any(nd == old_start for nd in walk(new_start))
                if mentions:
                    d = lin(new_start)
                    if d.get(old_start) == 1:
                        R.check("R-ITER", b.label(), True, construct="the cursor continues from its old position",
                                where="%s:%s" % (b.file, st["line"]), detail="new start %s" % show(new_start)[:80])
                    else:
                        R.undecided_site("R-ITER", b.label(), "cursor reassigned to %s" % show(new_start)[:80])
                else:
                    R.check("R-ITER", b.label(), False, construct="the cursor continues from its old position",
                            where="%s:%s" % (b.file, st["line"]),
                            detail="the range's start is set to %s, which does not contain the old start: the range is "
                                   "absolute in the region, so the cursor jumps to another item's elements unless the "
                                   "item is the region's first" % show(new_start)[:80])
    R.floor("R-ITER", "position lookups in read-item iterators", n, 1)


# ---------------------------------------------------------------------------------------------
# mutant self-test (thorough tier): the property's rules must fire on each stored one-hunk breakage


def mutant_selftest(R, repo, prop):
    import concurrent.futures as cf
    import glob
    import re
    mdir = os.path.join(VERIF, "mutants")
    sdir = os.path.join(VERIF, "seeded")
    items = []
    for f in sorted(glob.glob(os.path.join(mdir, "*.patch"))):
        toks = {"C" + x for x in re.findall(r"c(\d\d)", os.path.basename(f).split("_", 1)[1])}
        if prop in toks:
            items.append((os.path.basename(f), f))
    for d in sorted(glob.glob(os.path.join(sdir, "*"))):
        meta = os.path.join(d, "meta.json")
        if os.path.exists(meta):
            m = json.load(open(meta))
            if prop in (m.get("expected_checks") or [m.get("property")]):
                items.append(("seeded/" + os.path.basename(d), os.path.join(d, "patch.diff")))

    def one(item):
        name, patch = item
        tmp = tempfile.mkdtemp(prefix="fc-mut.")
        try:
            work = os.path.join(tmp, "repo")
            shutil.copytree(repo, work, ignore=shutil.ignore_patterns("target", ".git"))
            p = subprocess.run(["patch", "-p1", "-s", "-i", patch], cwd=work, capture_output=True, text=True)
            if p.returncode != 0:
                return (name, "skipped (patch does not apply to the current tree)")
            c = subprocess.run([os.path.join(VERIF, "check"), prop, "--repo", work, "--no-evidence", "--tier", "quick"],
                               capture_output=True, text=True)
            return (name, "flagged" if c.returncode == 1 else "NOT flagged (exit %d)" % c.returncode)
        finally:
            shutil.rmtree(tmp, ignore_errors=True)

    results = []
    with cf.ThreadPoolExecutor(max_workers=6) as ex:
        for r in ex.map(one, items):
            results.append(r)
    applied = [r for r in results if not r[1].startswith("skipped")]
    flagged = [r for r in applied if r[1] == "flagged"]
    R.extra["mutant_selftest"] = {
        "mutants_for_this_property": len(items), "applied": len(applied), "flagged": len(flagged),
        "not_flagged": [r[0] for r in applied if r[1] != "flagged"],
        "skipped": [r[0] for r in results if r[1].startswith("skipped")],
        "note": "sensitivity evidence only: results never change the exit status of the check",
    }
