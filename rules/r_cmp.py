"""C15: R-CMP — comparison impls of read items delegate to the matching comparator family with
self/other in order."""
from core import Ctx, callee_tag, base_places
from expr import trees, tree, show, operand_tree
from r_index import places_in

FAMILY = {
    "eq": {("Iterator", "eq"), ("PartialEq", "eq")},
    "ne": {("Iterator", "ne"), ("PartialEq", "ne")},
    "partial_cmp": {("Iterator", "partial_cmp"), ("PartialOrd", "partial_cmp")},
    "cmp": {("Iterator", "cmp"), ("Ord", "cmp"), ("Iterator", "partial_cmp"),
            ("PartialOrd", "partial_cmp")},
    # overridden operator methods: each must use its own operator (or derive it from partial_cmp)
    "lt": {("Iterator", "lt"), ("PartialOrd", "lt")},
    "le": {("Iterator", "le"), ("PartialOrd", "le")},
    "gt": {("Iterator", "gt"), ("PartialOrd", "gt")},
    "ge": {("Iterator", "ge"), ("PartialOrd", "ge")},
}
ALL_CMP = set().union(*FAMILY.values())
BAD_ADAPTORS = {"skip", "rev", "take", "step_by", "skip_while", "take_while", "filter", "nth",
                "reverse", "then", "then_with", "not"}
TYPES = ("impls::slice::ReadSlice", "impls::huffman_container::wrapper::Wrapped",
         "impls::columns::ReadColumns")


def calls_in(t, out=None):
    out = out if out is not None else []
    if isinstance(t, tuple):
        if t and t[0] == "call":
            out.append(t)
        for x in t:
            if isinstance(x, tuple):
                calls_in(x, out)
    return out


def roots_of(t):
    return {p[2] for p in places_in(t)}


def r_cmp(F, R):
    n = 0
    for b in F.bodies.values():
        if b.kind != "AssocFn" or b.derived or b.in_tests():
            continue
        if b.trait not in ("PartialEq", "PartialOrd", "Ord") or b.self_adt not in TYPES:
            continue
        if b.name not in FAMILY:
            continue
        n += 1
        R.saw(b)
        ctx = Ctx(b)
        comps = []
        for (bi, t) in b.calls():
            tag = callee_tag(t.get("callee"))
            if tag in ALL_CMP:
                comps.append((bi, t, tag))
        if not comps:
            R.undecided_site("R-CMP", b.label(), "hand-written comparison without a comparator call: not decided")
            continue
        R.check("R-CMP", b.label(), True, construct="delegates to a comparator",
                where=b.where(), detail="%d comparator calls" % len(comps), nontrivial=False)
        names = set()
        element_level = False
        for (bi, t, tag) in comps:
            where = "%s:%s" % (b.file, t["line"])
            fam_ok = tag in FAMILY[b.name]
            a0 = operand_tree(ctx, t["args"][0])
            a1 = operand_tree(ctx, t["args"][1])
            r0 = roots_of(a0)
            r1 = roots_of(a1)
            if not (r0 | r1) & {("arg", 1), ("arg", 2)}:
                # compares intermediate results (an Ordering with a constant, two lengths already
                # taken): not a comparison of the two values' contents
                continue
            order_ok = r0 == {("arg", 1)} and r1 == {("arg", 2)}
            if b.name in ("eq", "ne") and r0 == {("arg", 2)} and r1 == {("arg", 1)}:
                order_ok = True  # equality is symmetric: either order describes the same relation
            ad = [c[1][1] for c in calls_in(a0) + calls_in(a1) if c[1][1] in BAD_ADAPTORS]
            if any(c[1] == ("Iterator", "next") for c in calls_in(a0) + calls_in(a1)):
                # compares two *elements* pulled from the operands' iterators: a hand-written
                # lock-step loop.  Family and operand order are still decided here; how the
                # element results are folded into the answer is value-level.
                element_level = True
            names.add(tag[1])
            R.check("R-CMP", b.label(), fam_ok and order_ok and not ad,
                    construct="%s::%s(self-side, other-side)" % tag, where=where,
                    detail="first operand %s from %s, second %s from %s%s" % (
                        show(a0), sorted(r0), show(a1), sorted(r1),
                        "; adaptors %s" % ad if ad else ""))
        R.check("R-CMP", b.label(), len(names) <= 1, construct="all arms use the same comparator",
                where=b.where(), detail="comparators used: %s" % sorted(names), nontrivial=len(comps) > 1)
        if element_level:
            R.undecided_site("R-CMP", b.label(), "hand-written element loop: how the element comparisons are "
                             "folded into the result is not decided (family and operand order are)")
            continue
        # the result is returned unchanged (possibly through unwrap for Ord::cmp)
        comp_blocks = {bi for (bi, _, _) in comps}
        ret_ok = True
        why = []
        from expr import ret_alts as _ret_alts, NONE as _NONE
        direct = [tree(ctx, o) for o in ctx.org.local(0)]
        if any(t_[0] == "call" and t_[1][0] in ("Option", "Result") and any(
                x_[0] == "agg" and str(x_[1]).startswith("closure:") for x_ in t_[2]) for t_ in direct):
            # the arms are closures handed to a combinator (`other.decode().map_or_else(|o| a.eq(o), ..)`):
            # what the function returns is what they return
            direct = [t_ for t_ in _ret_alts(ctx) if t_ != _NONE]
        for t in direct:
            inner = t
            if inner[0] == "call" and inner[1][1] in ("unwrap", "expect") and b.name == "cmp":
                inner = inner[2][0]
            if inner[0] == "call" and inner[1] in ALL_CMP:
                why.append(show(inner)[:60])
            else:
                ret_ok = False
                why.append("returns " + show(t)[:80])
        R.check("R-CMP", b.label(), ret_ok, construct="comparator result returned unchanged",
                where=b.where(), detail="; ".join(why))
    R.floor("R-CMP", "hand-written comparison impls of read items", n, 6)
