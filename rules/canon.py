"""Field-name canonicalisation.

Many rules name a field of one of the crate's types (`FlatStack.region`, `StrideIter.index`,
`Decoder.pending_bits`, ...).  Renaming a private field is behaviour-preserving, so the rules must
not depend on the spelling.  Before any analysis the *role* of each such field is discovered from
what cannot be renamed away -- its type, or the traits whose methods are called on it -- and the
facts are rewritten so that the field carries the name the rules know (the name on the pinned
tree).  On a tree that uses the pinned names this is the identity.  Discovery that is ambiguous
or finds nothing leaves the names alone (the rules' own floors then report a lost anchor).

Types that derive Serialize/Deserialize are left alone on purpose: their field names are part of
the serialised form, so renaming them is not behaviour-preserving, and R-SERDE compares the names
in the derive output with the declaration."""

REGIONISH = {"Region", "Push", "ReserveItems"}
INDEXISH = {"IndexContainer", "Storage", "PushStorage"}

# adt -> [(canonical name, selector)]; selectors are tried in order, each must pick exactly one
# of the not-yet-assigned fields.  ("ty", substr) type string contains; ("tyeq", s) equals;
# ("kind", k) type kind; ("calls", traits) some method of the adt calls a method of one of these
# traits on the field; ("rest",) the single remaining field
ROLES = {
    "FlatStack": [("region", ("calls", REGIONISH)), ("indices", ("calls", INDEXISH))],
    "Iter": [("region", ("typrefix", "&")), ("inner", ("rest",))],
    "impls::slice::ReadSliceInner": [("region", ("ty", "SliceRegion")), ("end", ("minuend",)), ("start", ("rest",))],
    "impls::columns::ReadColumnsInner": [("index", ("ty", "::Index")), ("columns", ("rest",))],
    "impls::index::StrideIter": [("strided", ("ty", "Stride")), ("index", ("tyeq", "usize"))],
    "impls::huffman_container::HuffmanContainer": [("inner", ("ty", "Result<")), ("stats", ("ty", "BTreeMap"))],
    "impls::huffman_container::huffman::Huffman": [("encode", ("ty", "BTreeMap")), ("decode", ("ty", "Decode<"))],
    "impls::huffman_container::huffman::encoder::Encoder": [
        ("encode", ("ty", "BTreeMap")), ("symbols", ("kind", "param")),
        ("pending_byte", ("tyeq", "u64")), ("pending_bits", ("tyeq", "usize"))],
    "impls::huffman_container::huffman::decoder::Decoder": [
        ("decode", ("ty", "Decode<")), ("bytes", ("kind", "param")),
        ("pending_byte", ("tyeq", "u16")), ("pending_bits", ("tyeq", "usize"))],
    "impls::codec::dictionary::DictionaryCodec": [
        ("encode", ("ty", "BTreeMap")), ("decode", ("ty", "BytesMap")), ("stats", ("ty", "MisraGries"))],
    "impls::codec::CodecRegion": [("codec", ("calls", {"Codec"})), ("inner", ("calls", REGIONISH))],
    "impls::huffman_container::encoded::BitIterator": [("bytes", ("typrefix", "&")), ("bit_range", ("rest",))],
}


def _serde_derived(d, adt_path):
    for im in d["impls"]:
        st = im.get("self_ty") or {}
        if st.get("adt") == adt_path and (im.get("trait") or "").split("::")[-1] in ("Serialize", "Deserialize"):
            return True
    return False


def _field_calls(d, adt_path):
    """field name -> set of trait names whose methods are called with `&[mut] self.field` as the
    receiver in some method of the adt"""
    out = {}
    for b in d["bodies"]:
        ow = b.get("owner") or {}
        st = ow.get("impl_self") or {}
        if st.get("adt") != adt_path:
            continue
        refs = {}
        for blk in b["blocks"]:
            for s in blk["stmts"]:
                if s["k"] == "assign" and s["rv"]["k"] == "ref" and not s["place"]["p"]:
                    pl = s["rv"]["place"]
                    fields = [e for e in pl["p"] if e["k"] == "field" and e.get("adt") == adt_path]
                    if pl["l"] == 1 and len(fields) == 1 and pl["p"] and pl["p"][-1] is fields[0]:
                        refs[s["place"]["l"]] = fields[0]["name"]
        for blk in b["blocks"]:
            t = blk["term"]
            if t["k"] != "call" or not t["args"]:
                continue
            a0 = t["args"][0]
            if a0["k"] in ("move", "copy") and not a0["place"]["p"] and a0["place"]["l"] in refs:
                ce = t.get("callee") or {}
                tr = (ce.get("trait") or "").split("::")[-1]
                if tr:
                    out.setdefault(refs[a0["place"]["l"]], set()).add(tr)
    return out


def _minuend_field(d, adt_path, candidates):
    """among `candidates`, the field that is the left operand of `self.a - self.b` in a method of
    the adt (the end of a start..end pair)"""
    hits = set()
    for b in d["bodies"]:
        ow = b.get("owner") or {}
        st = ow.get("impl_self") or {}
        if st.get("adt") != adt_path:
            continue
        copies = {}
        for blk in b["blocks"]:
            for s in blk["stmts"]:
                if s["k"] == "assign" and s["rv"]["k"] == "use" and s["rv"]["op"]["k"] in ("copy", "move") and \
                        not s["place"]["p"]:
                    pl = s["rv"]["op"]["place"]
                    fields = [e for e in pl["p"] if e["k"] == "field" and e.get("adt") == adt_path]
                    if pl["l"] == 1 and len(fields) == 1:
                        copies[s["place"]["l"]] = fields[0]["name"]
        for blk in b["blocks"]:
            for s in blk["stmts"]:
                if s["k"] == "assign" and s["rv"]["k"] == "binop" and s["rv"]["op"].startswith("Sub"):
                    a, c = s["rv"]["a"], s["rv"]["b"]
                    if a["k"] in ("copy", "move") and c["k"] in ("copy", "move"):
                        fa = copies.get(a["place"]["l"]) if not a["place"]["p"] else None
                        fc = copies.get(c["place"]["l"]) if not c["place"]["p"] else None
                        if fa in candidates and fc in candidates and fa != fc:
                            hits.add(fa)
    return hits.pop() if len(hits) == 1 else None


def discover(d):
    """{adt: {actual field name: canonical name}} for the fields that have to be renamed"""
    adts = {a["path"]: a for a in d["adts"]}
    out = {}
    for adt_path, roles in ROLES.items():
        a = adts.get(adt_path)
        if not a or a.get("kind") != "struct" or not a["variants"]:
            continue
        if _serde_derived(d, adt_path):
            continue
        fields = a["variants"][0]["fields"]
        names = [f["name"] for f in fields]
        if all(r in names for (r, _) in roles):
            continue  # pinned names present: nothing to do
        calls = None
        left = list(fields)
        mapping = {}
        ok = True
        for (canon, sel) in roles:
            cands = []
            if sel[0] == "ty":
                cands = [f for f in left if sel[1] in f["ty"]["s"]]
            elif sel[0] == "tyeq":
                cands = [f for f in left if f["ty"]["s"] == sel[1]]
            elif sel[0] == "typrefix":
                cands = [f for f in left if f["ty"]["s"].startswith(sel[1])]
            elif sel[0] == "kind":
                cands = [f for f in left if f["ty"].get("k") == sel[1]]
            elif sel[0] == "calls":
                if calls is None:
                    calls = _field_calls(d, adt_path)
                cands = [f for f in left if calls.get(f["name"], set()) & sel[1]]
            elif sel[0] == "minuend":
                us = [f["name"] for f in left if f["ty"]["s"] == "usize"]
                m = _minuend_field(d, adt_path, set(us))
                cands = [f for f in left if f["name"] == m]
            elif sel[0] == "rest":
                cands = list(left) if len(left) == 1 else []
            if len(cands) != 1:
                ok = False
                break
            mapping[cands[0]["name"]] = canon
            left.remove(cands[0])
        if not ok:
            continue
        mapping = {k: v for k, v in mapping.items() if k != v}
        # never create a clash with a field that keeps its name
        keep = {f["name"] for f in fields if f["name"] not in mapping}
        if mapping and not (set(mapping.values()) & keep):
            out[adt_path] = mapping
    return out


def apply(d):
    """rewrite the raw facts in place; returns the mapping that was applied"""
    m = discover(d)
    if not m:
        return m
    for a in d["adts"]:
        mp = m.get(a["path"])
        if mp:
            for v in a["variants"]:
                for f in v["fields"]:
                    f["name"] = mp.get(f["name"], f["name"])

    def fix_place(pl):
        for e in pl["p"]:
            if e["k"] == "field" and e.get("adt") in m and e.get("name") in m[e["adt"]]:
                e["name"] = m[e["adt"]][e["name"]]

    def fix_operand(op):
        if isinstance(op, dict) and op.get("k") in ("copy", "move"):
            fix_place(op["place"])

    for b in d["bodies"]:
        for blk in b["blocks"]:
            for s in blk["stmts"]:
                if "place" in s:
                    fix_place(s["place"])
                if s["k"] == "assign":
                    rv = s["rv"]
                    if "place" in rv:
                        fix_place(rv["place"])
                    for key in ("op", "a", "b"):
                        if key in rv:
                            fix_operand(rv[key])
                    for o in rv.get("ops", []) if isinstance(rv.get("ops"), list) else []:
                        fix_operand(o)
                    if rv.get("k") == "aggregate" and rv.get("adt") in m and isinstance(rv.get("fields"), list):
                        rv["fields"] = [m[rv["adt"]].get(x, x) for x in rv["fields"]]
            t = blk["term"]
            for key in ("discr", "cond", "func", "a", "b", "len", "index"):
                if key in t:
                    fix_operand(t[key])
            for key in ("place", "dest"):
                if key in t and isinstance(t[key], dict):
                    fix_place(t[key])
            for a in t.get("args", []) or []:
                fix_operand(a)
    return m


# ---------------------------------------------------------------------------------------------
# module-path canonicalisation

def norm_ty(s):
    """a field type with lifetimes and module paths removed (the shape that survives a rename of
    the type's own name and a move between modules)"""
    import re
    s = re.sub(r"'[a-z_]+ ?", "", s)
    s = re.sub(r"\b(?:[A-Za-z_][A-Za-z0-9_]*::)+", "", s)
    return re.sub(r"\s+", "", s)


def adt_shape(a):
    return {"kind": a.get("kind"), "variants": [sorted(norm_ty(f["ty"]["s"]) for f in v["fields"]) for v in a.get("variants", [])]}


def canon_paths(text):
    """Moving a type into a sub-module (`impls::index::Stride` -> `impls::index::stride::Stride`,
    re-exported under its old public path) is behaviour-preserving, but rustc's definition paths --
    which the rules, the evidence and the known-finding keys name -- follow the private module.
    The pinned tree's type paths are listed in pinned_adts.json; a pinned path that is gone while
    exactly one type of the same name exists elsewhere in the crate is taken to be that type, and
    its new path is rewritten to the pinned one throughout the facts.  Returns (facts, mapping)."""
    import json, os, re
    here = os.path.dirname(os.path.abspath(__file__))
    d = json.loads(text)
    try:
        pinned = json.load(open(os.path.join(here, "pinned_adts.json")))
    except (OSError, ValueError):
        return d, {}
    present = [a["path"] for a in d["adts"]]
    present_set = set(present)
    pinned_set = set(pinned)
    by_name = {}
    for q in present:
        if "<" in q or "_::" in q or "::tests::" in q:
            continue
        by_name.setdefault(q.split("::")[-1], []).append(q)
    mapping = {}
    for P in pinned:
        if P in present_set:
            continue
        cands = [q for q in by_name.get(P.split("::")[-1], []) if q not in pinned_set]
        if len(cands) == 1:
            mapping[cands[0]] = P
    # a private type that was *renamed* (BitIterator -> BitCursor): a pinned path that is still
    # unaccounted for is matched by shape -- same kind, same field types per variant up to
    # lifetimes and module paths -- against the types that are new; only a unique match counts
    try:
        shapes = json.load(open(os.path.join(here, "pinned_adt_shapes.json")))
    except (OSError, ValueError):
        shapes = {}
    by_path = {a["path"]: a for a in d["adts"]}
    taken = set(mapping)
    new_types = [q for q in present if q not in pinned_set and q not in taken and "<" not in q and "_::" not in q
                 and "::tests::" not in q]
    for P in pinned:
        if P in present_set or P in mapping.values() or P not in shapes:
            continue
        if not any(shapes[P]["variants"]) or sum(len(v) for v in shapes[P]["variants"]) < 2:
            continue  # unit / single-field types have no telling shape
        # a field whose type is the renamed type's own sibling (a pinned type that is gone too)
        # is compared with that name wild-carded
        cands = [q for q in new_types if adt_shape(by_path[q]) == shapes[P]]
        if len(cands) == 1 and sum(1 for P2 in pinned if P2 not in present_set and shapes.get(P2) == shapes[P]) == 1:
            mapping[cands[0]] = P
            new_types.remove(cands[0])
    if not mapping:
        return d, {}
    # module prefixes too (inherent impl blocks and free functions of a moved module keep working
    # through callee tags, but labels and keys should read like the pinned ones)
    for q in sorted(mapping, key=len, reverse=True):
        pat = re.compile(re.escape(q) + r"(?![A-Za-z0-9_])")
        text = pat.sub(lambda m_, rep=mapping[q]: rep, text)
    return json.loads(text), mapping
