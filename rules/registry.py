"""property -> rules, with the decided / not-decided clauses that go into the evidence."""
import r_lifecycle as L
import r_string as S
import r_bound as B
import r_append as A
import r_index as I
import r_cmp as CMP
import r_owned as O
import r_serde as SD
import r_alloc as AL
import r_collapse as CO
import r_bracket as BR
import r_forward as FW
import r_flatstack as FS
import r_codec as CD
import r_huffman as HF
import extras as X

TRUSTED = [
    "rustc nightly 1.97 type checker, borrow checker and MIR construction (-Zmir-opt-level=0 -Coverflow-checks=on)",
    "std semantics: Vec::push/extend/append keep existing elements, Vec::clear empties, Vec/slice indexing is bounds-checked, reserve/with_capacity do not change contents, Iterator::eq/cmp are lexicographic",
    "effect-class table of std/crate callees in rules/core.py (Appendix D of DESIGN.md, reviewed against the pinned tree)",
    "trait-method calls are leaves classified by the trait table (assume/guarantee): each impl is checked as its own rule instance",
]


def only(rule, names):
    def f(F, R):
        rule(F, R, only=names)
    f.serde_only = getattr(rule, "serde_only", False)
    f.__name__ = getattr(rule, "__name__", "rule") + "_only"
    return f


def todo(names, traits=L.TODO_TRAITS):
    def f(F, R):
        L.r_todo(F, R, names=names, traits=traits)
    return f


def c19_freeze(F, R):
    A.r_freeze(F, R, cheapest=True)


def c06_peel(F, R):
    A.peel_ok(F, R)


def cmp_zip(F, R):
    O.r_zip_byref(F, R, names=("eq", "ne", "partial_cmp", "cmp", "lt", "le", "gt", "ge"))


CS_ONLY = {"CollapseSequence"}
FS_ONLY = {"FlatStack", "Iter"}
INDEX_ONLY = {"IndexOptimized", "IndexList", "Stride"}
CODEC_ONLY = {"CodecRegion"}
HUFF_ONLY = {"HuffmanContainer"}
DENSE_ONLY = {"ConsecutiveIndexPairs", "ColumnsRegion"}

COMMON_ND = "value-level behaviour (element-for-element equality, arithmetic results, allocator call counts) is not decided by this family"

PROPS = {
    "C01": {
        "rules": [HF.r_bitcopy, BR.r_bracket, BR.r_reader_writer, BR.r_fanout, BR.r_columns, FW.r_forward,
                  todo({"push", "index"}, ("Region", "Push")), X.r_iter_readitems,
                  A.r_freeze, A.r_foreign_writers, A.r_reject_stored, I.r_concat, CD.r_tags, CD.r_bitmap, CD.r_literal_guard, O.r_zip_byref, FW.r_skip_take,
                  L.r_reset, A.r_append, CD.r_stats, FW.r_pushstorage, CD.r_decode_total, O.r_byref_while, CD.r_bytesmap, HF.r_chunk, HF.r_chunk_align, I.r_len_step, O.r_onto, I.r_ovf],
        "explanation": "Static analysis of the un-instantiated MIR of every Push/Region impl: decides the structural necessary conditions of the round trip for all instantiations and paths, not the value equality itself.",
        "decided": [
            "R-OVF also under the round trip: no overflow-checked arithmetic on a pushed value in Stride::push (a push that panics in checked builds stores nothing to read back)",
            "R-ONTO also under the round trip: the owned conversion written by clone_onto overwrites its target on every path (a None item does not leave a stale Some behind)",
            "R-LEN-STEP also under the round trip: a value Stride::push accepts is represented by the state it leaves (a saturated stride does not resume stepping)",
            "R-APPEND (whole-byte copies): no push path copies whole bytes for a range of bits into the encoded buffer without masking the tail",
            "R-CHUNK (alignment): every (chunk, count) pair BitIterator::next returns shifts the byte by 8 - (cursor % 8) - count: the chunk starts at the cursor's offset within the byte (an item that starts and ends inside one byte is not read from the top of the byte)",

            "R-BRACKET: every non-forwarding push of a (start,end)/position-indexed storage returns (len before its appends, len after) resp. len-1-seed, with exactly the appends on that storage in between",
            "R-READER: index() consumes the components push returned, in order, without arithmetic, from the storage push appended to",
            "R-FANOUT: Option/Result/Tuple push route component i to child i to index position i and index() routes back",
            "R-COLUMNS: cell i goes to column i, the row of cell indices goes to the row index, get(i) pairs columns[i] with index[i]",
            "R-FORWARD: non-canonical forms forward the same value",
            "R-ITER: read-item iterators yield start..end / zip(index, columns) in order",
            "R-TODO: no push/index body is unconditionally diverging",
            "index containers a region can be parameterised with keep push order (R-GUARD/R-CONCAT); the dictionary codec's reader and writer tables agree (R-TAGS/R-BITMAP/R-GUARD)",
            "R-RESET / R-APPEND / R-STATS / PushStorage: the round trip also holds for the first push after clear() (every field a push's index is computed from is reset, e.g. the Huffman bit cursor), no push path reorders or replaces stored items (a swap that puts the new item in front), a dictionary hit is recorded like a literal (a successor region otherwise refuses the value), and the storage forms append exactly the item",
            "R-DECODE: the dictionary's decode returns its argument unchanged only for an empty input or a first byte the reader's table has no entry for",
            "R-BYREF: no `by_ref().take_while/map_while/skip_while` on an iterator that is polled again afterwards (the first rejected element is consumed and lost)",
            "R-ZIP / skip-take: read-back and copy paths (clone_onto helpers, region-to-region push) neither drop an element to a by_ref zip nor use the end of a (start, end) pair as a take() count"],
        "not_decided": ["element-for-element equality of values, NaN/ZST/extreme values, panics inside std", "lossy integer narrowing of values that the writer and the reader side both derive from one source (seeded change C01_d2: Huffman encode table narrowed to u32 codes; whether a value fits is value-level)", COMMON_ND],
    },
    "C02": {
        "rules": [BR.r_bracket, HF.r_bitcopy, A.r_append, A.r_freeze, A.r_foreign_writers, A.r_reject_stored, I.r_concat, CO.r_collapse_push, HF.r_chunk, HF.r_chunk_align,
                  only(L.r_reset, INDEX_ONLY | DENSE_ONLY)],
        "thorough": [X.witness("C02")],
        "explanation": "Every body reachable from the write/reserve API (closures and local helpers included) is scanned for destructive, clearing or replacing effects on item storage; the one Vec::pop is justified by R-PEEL; the representation switches are guarded (R-GUARD).",
        "decided": [
            "R-BRACKET also under C02: every push returns the bracket of what it appended (a canonical `(0, 0)` for an empty item breaks the dense offsets a wrapping region rebuilds items from)",
            "R-APPEND (whole-byte copies): no push path leaves foreign bits behind the bit cursor for the next item to be merged onto",
            "R-CHUNK (alignment): every (chunk, count) pair BitIterator::next returns shifts the byte by 8 - (cursor % 8) - count: the chunk starts at the cursor's offset within the byte (an item that starts and ends inside one byte is not read from the top of the byte)",

            "R-APPEND: no destructive/clear/replace effect on item storage in any push/reserve path",
            "R-PEEL: the Huffman partial-byte pop happens only when the cursor is unaligned, the byte is re-presented to the encoder and re-emitted",
            "R-GUARD: IndexList writes smol only while chonk is empty; IndexOptimized writes strided only while nothing spilled",
            "CollapseSequence's collapse path performs no write",
            "R-RESET (offset containers): clear() empties both levels of the offset containers (a level that survives keeps stale offsets in front of the ones issued after the clear)",
            "R-CHUNK: the reader of a bit-packed item never advances past the item's own end bit (bits beyond it belong to later pushes: what an earlier index reads would change when they are written)",
        ],
        "not_decided": ["that Stride's in-place state transition preserves earlier elements (value-level; C05; seeded change C02_f1, a merged Striding/Saturated variant that resumes striding after saturation, is not detected)", "bit arithmetic of the Huffman cursor", COMMON_ND],
    },
    "C03": {
        "rules": [FS.r_pairing, FS.r_delegation, only(L.r_reset, {"FlatStack"} | INDEX_ONLY), only(L.r_clone, FS_ONLY | INDEX_ONLY),
                  B.r_index_failstop, B.r_bound_stride_sites, A.r_freeze, A.r_foreign_writers, I.r_concat, I.r_stride_iter, AL.r_reserve_hint_lower,
                  I.r_len_step, L.r_storage_clear, O.r_byref_while, I.r_accept_exact],
        "thorough": [X.witness("C03")],
        "explanation": "FlatStack's pairing of region indices with the index container and its delegation table are checked on the MIR for every R and S.",
        "decided": [
            "R-OVF (exact acceptance): Stride::push compares the pushed value with the exact next element -- no saturating_* / wrapping_* product or sum in the acceptance test",
            "R-PAIRING: in copy/extend every region.push result flows unchanged into exactly one indices.push on every path; from_iter = with_capacity + extend",
            "R-DELEGATE / R-ITER: len, is_empty, get, iter, into_iter, Iter::next, size_hint delegate with unchanged arguments",
            "R-RESET, R-CLONE for FlatStack, its Iter and the index containers a stack stores its indices in (a hand-written clone/clone_from must copy every field on every path)",
            "R-ITER: every method of the concatenating index iterators other than next (nth/fold/last overrides) consumes the second part only once the first is exhausted",
            "R-BOUND: every IndexContainer::index impl ends in a bounds-checked or strictly guarded access (get(i) is fail-stop)",
            "R-LEN-STEP / R-RESET(Storage) / R-BYREF: the stride the indices are compressed into grows by exactly one position per accepted index; Storage::clear of the plain vector empties it on every path; bulk paths do not lose the element that ends a take_while/map_while",
            "R-RESERVE-ITEMS (size_hint): extend/from_iter reserve from the iterator's lower bound only (the upper bound of a lazily terminated iterator can be usize::MAX: reserving it panics with capacity overflow although the sequence is short)"],
        "not_decided": ["equality of yielded values (C01/C05)", COMMON_ND],
    },
    "C04": {
        "rules": [S.r_unsafe, S.r_strwrite, only(BR.r_bracket, {"OwnedRegion", "ConsecutiveIndexPairs"}),
                  BR.r_reader_writer, CD.r_tags, CD.r_bitmap, CD.r_literal_guard, L.r_clone, A.r_freeze, A.r_foreign_writers, L.r_reserve_only, L.r_reset, X.r_iter_readitems, CD.r_bytesmap, O.r_byref_while],
        "thorough": [X.witness("C04")],
        "explanation": "Program-text property: inventory of unchecked str constructions and of everything that can write StringRegion's byte region, over the type-checked crate.",
        "decided": [
            "R-BYREF: no by_ref().take_while/map_while on an iterator polled again afterwards (an index lost at the stride-to-spill switch shifts every later string of a slice)",
            "R-UNSAFE: the only unchecked str construction in the crate is from_utf8_unchecked(self.inner.index(index)) in StringRegion::index; no cast produces a str",
            "R-STRWRITE: every byte push into StringRegion.inner is str::as_bytes(..) of a string-typed item; the field is private; no method hands out &mut to it; lifecycle methods only reserve/clear/clone it; DictionaryCodec::decode returns its argument or a whole dictionary entry",
            "compile-fail witnesses: pushing byte types into a StringRegion does not type-check",
            "byte offsets are push boundaries: R-BRACKET for OwnedRegion and ConsecutiveIndexPairs, R-READER for every bracket-indexed index(); dictionary reader/writer tables agree (R-TAGS/R-BITMAP/R-GUARD), so a decoded entry is a whole pushed string",
            "R-CLONE: hand-written clone/clone_from of every region and offset container copy every field on every path (a copy with stale offsets would cut a string in the middle of a character)",
            "R-GUARD / R-RESERVE-ONLY: the offset containers behind ConsecutiveIndexPairs keep push order (a re-ordered offset cuts a string inside a character), and reserve paths never replace a codec or storage that already holds strings",
            "R-ITER: the row iterator of a columns region pairs every cell index with its own column, also when stepped from the back (an index applied to another column's bytes cuts a string at a foreign offset)",
            "R-RESET: clear() resets every field of the codec behind a string region (a dictionary whose writer table survives clear stores tag bytes the empty reader table returns verbatim)"],
        "not_decided": ["an off-by-one inside a new Option-returning Stride lookup that index() consults (seeded change C04_p1: R-BOUND / R-CONCAT answer undecided for an inlined Stride helper they have no model for; the corrected twin is controls/R17_stride_get_option)", "that the inner byte region returns exactly the pushed byte range (C01/C02 clauses)", "deserialising foreign data", "capacity limits inside the dictionary's tables (seeded change C04_f2: 16-bit offsets in BytesMap silently drop entries the writer table still uses)"],
    },
    "C05": {
        "rules": [O.r_byref_while, I.r_ovf, I.r_accept_exact, I.r_panic_edges, I.r_nowrite_on_reject, I.r_len_step, A.r_freeze, A.r_foreign_writers, A.r_reject_stored, I.r_concat, I.r_stride_iter,
                  B.r_bound_stride_sites, B.r_index_failstop, only(L.r_reset, {"Stride", "IndexList", "IndexOptimized"}), only(L.r_clone, INDEX_ONLY)],
        "explanation": "Overflow-checked arithmetic is visible in MIR as Assert(Overflow) terminators; taint from pushed values is propagated through the Stride state; the representation order of the two-level containers is checked for agreement between push, index, len, is_empty, iter and clear.",
        "decided": [
            "R-OVF (exact acceptance): Stride::push compares the pushed value with the exact next element -- no saturating_* / wrapping_* product or sum in the acceptance test",
            "R-OVF: no overflow-checked arithmetic on a pushed value in the write path (build-profile independence, no panic), except stride*(count-1) = last accepted element",
            "R-PANIC: the only other panic edges in the write paths are usize->u64 conversions",
            "R-NOWRITE-ON-REJECT: Stride::push writes nothing on a path that returns false",
            "R-LEN-STEP: every state write of Stride::push (whole-state assignment or in-place field update) leaves a state whose Stride::len, evaluated as a linear form per variant, is the dominated source state's len plus one",
            "R-GUARD / R-CONCAT / R-ITER: first/second order agreement of IndexList and IndexOptimized across push, index, len, is_empty, iter, next, clear",
            "R-BOUND: every Stride::index call site is strictly guarded by Stride::len",
            "R-CLONE for the index containers: a hand-written clone/clone_from copies every field on every path"],
        "not_decided": ["that the accepted progression is exactly 0, s, 2s, ... then repeats (value-level)", "iterator specialisations that consume the first part themselves before the second (reported as undecided; seeded change C05_f2 trusts a size_hint lower bound as exact)", COMMON_ND],
    },
    "C06": {
        "rules": [HF.r_bitcopy, HF.r_refusal, HF.r_code_source, HF.r_stats_and_arms, only(BR.r_bracket, HUFF_ONLY), c06_peel,
                  only(L.r_reset, HUFF_ONLY), FW.r_forward, HF.r_shift, HF.r_acc_width, HF.r_weights, HF.r_descent, HF.r_restock, HF.r_tail, HF.r_chunk, HF.r_chunk_align, only(L.r_clone, HUFF_ONLY), O.r_onto],
        "explanation": "Only the structural clauses of the Huffman contract are decided; exact decoding, optimality and alphabet-size behaviour are numeric and stay undecided.",
        "decided": [
            "R-SHIFT (width): the encoder's accumulator is at least 7 bits wider than the longest code the code table's type admits (capped at 57)",
            "R-OPTIMAL (weights): create_from and its helpers never rewrite a stored weight in place as a function of itself (no rescaling / clamping of the statistics before the tree is built)",
            "R-DESCENT (restock): the decoder polls its input inside the table-walk loop, so every round of a multi-level code can restock the bit window",
            "R-APPEND (whole-byte copies): no push path copies whole bytes for a range of bits into the encoded buffer without masking the tail",
            "R-CHUNK (alignment): every (chunk, count) pair BitIterator::next returns shifts the byte by 8 - (cursor % 8) - count: the chunk starts at the cursor's offset within the byte (an item that starts and ends inside one byte is not read from the top of the byte)",

            "R-REFUSE: a symbol without a code reaches only a panicking unwrap, never a substitute code",
            "R-CODE-SOURCE: merge_regions derives the code only from the arguments' summed stats; the container starts with empty stats and buffer",
            "R-HUFF-ARMS: every canonical push counts each symbol once and stores the same symbols in the active representation",
            "R-BRACKET / R-PEEL: bit-range bracketing of push_symbols and the peel/re-emit of the partial byte",
            "R-RESET: default() and clear() fall back to raw storage with empty stats",
            "R-SHIFT: interval analysis of every overflow-checked shift whose amount is local scalar arithmetic (%, const-, min): the amount stays below the operand width",
            "R-DESCENT: in Decoder::next (helpers inlined) every table lookup that can run after a descent into a nested table indexes the descended table variable, never the root table alone",
            "R-CHUNK: every advance of BitIterator's cursor is bounded by the bits that remain in the item (min(.., end - cursor), exactly end - cursor, or a dominating comparison that implies it)",
            "R-TAIL: every panic of Decoder::next is dominated by a still-valid test that undecoded bits remain (an item whose input is used up ends the iteration in every arm of the end-of-input match; found the >= 512-symbol / empty-alphabet decode panic, fixed in /repo)",
            "R-ONTO: clone_onto of a read item overwrites its target on every path and forces its length (an encoded item decoded onto a longer buffer must not keep the buffer's tail)",
            "R-CLONE for HuffmanContainer: clone_from copies the code, the bytes and the bit cursor (component by component where it takes the encoded state apart)"],
        "not_decided": ["exact decode at every bit alignment (bit arithmetic of Encoder / Decoder and the shift/mask of BitIterator; only the cursor bound of BitIterator is decided, R-CHUNK), code optimality (seeded change C06_g1, a two-queue tree construction that merges the wrong pair, yields a valid but longer prefix code and is not detected), >= 1 bit per symbol (the single-symbol alphabet hangs/panics: observed, not decidable here)", COMMON_ND],
    },
    "C07": {
        "rules": [CD.r_literal_guard, CD.r_emptiness, CD.r_tags, CD.r_bitmap, CD.r_stats,
                  only(L.r_reset, CODEC_ONLY | {"DictionaryCodec"}), only(L.r_fresh, CODEC_ONLY), CD.r_dedup, L.r_reserve_only, CD.r_update_weight, CD.r_decode_total, CD.r_bytesmap, CD.r_stats_order, CD.r_done_lossless, only(A.r_append, CODEC_ONLY | {"DictionaryCodec"})],
        "explanation": "Reader/writer table agreement and guard placement of the dictionary codec are decided on the MIR; selection quality of the heavy hitters is not.",
        "decided": [
            "R-STATS (merge): new_from sums the complete rankings of its sources -- no take / truncate of a source's ranking before the sums",
            "R-STATS (done): what MisraGries::done returns does not depend on the allocation's capacity (new_from calls it on a clone)",
            "R-APPEND for the codec: encode never removes from / rewrites the reader or writer table",
            "R-GUARD: the literal store is reachable only over an edge that saw an empty input or an unassigned first byte in the reader's table",
            "R-BOUND: no positional read of the caller's slice without a non-empty guard",
            "R-TAGS: tags are assigned on the bit-clear edge, both tables are written together with the same bytes and the loop's tag, one table entry per non-exhausted iteration",
            "R-BITMAP: recording and testing the first-byte bitmap use the same word/bit functions",
            "R-STATS: every accepted input (tag hit or literal) enters the heavy-hitter summary and the first-byte bitmap",
            "dictionary hit stores exactly the tag byte; CodecRegion::clear resets the codec; merge_regions builds it via Codec::new_from",
            "R-BYTESMAP: the reader table answers Some only for a non-empty range (an empty range is how an unassigned slot is stored)",
            "R-STATS (ranking): both sorts of the heavy-hitter summary rank the heaviest first (tidy truncates the tail, new_from assigns tags in that order)",
            "R-DECODE: decode returns its argument unchanged only where an empty input or an unassigned first byte was established (a fast path that skips the reader's table for some assigned tags returns the tag byte instead of the entry)",
            "R-RESERVE-ONLY: reserve paths never train, replace or reset the codec (a codec swapped in by reserve_regions re-interprets the bytes already stored and refuses inputs the untrained region accepts)",
            "R-WEIGHT: every path of the heavy-hitter summary's update that changes a weight adds the caller's count (a fast path that adds a constant under-counts run-length updates)",
            "R-DEDUP: a Vec::dedup_by closure that merges duplicates writes into the element dedup_by keeps (its second parameter); zero instances on the pinned tree, exercised by seeded change C07_c1",
        ],
        "not_decided": ["heavy-hitter selection quality, Misra-Gries arithmetic (seeded change C07_e2, a merged summary seeded from a clone of the first source whose capacity is too small, is not detected)", COMMON_ND],
    },
    "C08": {
        "rules": [L.r_reset, L.r_seed, todo({"clear"}), L.r_storage_clear],
        "explanation": "clear() of every catalogued type must reset every field to what default() constructs, on every path, and re-seed like default().",
        "decided": ["R-RESET: every field cleared or reset to default()'s abstract value on every path", "R-SEED: post-reset seeding equals default()'s", "R-TODO",
                    "R-RESET(Storage): Storage::clear implemented for a std container empties it on every path (clear, truncate(0) or drain(..); a branch that only truncates to a non-zero length keeps elements)"],
        "not_decided": ["that Vec::clear empties (trusted std)", "that retained empty columns of ColumnsRegion are unobservable (argued in DESIGN.md)"],
    },
    "C09": {
        "rules": [L.r_clone],
        "explanation": "Hand-written Clone impls must copy every field from the same-named field; clone_from must update every field on every path.",
        "decided": ["R-CLONE for every hand-written clone/clone_from (all tuple arities)"],
        "not_decided": ["that Vec::clone_from equals clone (trusted std)"],
    },
    "C10": {
        "rules": [L.r_reserve_only, L.r_fresh, L.r_seed,
                  todo({"reserve_items", "reserve_regions", "merge_regions", "reserve", "with_capacity"}),
                  CD.r_tags, CD.r_bitmap, HF.r_code_source, CD.r_stats, c06_peel, HF.r_stats_and_arms, L.r_merge_sources_may_be_empty, CD.r_bytesmap, HF.r_tail, CD.r_literal_guard, HF.r_refusal, L.r_merge_sources_polled, L.r_clone],
        "explanation": "Reserve paths may only read/measure/reserve; merged regions are built from empty-sized constructors and seeded like default().",
        "decided": [
            "R-COVER (sources): merge_regions / merge_capacity / reserve_regions hand on no source iterator that was polled beforehand (the first source contributes)",
            "R-CLONE also under C10: a region cloned by clone_from carries every field a later merge consults",
            "R-GUARD (literal) and R-REFUSE also under C10: a merged coded region refuses exactly what its acceptance contract says","R-RESERVE-ONLY", "R-FRESH", "R-SEED", "R-TODO", "for the dictionary-coded region, the merged codec's reader and writer tables agree (R-TAGS/R-BITMAP)",
            "R-FRESH (empty sources): no merge / reserve body looks a source up at `len - k` without a test that it is non-empty (sources may be fresh or cleared regions)",
            "R-HUFF-ARMS: every push form of the Huffman container, in every arm (raw / encoded source into raw / encoded target), counts each stored symbol: the code of the next merge generation is built from these counts alone, so an uncounted symbol has no code there and pushing it panics",
            "R-PEEL: in the encoded state a merged Huffman region is in from its first push, the partial last byte is popped, re-presented and re-emitted together with the new symbols on every path (an early return between the pop and the re-emit loses the tail of the previous item)",
            "R-STATS: every input a merged codec accepts enters the statistics the next merge generation is built from (a dictionary hit that is not recorded lets a successor region assign that leading byte as a tag and refuse inputs the default region accepts)"],
        "not_decided": ["capacity amounts (C17)"],
    },
    "C11": {
        "rules": [CO.r_collapse_push, only(L.r_reset, CS_ONLY), only(L.r_fresh, CS_ONLY), L.r_clone,
                  only(SD.r_serde, CS_ONLY), L.r_reserve_only, CO.r_collapse_remembers, L.r_reset,
                  I.r_concat, I.r_stride_iter, B.r_bound_stride_sites, BR.r_reader_writer],
        "explanation": "The collapse decision and the lifecycle of last_index are path properties of one small function and five lifecycle methods.",
        "decided": [
            "R-READER also under C11: index() of the offsets region reads the two offsets of the item it is asked for (no shortcut that recognises the newest item by its start offset)",
            "R-CONCAT / R-ITER / R-BOUND for the index containers: the repeated indices a collapsing region hands out are read back clamped from a saturated stride, by index() and by iteration","R-COLLAPSE: early return only on the equality-true edge against inner.index(last_index), writes nothing; otherwise one inner.push whose result is remembered and returned",
                    "last_index is None after default/merge_regions/clear, copied by clone/clone_from (R-CLONE for every region it can be nested in), serialised",
                    "R-COLLAPSE (every writer): any method of CollapseSequence that stores an item in the inner region writes last_index on every path from that store to its return (batch hooks and helpers included)",
                    "R-RESERVE-ONLY: reserve paths only measure and reserve; in particular they do not forget the remembered last item (a reserve in the middle of a run of equal items would store the item again)"],
        "not_decided": ["properties of the user's PartialEq (NaN-like values)"],
    },
    "C12": {
        "rules": [only(BR.r_bracket, DENSE_ONLY), only(L.r_seed, DENSE_ONLY), only(L.r_reset, DENSE_ONLY | INDEX_ONLY), L.r_storage_clear,
                  BR.r_reader_writer, BR.r_columns, only(A.r_append, DENSE_ONLY), only(L.r_fresh, DENSE_ONLY),
                  BR.r_bracket, A.r_freeze, A.r_foreign_writers, A.r_reject_stored, I.r_concat, only(L.r_clone, DENSE_ONLY | INDEX_ONLY), O.r_onto, I.r_len_step, X.r_iter_readitems],
        "explanation": "Dense indices follow from one append of the end offset per push, the seeded leading 0 and index(k) = (offsets[k], offsets[k+1]).",
        "decided": [
            "R-CLONE for the offset containers also under C12: clone_from of IndexOptimized / IndexList copies both levels on every path",
            "R-RESET for the offset containers (IndexOptimized / IndexList / Stride, and Storage::clear of std containers), including a `clear` that a trait provides and the impl inherits","R-BRACKET with seed 1 for ConsecutiveIndexPairs", "R-SEED: exactly one leading 0 in default/merge_regions/clear", "R-READER: index(k) reads offsets k and k+1 in order",
                    "R-COLUMNS: ColumnsRegion returns the inner dense index unchanged, creates missing columns first, rows carry exactly their own index slice",
                    "R-APPEND/R-FRESH for the two types: no write or reserve path drops columns or offsets",
            "R-CLONE for the dense-index regions: a copy made by clone/clone_from carries every column and every offset (creation by copying counts as creation)",
            "R-ONTO for the row read item: clone_onto forces the target to the row's own length",
            "R-ITER: iterating a row (from either end) pairs index i with column i",
            "R-LEN-STEP: the stride form the offsets are stored in grows by exactly one position per accepted offset (a transition that grows it by two shifts every offset behind it, so index k no longer brackets the k-th item)"],
        "not_decided": ["that the inner region's ranges are contiguous (its own R-BRACKET instance)"],
    },
    "C13": {
        "rules": [B.r_bound_readitems, B.r_index_failstop, B.r_bound_stride_sites, X.r_iter_readitems,
                  X.r_iter_positions, A.r_freeze, A.r_foreign_writers, X.r_exact_size, I.r_concat, I.r_stride_iter,
                  BR.r_reader_writer, only(L.r_clone, DENSE_ONLY | INDEX_ONLY), only(L.r_reset, DENSE_ONLY), FW.r_skip_take, BR.r_bracket, L.r_reserve_only, BR.r_columns, O.r_byref_while],
        "explanation": "Every positional access into shared storage must be dominated by a strict bound of the position against the item's own extent (the linear form len() returns).",
        "decided": [
            "R-BYREF: no by_ref().take_while/map_while on an iterator polled again afterwards (the element that ends the stride is not dropped from a slice)","R-BOUND for ReadSlice/ReadSliceInner/ReadColumns/ReadColumnsInner/FlatStack get", "len/is_empty agreement", "R-ITER: iteration covers start..end; every iterator method (next and specialisations) takes its positions from the underlying range iterator",
            "R-GUARD: the two-level offset containers that positional reads go through keep push order (the first level is written only while the second is empty), so position i of an item is never another item's element",
            "R-ITER (exact size): every local ExactSizeIterator impl is backed by a size_hint (or len) override taken from the underlying iterator; without one the provided len() panics on every call (found ReadSliceIter / ReadSliceIterInner, fixed in /repo eda620f)",
            "R-CONCAT / R-ITER: len, is_empty and iteration of the index containers behind FlatStack::get agree with index() (is_empty looks at both levels; StrideIter yields strided.index(cursor))",
            "R-RESERVE-ONLY: reserve paths never shrink or replace a storage that holds items (columns dropped by a reserve leave rows whose len() exceeds what iteration and get() can reach)",
            "R-BRACKET: the (start, end) a push returns brackets its own appends in the target (a region-to-region copy that returns the *source's* start exposes the neighbours' elements); R-CLONE for the index containers the extents are stored in (stale offsets left behind by clone_from become the start bound of the next item)",
            "R-READER / R-CLONE / R-RESET for the dense-index regions: index(k) takes the item's extent from the offsets push stored for k, and every field that extent is computed from (cached offsets included) is copied by clone_from and reset by clear"],
        "not_decided": [COMMON_ND],
    },
    "C14": {
        "rules": [HF.r_bitcopy, O.r_onto, O.r_onto_nopanic, O.r_zip_byref, O.r_owned_conversions, O.r_reborrow, FW.r_forward, FW.r_sibling,
                  HF.r_stats_and_arms, BR.r_bracket, CMP.r_cmp, FW.r_skip_take, only(L.r_reset, HUFF_ONLY), X.r_iter_positions, HF.r_descent, HF.r_restock, HF.r_tail],
        "explanation": "clone_onto must overwrite its target on every path (and force its length), reborrow is the identity, borrow_as/into_owned are built from the whole value.",
        "decided": [
            "R-DESCENT / R-TAIL: the decoder behind into_owned / clone_onto / region-to-region copies restocks in every round and refuses only with undecoded bits pending","R-ONTO (every path overwrites the target and forces its length; no access bounded by the target's previous length)", "R-WHOLE", "R-REBORROW",
                    "region-to-region push: Push<ReadItem> impls forward / agree with their canonical siblings (R-FORWARD, R-SIBLING, R-BRACKET, R-HUFF-ARMS)",
            "R-RESET (Huffman) / R-ITER: a cleared Huffman region falls back to raw storage (a region that keeps its code table panics on the first copied item with a new symbol); the read-item iterators' specialised methods (nth, fold, ...) take their positions from the item's own range",
            "R-CMP: the equality through which a copy is compared with its source decodes both sides (no representation-dependent early exit); skip-take as under C01"],
        "not_decided": ["equality of the results", "memoised region-to-region copies (seeded change C14_g1: a memo of already copied items keyed by the target's instead of the source's index; which key identifies equal content is value-level, and a correct memo skips pushes just the same)"],
    },
    "C15": {
        "rules": [CMP.r_cmp, cmp_zip, X.r_iter_readitems],
        "explanation": "Comparison impls must delegate to the matching comparator family with self/other in order in every arm.",
        "decided": ["R-CMP for ReadSlice, ReadColumns and Wrapped: every comparator call is of the impl's own family, takes the self-side first and the other-side second, no skipping/reversing adaptor, result returned unchanged",
                    "R-ITER: the iterators the comparisons walk yield both representations of a slice front to back (a borrowed item walked from the back compares as its reverse)",
                    "R-ZIP: a hand-rolled lock-step comparison does not put a by_ref() iterator that is polled again afterwards on the left of zip (zip takes from its left side before it learns the right side ended)"],
        "not_decided": ["lexicographic semantics of Iterator::cmp (trusted std), user Ord laws",
                        "hand-written element loops without a comparator call, and fast paths that compare the encoded representation instead of the decoded elements (whether two encodings are equal exactly when the values are is value-level; seeded change C15_c3 is not detected)"],
    },
    "C16": {
        "rules": [SD.r_serde_buffered, SD.r_serde, A.r_foreign_writers],
        "thorough": [X.witness("C16")],
        "explanation": "The serde-derive output is ordinary MIR: every field must be handed to the serializer unconditionally and rebuilt from the input without defaults.",
        "decided": [
            "R-SERDE (buffered): no Deserialize path goes through serde's buffered Content tree (untagged / flatten / internally tagged), which cannot hold 128-bit integers and needs a self-describing format","R-SERDE for every type with a derived Serialize",
                    "R-GUARD (foreign writers): code outside a two-level index container's own push (a hand-written deserialisation visitor, a bulk path) that appends to its first level in a loop which also appends to the second level must test that the second level is empty"],
        "not_decided": ["the data format; behaviour of the copy (follows from state equality + determinism)",
                        "hand-written Serialize/Deserialize impls beyond that structural clause (their wire format is value-level; seeded change C16_j1, a hand-written element-wise encoder of IndexOptimized that writes the saturated plateau as stride*count, is not detected)"],
        "assumptions": ["only meaningful in the serde feature configuration"],
    },
    "C17": {
        "rules": [L.r_reserve_only, AL.r_reserve_single_item, AL.r_cover_merge, AL.r_cover_reserve, AL.r_cover_reserve_vec, AL.r_reserve_items_agree, AL.r_reserve_exact_count, AL.r_noalloc, AL.r_reserve_no_truncation, AL.r_reserve_hint_lower, AL.r_reserve_additional, AL.r_reserve_cumulative, AL.r_capacity_uncapped, FW.r_skip_take, A.r_reserve_level, AL.r_reserve_counts_elements],
        "explanation": "Pre-sizing must cover every storage field from the same-named field of the sources; push paths of non-coded regions build no temporaries and never exact-fit.",
        "decided": [
            "R-RESERVE-ONLY also under C17, including reserve bodies a crate trait provides: no reserve path replaces its receiver (an earlier, larger reservation survives)",
            "R-RESERVE-ITEMS (all items): no reserve in reserve_items / reserve_regions is sized from a single element pulled out of the announced items","R-COVER(merge_regions)", "R-COVER(reserve_regions)", "R-RESERVE-ITEMS", "R-NOALLOC / R-AMORTISED",
            "R-RESERVE-ITEMS (additional): no reserve amount contains the receiver's own length",
            "R-RESERVE-ITEMS (un-stepped): an iterator of announced items that was advanced by hand is not handed to a child's reserve afterwards",
            "R-COVER (level): reserve of the u32/u64 list reaches the level the next push writes to",
            "R-RESERVE-ITEMS (elements): a reservation for items that are themselves iterators counts their elements (flat_map / per-item count), not the items",
            "R-COVER (uncapped): with_capacity / reserve / merge entry points pass the requested amount to the allocation call without a min/clamp cap",
            "skip-take: a read item's element stream handed to reserve_items is not cut short by take(len).skip(start) / skip(start).take(end)",
            "R-COVER (cumulative): no reserve path reserves one storage once per source in a loop with that source's size (reserve is relative to the current length: the calls do not add up)"],
        "not_decided": ["the amounts themselves, allocator call counts, the O(log n) bound"],
    },
    "C18": {
        "rules": [L.r_cover_heap, L.r_retain, L.r_retain_noshrink, todo({"heap_size"}), L.r_reset, L.r_reserve_only],
        "explanation": "heap_size must forward the caller's callback to every storage field and report (len-derived, capacity-derived) in that order.",
        "decided": [
            "R-COVER (conditional reports): heap_size calls the caller's callback under no condition on the size being reported",
            "R-COVER (totals): a summarising callback accumulates the size and the capacity of one report into the same total",
            "R-COVER (wrappers): a callback wrapper passes the reported size on unreduced (no subtraction / saturating_sub / min of it)","R-COVER(heap_size)", "R-RETAIN: clear() never replaces a storage whose capacity is reported, and never drops (Vec::clear/truncate/drain/pop/retain) the elements of a collection whose elements report capacity (ColumnsRegion's vector of column regions: push recreates dropped columns empty, so the reported capacity shrinks across clear)", "R-TODO",
            "R-RESET: clear() resets every storage field on every path (an early return that skips the reset keeps pushed payload accounted after clear)",
            "R-RESERVE-ONLY: reserve paths never shrink or replace a storage (a spine shrunk by resize_with drops payload and capacity from the report without a clear)"],
        "not_decided": ["the byte lower bound against a reference model"],
    },
    "C19": {
        "rules": [c19_freeze, X.r_index_types, A.r_noheap_until_spill, only(BR.r_bracket, DENSE_ONLY),
                  only(L.r_seed, DENSE_ONLY), only(L.r_reset, {"FlatStack"} | DENSE_ONLY | INDEX_ONLY), only(L.r_clone, INDEX_ONLY), A.r_spill_unattempted, I.r_concat],
        "explanation": "Cheapest-first order of the representations is a guard property; the zero-heap claim for Stride follows from its field types.",
        "decided": [
            "R-NOHEAP for every constructor: merge_regions (when overridden) gives the spill list no capacity either","R-GUARD: the cheap representation is attempted whenever the expensive one is still empty, and the first spill happens only after that attempt failed",
                    "type inventory: Stride has only usize fields; IndexList stores u32 in S and u64 in L",
                    "R-NOHEAP: the spill list gets no capacity before something spilled", "dense outward indices of ConsecutiveIndexPairs (R-BRACKET/R-SEED) keep FlatStack's own indices strided",
                    "R-GUARD (bulk paths): outside push, no method of a two-level container appends to the costly level unconditionally; R-CONCAT: is_empty looks at both levels (the stride is abandoned for good once anything spilled)",
                    "R-RESET / R-CLONE: clear() resets the region together with the indices (dense indices restart at 0, so a refilled stack stays strided), and clone_from of the index containers copies both levels (a stale wide list left behind keeps every later index at 8 bytes)"],
        "not_decided": ["that Stride::push accepts every strided/saturated sequence (value-level; seeded change C19_e1, which rejects the repeated last element when the next step would overflow, is reported by C05's R-OVF only)"],
    },
    "C20": {
        "rules": [HF.r_bitcopy, FW.r_forward, FW.r_sibling, FW.r_pushstorage, A.r_freeze, A.r_foreign_writers, A.r_reject_stored, FW.r_skip_take, HF.r_stats_and_arms, BR.r_columns, O.r_byref_while, BR.r_bracket],
        "explanation": "Forwarding impls pass the same value on through representation-preserving conversions; canonical impls of one region have the same effect signature; the bulk path of the offset containers (IndexContainer::extend, used by the slice/Vec/array forms) obeys the same representation-switch guards as the element-wise push (used by the read-item form).",
        "decided": [
            "R-APPEND (whole-byte copies): the region-to-region fast paths store no bits past the bit cursor","R-FORWARD", "R-SIBLING", "PushStorage forms are all append-class",
                    "R-GUARD: bulk and element-wise writes of the two-level offset containers append to the first level only while the second is empty (a guard hoisted out of a loop that spills goes stale and is not accepted), and a value the stride rejects is stored in the spill list"],
        "not_decided": ["value equality of the stored bytes"],
    },
}
