"""property -> rules"""
from model import Catalogue
import r_lifecycle as L
import r_string as S
import r_bound as B
import r_append as A
import r_index as I
import r_cmp as CMP
import r_owned as O
import r_serde as SD
import r_alloc as AL
import r_collapse as CO
import r_bracket as BR
import r_forward as FW
import r_flatstack as FS
import r_codec as CD

TRUSTED = [
    "rustc nightly 1.97 type checker, borrow checker and MIR construction (-Zmir-opt-level=0)",
    "std semantics: Vec::push/extend/append keep existing elements, Vec::clear empties, Vec indexing is bounds-checked, reserve/with_capacity do not change contents",
    "effect-class table of std/crate callees in rules/core.py (reviewed against the pinned tree)",
]


def c08_todo(F, R):
    L.r_todo(F, R, names={"clear"})


def c19_freeze(F, R):
    A.r_freeze(F, R, cheapest=True)


def only(rule, names):
    def f(F, R):
        rule(F, R, only=names)
    f.serde_only = getattr(rule, "serde_only", False)
    return f


CS_ONLY = {"CollapseSequence"}

FS_ONLY = {"FlatStack", "Iter"}

CODEC_ONLY = {"CodecRegion"}

PROPS = {
    "C07": {"rules": [CD.r_literal_guard, CD.r_emptiness, CD.r_tags, CD.r_bitmap, only(L.r_reset, CODEC_ONLY), only(L.r_fresh, CODEC_ONLY)], "explanation": "x", "decided": [], "not_decided": []},
    "C03": {"rules": [FS.r_pairing, FS.r_delegation, only(L.r_reset, {"FlatStack"}), only(L.r_clone, FS_ONLY), B.r_index_failstop, B.r_bound_stride_sites], "explanation": "x", "decided": [], "not_decided": []},
    "C20": {"rules": [FW.r_forward, FW.r_sibling, FW.r_pushstorage], "explanation": "x", "decided": [], "not_decided": []},
    "C01": {"rules": [BR.r_bracket, BR.r_reader_writer, BR.r_fanout, BR.r_columns], "explanation": "x", "decided": [], "not_decided": []},
    "C11": {"rules": [CO.r_collapse_push, only(L.r_reset, CS_ONLY), only(L.r_fresh, CS_ONLY), only(L.r_clone, CS_ONLY), only(SD.r_serde, CS_ONLY)], "explanation": "x", "decided": [], "not_decided": []},
    "C17": {"rules": [AL.r_cover_merge, AL.r_cover_reserve, AL.r_reserve_items_agree, AL.r_noalloc], "explanation": "x", "decided": [], "not_decided": []},
    "C16": {"rules": [SD.r_serde], "explanation": "x", "decided": [], "not_decided": []},
    "C14": {"rules": [O.r_onto, O.r_owned_conversions, O.r_reborrow], "explanation": "x", "decided": [], "not_decided": []},
    "C15": {"rules": [CMP.r_cmp], "explanation": "x", "decided": [], "not_decided": []},
    "C05": {"rules": [I.r_ovf, I.r_panic_edges, I.r_nowrite_on_reject, A.r_freeze, I.r_concat, I.r_stride_iter, B.r_bound_stride_sites, B.r_index_failstop], "explanation": "x", "decided": [], "not_decided": []},
    "C02": {"rules": [A.r_append, A.r_freeze], "explanation": "x", "decided": [], "not_decided": []},
    "C19": {"rules": [c19_freeze], "explanation": "x", "decided": [], "not_decided": []},
    "C13": {"rules": [B.r_bound_readitems, B.r_index_failstop, B.r_bound_stride_sites], "explanation": "x", "decided": [], "not_decided": []},
    "C04": {"rules": [S.r_unsafe, S.r_strwrite], "explanation": "x", "decided": [], "not_decided": []},
    "C08": {
        "rules": [L.r_reset, L.r_seed, c08_todo],
        "explanation": "x",
        "decided": [], "not_decided": [],
    },
    "C09": {"rules": [L.r_clone], "explanation": "x", "decided": [], "not_decided": []},
    "C10": {"rules": [L.r_reserve_only, L.r_fresh, L.r_seed, L.r_todo], "explanation": "x", "decided": [], "not_decided": []},
    "C18": {"rules": [L.r_cover_heap], "explanation": "x", "decided": [], "not_decided": []},
}
