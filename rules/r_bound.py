"""C13 / C03 / C05: R-BOUND — positional accessors are fail-stop against the item's own extent."""
from core import Ctx, callee_tag, classify, base_places, short, describe
from expr import (trees, tree, lin, lin_eq, facts_at, show, operand_tree, CMP_OPS)


def norm_len(t):
    """normalise length-like trees to ('len', place-tree)"""
    if t[0] == "call" and t[1][1] == "len" and t[1][0] in ("slice", "Vec", "Storage", "array") and t[2]:
        return ("len", norm_len(t[2][0]))
    if t[0] == "un" and t[1] == "PtrMetadata":
        return ("len", norm_len(t[2]))
    if t[0] == "bin":
        return ("bin", t[1], norm_len(t[2]), norm_len(t[3]))
    if t[0] == "call":
        return ("call", t[1], tuple(norm_len(a) for a in t[2]), t[3], None)
    if t[0] == "phi":
        return ("phi", tuple(norm_len(x) for x in t[1]))
    return t


def nlin(t):
    from expr import nobb
    return lin(nobb(norm_len(t)))


def return_forms(ctx):
    """semantic alternatives of what the function returns, lengths normalised, block ids dropped"""
    from expr import ret_alts, nobb, NONE
    return [nobb(norm_len(t)) for t in ret_alts(ctx) if t != NONE]


def rekey(t, frm, to):
    """replace body key in place nodes so that trees of sibling methods compare equal"""
    if not isinstance(t, tuple):
        return t
    if t and t[0] == "place" and t[1] == frm:
        return ("place", to) + tuple(t[2:])
    return tuple(rekey(x, frm, to) for x in t)


def strict_bound_facts(ctx, bb, param_tree):
    """dominating facts  param < E  at block bb: yields E trees; also non-strict ones flagged"""
    strict = []
    weak = []
    for f in facts_at(ctx, bb):
        if f[0] not in CMP_OPS:
            continue
        op, a, b = f[0], f[1], f[2]
        if op in ("Gt", "Ge"):
            op = {"Gt": "Lt", "Ge": "Le"}[op]
            a, b = b, a
        if op == "Lt" and lin_eq(nlin(a), nlin(param_tree)):
            strict.append(b)
        elif op == "Le" and lin_eq(nlin(a), nlin(param_tree)):
            weak.append(b)
    return strict, weak


def _is_stride_len(t, recv):
    return t[0] == "call" and t[1] == ("Stride", "len") and bool(t[2]) and t[2][0] == recv


_BOUNDED = {}


def len_bounded_fields(F):
    """{(adt, field)}: usize fields of a struct that also holds a Stride (field `S`) for which
    `field <= Stride::len(S)` is an invariant: every constructor sets it to Stride::len of the
    value it stores in S, S is never written afterwards, and every other store to the field
    writes the field minus something (plain or checked subtraction of unsigned terms), or a value
    that a still-valid dominating fact puts at or below the field (or below it).  A back cursor
    `end` of a stride iterator is the instance this is for."""
    key = id(F)
    if key in _BOUNDED:
        return _BOUNDED[key]
    from expr import nobb, lin, lin_sub, fact_still_holds
    out = set()
    for adt, a in F.adts.items():
        if a.get("kind") != "struct" or not a["variants"]:
            continue
        fields = a["variants"][0]["fields"]
        sfs = [f["name"] for f in fields if f["ty"]["s"] == "impls::index::Stride"]
        if len(sfs) != 1:
            continue
        sname = sfs[0]
        names = [f["name"] for f in fields]
        cands = {f["name"] for f in fields if f["ty"]["s"] == "usize"}
        ctor_seen = False
        ctor_bad = set()
        stride_rewritten = [False]
        all_usize = set(cands)
        for b in F.bodies.values():
            if b.in_tests() or b.derived:
                continue
            ctx = None
            for bi in sorted(b.live_blocks()):
                for si, st in enumerate(b.blocks[bi]["stmts"]):
                    if st["k"] != "assign":
                        continue
                    rv = st["rv"]
                    if rv["k"] == "aggregate" and rv.get("agg") == "adt" and rv.get("adt") == adt:
                        ctx = ctx or Ctx(b)
                        ctor_seen = True
                        ops = dict(zip(rv.get("fields") or names, rv["ops"]))
                        sval = nobb(operand_tree(ctx, ops[sname])) if sname in ops else None
                        for fn in list(cands):
                            v = nobb(operand_tree(ctx, ops[fn])) if fn in ops else None
                            if not (v is not None and v[0] == "call" and v[1] == ("Stride", "len") and v[2] and
                                    (v[2][0] == sval or (sval is not None and sval[0] == "place" and v[2][0][0] == "place" and
                                                         v[2][0][2:] == sval[2:]))):
                                cands.discard(fn)
                                ctor_bad.add(fn)
                    elif st["place"]["p"] and b.self_adt == adt:
                        ctx = ctx or Ctx(b)
                        for (r, pth) in ctx.org.place(st["place"]):
                            if r != ("arg", 1) or not pth:
                                continue
                            if pth[0] == "f:" + sname:
                                cands.clear()  # the stride is replaced after construction
                                stride_rewritten[0] = True
                            fn = pth[0][2:]
                            if fn not in cands or len(pth) != 1:
                                continue
                            cur = ("place", b.key, ("arg", 1), ("f:" + fn,))
                            val = nobb(trees(ctx, ctx.org.rvalue(rv, bi, si)))
                            d = lin_sub(lin(val), lin(cur))
                            nonincr = all(v <= 0 for v in d.values())
                            if not nonincr:
                                # a value a fresh dominating fact puts at or below the field
                                okf = False
                                for f in facts_at(ctx, bi):
                                    if f[0] not in ("Lt", "Le", "Gt", "Ge") or not fact_still_holds(ctx, f, bi, ignore=st):
                                        continue
                                    op, x, y = f[0], nobb(f[1]), nobb(f[2])
                                    if op in ("Gt", "Ge"):
                                        x, y = y, x
                                    if y == cur and not lin_sub(lin(x), lin(val)):
                                        okf = True
                                if not okf:
                                    cands.discard(fn)
        ctor_cands = all_usize - ctor_bad if not stride_rewritten[0] else set()
        if ctor_seen:
            for fn in cands:
                out.add((adt, fn, sname))
            for fn in ctor_cands - cands:
                out.add((adt, fn, sname, "unproven"))
    _BOUNDED[key] = out
    if len(_BOUNDED) > 4:
        _BOUNDED.pop(next(iter(_BOUNDED)))
    return out


def _bounded_by_len(F, ctx, t, recv):
    """tree t is Stride::len(recv) or a field of the same value as recv that is invariantly <= it"""
    if _is_stride_len(t, recv):
        return True
    if F is None or t[0] != "place" or recv[0] != "place" or t[1:3] != recv[1:3] or not t[3] or not recv[3]:
        return False
    if tuple(t[3][:-1]) != tuple(recv[3][:-1]):
        return False
    for ent in len_bounded_fields(F):
        if len(ent) == 3 and t[3][-1] == "f:" + ent[1] and recv[3][-1] == "f:" + ent[2]:
            return True
    return False


def _unproven_bound(F, t, recv):
    """t is a field that every constructor sets to Stride::len of the stride stored next to it,
    but whose later stores this rule cannot show to keep it at or below that length (they rely on
    a relation between two cursors)"""
    if F is None or t[0] != "place" or recv[0] != "place" or t[1:3] != recv[1:3] or not t[3] or not recv[3]:
        return False
    for ent in len_bounded_fields(F):
        if len(ent) == 4 and t[3][-1] == "f:" + ent[1] and recv[3][-1] == "f:" + ent[2]:
            return True
    return False


def stride_pos_in_range(ctx, bb, pos, recv, strict, F=None):
    """the position handed to Stride::index is below Stride::len(recv) at block bb:
    (a) a dominating strict comparison pos < len(recv); or
    (c) the position is yielded by the half-open range a..len(recv); or
    (b) the stride is known to be non-empty there (some x < len(recv), len(recv) != 0 / > 0 / >= 1,
        or !is_empty(recv)) and pos is the constant 0 or exactly len(recv) - 1 (plain subtraction)."""
    from expr import nobb, lin, lin_sub, fact_still_holds
    if any(_is_stride_len(s, recv) for s in strict):
        return True
    # (a') pos < F for a field F that is invariantly <= len(recv) (a back cursor), the fact being fresh
    if F is not None:
        for f in facts_at(ctx, bb):
            if f[0] not in ("Lt", "Gt"):
                continue
            a, b_ = (f[1], f[2]) if f[0] == "Lt" else (f[2], f[1])
            if lin_eq(nlin(a), nlin(pos)) and _bounded_by_len(F, ctx, nobb(b_), nobb(recv)) and fact_still_holds(ctx, f, bb):
                return True
        # (d) pos is such a field right after it was stepped down: a dominating store writes the
        #     field minus at least one, under a fact that kept it above some unsigned value
        npos, nrecv = nobb(pos), nobb(recv)
        if npos[0] == "place" and _bounded_by_len(F, ctx, npos, nrecv) and not _is_stride_len(npos, nrecv):
            body = ctx.body
            stores = []
            for bi in body.live_blocks():
                for si, st in enumerate(body.blocks[bi]["stmts"]):
                    if st["k"] == "assign" and st["place"]["p"] and any(
                            r == npos[2] and tuple(pth) == tuple(npos[3]) for (r, pth) in ctx.org.place(st["place"])):
                        stores.append((bi, si, st))
            doms = [(bi, si, st) for (bi, si, st) in stores if bi == bb or body.dominates(bi, bb)]
            others = [x for x in stores if x not in doms and bb in reach_strict(body, x[0])]
            if len(doms) == 1 and not others:
                (bi, si, st) = doms[0]
                val = nobb(trees(ctx, ctx.org.rvalue(st["rv"], bi, si)))
                d = lin_sub(lin(val), lin(npos))
                if all(v <= 0 for v in d.values()) and d.get(1, 0) <= -1:
                    return True
    # (e) the position is the payload of `len(recv).checked_sub(k)` with constant k >= 1: it exists
    #     only when len >= k and is then len - k < len
    t = nobb(pos)
    if t[0] == "call" and t[1][1] == "checked_sub" and len(t[2]) == 2 and tuple(t[3]) == ("v:Some", "f:0") and \
            _is_stride_len(t[2][0], nobb(recv)) and t[2][1][0] == "const" and str(t[2][1][1]).isdigit() and int(t[2][1][1]) >= 1:
        return True
    # (c) the position is an element of the half-open range `a..Stride::len(recv)`
    t = pos
    if t[0] == "call" and t[1] == ("Iterator", "next") and tuple(t[3]) == ("v:Some", "f:0") and t[2]:
        src = t[2][0]
        while src[0] == "call" and src[1][1] in ("into_iter", "by_ref", "iter") and src[2]:
            src = src[2][0]
        if src[0] == "agg" and src[1] == "Range::Range" and len(src[2]) == 2 and \
                (_is_stride_len(src[2][1], recv) or _bounded_by_len(F, ctx, nobb(src[2][1]), nobb(recv))):
            return True
    # (c') the position is the element parameter of a closure that fold / rfold / for_each / map
    #      run over such a range
    if t[0] == "place" and t[1] == ctx.body.key and t[2][0] == "arg" and t[2][1] >= 2 and not t[3] and \
            ctx.parent is not None and ctx.consumer:
        pt = ctx.parent.body.term(ctx.consumer[0])
        if pt["k"] == "call" and callee_tag(pt.get("callee"))[1] in ("fold", "rfold", "for_each", "map", "try_fold", "try_rfold") \
                and pt["args"]:
            last_param = ctx.body.nargs
            if t[2][1] == last_param:
                src = nobb(operand_tree(ctx.parent, pt["args"][0]))
                while src[0] == "call" and src[1][1] in ("into_iter", "by_ref", "iter", "rev") and src[2]:
                    src = src[2][0]
                nrecv = nobb(recv)
                if src[0] == "agg" and src[1] == "Range::Range" and len(src[2]) == 2 and \
                        (_is_stride_len(src[2][1], nrecv) or _bounded_by_len(F, ctx.parent, src[2][1], nrecv)):
                    return True
    nonempty = False
    for f in facts_at(ctx, bb):
        op = f[0]
        if op in CMP_OPS:
            a, b = f[1], f[2]
            if op in ("Gt", "Ge"):
                op = {"Gt": "Lt", "Ge": "Le"}[op]
                a, b = b, a
            if op == "Lt" and _is_stride_len(b, recv):
                nonempty = True  # unsigned x < len
            elif op == "Le" and _is_stride_len(b, recv) and a[0] == "const" and a[1].isdigit() and int(a[1]) >= 1:
                nonempty = True
            elif op == "Ne" and ((_is_stride_len(a, recv) and b == ("const", "0")) or
                                 (_is_stride_len(b, recv) and a == ("const", "0"))):
                nonempty = True
        elif op == "truthy" and f[2] is False:
            t = f[1]
            if t[0] == "call" and t[1] == ("Stride", "is_empty") and t[2] and t[2][0] == recv:
                nonempty = True
    if not nonempty:
        return False
    if pos == ("const", "0"):
        return True
    if pos[0] == "bin" and pos[1] == "Sub" and _is_stride_len(pos[2], recv) and pos[3] == ("const", "1"):
        return True
    return False


def _bounded_minus_one(F, ctx, bb, pos, recv):
    """pos = B - 1 where B is invariantly <= len(recv) and a fresh fact x < B shows B >= 1"""
    from expr import nobb, fact_still_holds
    p = nobb(pos)
    if not (p[0] == "bin" and p[1] == "Sub" and p[3] == ("const", "1") and _bounded_by_len(F, ctx, p[2], nobb(recv))):
        return False
    for f in facts_at(ctx, bb):
        if f[0] in ("Lt", "Gt"):
            b_ = f[2] if f[0] == "Lt" else f[1]
            if nobb(b_) == p[2] and fact_still_holds(ctx, f, bb):
                return True
    return False


def find_methods(F, adt, name):
    return [b for b in F.bodies.values() if b.kind == "AssocFn" and b.self_adt == adt and
            b.name == name and b.trait is None and not b.in_tests()]


def read_item_types(F):
    """ADTs with inherent get(&self, usize) and len(&self): the positional read items"""
    out = []
    for a in F.adts:
        g = find_methods(F, a, "get")
        if g and find_methods(F, a, "len") and g[0].d.get("vis_pub"):
            ret = str(g[0].d.get("sig") or "").rsplit("->", 1)[-1].strip()
            if ret.startswith("Option<") or ret.startswith("std::option::Option<") or ret.startswith("core::option::Option<"):
                continue  # a checked accessor in the style of slice::get: out of range is None, not a read item's fail-stop get
            out.append(a)
    return sorted(out)


NON_FAILSTOP = {("IndexContainer", "index"), ("Stride", "index"), ("IndexList", "index"),
                ("Region", "index")}


def r_bound_readitems(F, R):
    types = read_item_types(F)
    R.floor("R-BOUND", "read-item types with get/len", len(types), 4)
    for adt in types:
        getb = find_methods(F, adt, "get")[0]
        lenb = find_methods(F, adt, "len")[0]
        R.saw(getb)
        R.saw(lenb)
        gctx = Ctx(getb)
        lctx = Ctx(lenb)
        extents = [rekey(t, lenb.key, getb.key) for t in return_forms(lctx)]
        # `self.len()` itself is the extent too (a bound written against the sibling len())
        extents.append(("call", (short(adt), "len"), (("place", getb.key, ("arg", 1), ()),), ()))
        param = ("place", getb.key, ("arg", 2), ())
        nsites, good = analyse_get(F, R, getb, gctx, getb, param, extents)
        ok = nsites > 0 and not getb.can_return_avoiding(good)
        R.check("R-BOUND", getb.label(), ok,
                construct="every returning path passes a strict bound against the item's own extent",
                where=getb.where(),
                detail="%d access sites, %d blocks establish the bound; extent %s" % (
                    nsites, len(good), [show(e) for e in extents]))
        # is_empty agreement: is_empty <=> len == 0
        for eb in find_methods(F, adt, "is_empty"):
            ectx = Ctx(eb)
            R.saw(eb)
            forms = [rekey(t, eb.key, getb.key) for t in return_forms(ectx)]
            ok = all(is_empty_matches(f, extents) for f in forms) and bool(forms)
            R.check("R-BOUND", eb.label(), ok, construct="is_empty agrees with len",
                    where=eb.where(), detail="is_empty = %s; len = %s" % (
                        [show(f) for f in forms], [show(e) for e in extents]))


def analyse_get(F, R, getb, ctx, body, param, extents, depth=0):
    """collects the positional access sites of `body` (a get() or a closure created in it) and
    returns (#sites, blocks of `body` that establish the strict bound)"""
    from core import closure_ctxs
    nsites = 0
    good = set()
    for (bi, t) in body.calls():
        ce = t.get("callee")
        tag = callee_tag(ce)
        args = t["args"]
        if len(args) < 2:
            continue
        pos = norm_len(operand_tree(ctx, args[1]))
        if not mentions(pos, param):
            continue
        recv = trees(ctx, ctx.org.operand(args[0]))
        where = "%s:%s" % (body.file, t["line"])
        if tag[1] == "get" and ce.get("local"):
            nsites += 1
            ok = lin_eq(nlin(pos), nlin(param))
            if ok:
                good.add(bi)
            R.check("R-BOUND", getb.label(), ok, construct="forwards position to %s::get" % tag[0],
                    where=where, detail="position = " + show(pos))
            continue
        unchanged = lin_eq(nlin(pos), nlin(param))
        own = any(extent_is_len_of(e, recv) for e in extents)
        std_get = tag[1] in ("get", "get_mut") and tag[0] in ("slice", "Vec", "array") and not ce.get("local")
        if tag == ("Index", "index") or std_get or (tag == ("IndexContainer", "index") and unchanged and own):
            nsites += 1
            ok = unchanged and own
            if std_get and ok and not get_is_failstop(body, bi):
                # `get(i).or(fallback)`, `unwrap_or(..)`, a None arm that returns something: the
                # checked lookup does not stop an out-of-range position
                ok = False
                R.check("R-BOUND", getb.label(), False, construct="checked get whose None outcome is fail-stop",
                        where=where, detail="the Option returned by get() is not unwrapped / matched with a diverging None arm")
                continue
            if ok:
                good.add(bi)
            if std_get and not ok:
                # a checked lookup in some other container (the column vector of a row): fail-stop
                # on its own, it just does not establish the bound against this item's extent
                continue
            R.check("R-BOUND", getb.label(), ok,
                    construct="container-checked index into %s" % show(recv), where=where,
                    detail="position %s; len() returns %s" % (show(pos), [show(e) for e in extents]))
            continue
        if tag in NON_FAILSTOP and tag != ("Region", "index"):
            nsites += 1
            strict, weak = strict_bound_facts(ctx, bi, param)
            ok = any(any(lin_eq(nlin(s), nlin(e)) for e in extents) for s in strict)
            if ok:
                good.add(bi)
            detail = "guards: strict %s, non-strict %s; extent %s" % (
                [show(s) for s in strict], [show(s) for s in weak], [show(e) for e in extents])
            R.check("R-BOUND", getb.label(), ok,
                    construct="%s::%s at parameter-derived position" % tag, where=where, detail=detail)
    # built-in indexing (bounds-check asserts)
    for bi in sorted(body.live_blocks()):
        t = body.term(bi)
        if t["k"] == "assert" and t.get("msg") == "bounds":
            idx = norm_len(operand_tree(ctx, t["index"]))
            ln = norm_len(operand_tree(ctx, t["len"]))
            if not mentions(idx, param):
                continue
            nsites += 1
            if lin_eq(nlin(idx), nlin(param)) and any(lin_eq(nlin(ln), nlin(e)) for e in extents):
                good.add(bi)
    # closures created here (combinator forms): a consuming call is good when every closure it
    # receives establishes the bound on all of its own paths
    if depth < 3:
        per_call = {}
        for (cctx, cbi, consumers) in closure_ctxs(F, ctx):
            n2, g2 = analyse_get(F, R, getb, cctx, cctx.body, param, extents, depth + 1)
            nsites += n2
            cgood = n2 > 0 and not cctx.body.can_return_avoiding(g2)
            for cb in consumers:
                per_call.setdefault(cb, []).append(cgood)
        for cb, flags in per_call.items():
            if flags and all(flags):
                good.add(cb)
    return nsites, good


def get_is_failstop(body, bi):
    """the Option produced by the checked lookup in block bi stops an out-of-range position: its
    None outcome -- followed through copies, `ok_or`, `?` (Try::branch / from_residual), `as_ref`,
    `copied`, `map` -- is unwrapped/expected, or is branched on with the failing arm unable to reach a
    return of this body.  A substitute value (`or`, `unwrap_or`, ..) or a failing arm that returns
    something makes it not fail-stop."""
    t = body.term(bi)
    # local -> discriminant value of the *failing* variant
    failing = {t["dest"]["l"]: "0"}
    SAME = {"as_ref", "as_mut", "copied", "cloned", "map", "as_deref", "inspect"}
    changed = True
    rounds = 0
    while changed and rounds < 8:
        changed = False
        rounds += 1
        for x in body.live_blocks():
            for st in body.blocks[x]["stmts"]:
                if st["k"] != "assign" or st["place"]["p"]:
                    continue
                rv = st["rv"]
                src = None
                if rv["k"] in ("use", "cast") and rv["op"]["k"] in ("copy", "move") and not rv["op"]["place"]["p"]:
                    src = rv["op"]["place"]["l"]
                elif rv["k"] == "ref" and not rv["place"]["p"]:
                    src = rv["place"]["l"]
                if src in failing and st["place"]["l"] not in failing:
                    failing[st["place"]["l"]] = failing[src]
                    changed = True
            tt = body.term(x)
            if tt["k"] == "call" and tt["args"] and tt["target"] is not None and not tt["dest"]["p"]:
                a0 = tt["args"][0]
                if a0["k"] in ("copy", "move") and not a0["place"]["p"] and a0["place"]["l"] in failing:
                    tg = callee_tag(tt.get("callee"))
                    d = tt["dest"]["l"]
                    if d in failing:
                        continue
                    if tg[1] in ("ok_or", "ok_or_else"):
                        failing[d] = "1"          # Result::Err
                        changed = True
                    elif tg[1] == "branch":
                        failing[d] = "1"          # ControlFlow::Break
                        changed = True
                    elif tg[1] in SAME:
                        failing[d] = failing[a0["place"]["l"]]
                        changed = True
    ok_use = False
    for x in sorted(body.live_blocks()):
        tt = body.term(x)
        if tt["k"] == "call" and tt["args"]:
            a0 = tt["args"][0]
            if a0["k"] in ("copy", "move") and not a0["place"]["p"] and a0["place"]["l"] in failing:
                tg = callee_tag(tt.get("callee"))
                if tg[1] in ("unwrap", "expect", "unwrap_unchecked"):
                    ok_use = True
                elif tg[1] in SAME or tg[1] in ("ok_or", "ok_or_else", "branch", "is_some", "is_none", "is_ok", "is_err"):
                    continue
                else:
                    return False  # or / unwrap_or / unwrap_or_else / ... : a substitute value
        for st in body.blocks[x]["stmts"]:
            if st["k"] == "assign" and st["rv"]["k"] == "discr" and not st["rv"]["place"]["p"] and \
                    st["rv"]["place"]["l"] in failing:
                fv = failing[st["rv"]["place"]["l"]]
                sw = body.term(x)
                if sw["k"] == "switch":
                    tgt = None
                    for (v, tg_) in sw["arms"]:
                        if v == fv:
                            tgt = tg_
                    if tgt is None and all(v != fv for (v, _) in sw["arms"]):
                        tgt = sw["otherwise"]
                    if tgt is not None and not body.can_return_avoiding(set(), frm=tgt):
                        ok_use = True
                    else:
                        return False
    return ok_use


def mentions(t, sub):
    if t == sub:
        return True
    if isinstance(t, tuple):
        return any(mentions(x, sub) for x in t if isinstance(x, tuple))
    return False


def extent_is_len_of(e, recv):
    return e == ("len", norm_len(recv))


def dominates_returns(body, bi):
    rets = body.return_blocks()
    return bool(rets) and all(body.dominates(bi, r) for r in rets)


def is_empty_matches(f, extents):
    """f is the tree of is_empty's result"""
    # (a) a == b where len = b - a  /  a - b
    if f[0] == "bin" and f[1] == "Eq":
        d = lin_sub_safe(nlin(f[2]), nlin(f[3]))
        for e in extents:
            le = nlin(e)
            if d == le or neg(d) == le:
                return True
        return False
    # (b) is_empty(x) where len = len(x)
    if f[0] == "call" and f[1][1] == "is_empty" and f[2]:
        x = f[2][0]
        for e in extents:
            if e == ("len", x):
                return True
            if e[0] == "call" and e[1][1] == "len" and e[2] and e[2][0] == x:
                return True
        return False
    if f[0] == "phi":
        return all(is_empty_matches(x, extents) for x in f[1])
    return False


def lin_sub_safe(a, b):
    out = dict(a)
    for k, v in b.items():
        out[k] = out.get(k, 0) - v
    return {k: v for k, v in out.items() if v != 0}


def neg(d):
    return {k: -v for k, v in d.items()}


# ---------------------------------------------------------------------------------------------
# Stride::index call sites (the accessor is not fail-stop by itself)


def r_bound_stride_sites(F, R):
    from core import all_ctxs
    n = 0
    todo = []
    for tb in F.bodies.values():
        if tb.in_tests() or tb.derived or tb.kind == "Closure":
            continue
        if F.only_inlined(tb):
            continue  # a private helper: its call of Stride::index is judged in each caller
        has = any(callee_tag(t.get("callee")) == ("Stride", "index") for (_, t) in tb.calls()) or any(
            any(callee_tag(t.get("callee")) == ("Stride", "index") for (_, t) in cb.calls())
            for cb in F.closures_of.get(tb.key, []))
        if has:
            todo.extend(all_ctxs(F, tb))
    for ctx in todo:
        b = ctx.body
        for (bi, t) in b.calls():
            tag = callee_tag(t.get("callee"))
            if tag != ("Stride", "index"):
                continue
            n += 1
            R.saw(b)
            recv = trees(ctx, ctx.org.operand(t["args"][0]))
            pos = operand_tree(ctx, t["args"][1])
            strict, weak = strict_bound_facts(ctx, bi, pos)
            ok = stride_pos_in_range(ctx, bi, pos, recv, strict, F) or _bounded_minus_one(F, ctx, bi, pos, recv)
            if not ok:
                from expr import nobb
                from r_bracket import walk as _walk
                nrecv = nobb(recv)
                mention = [nd for x in [pos] + list(strict) for nd in _walk(nobb(x))
                           if nd and nd[0] == "place" and _unproven_bound(F, nd, nrecv)]
                if not mention and ctx.parent is not None and ctx.consumer:
                    pt = ctx.parent.body.term(ctx.consumer[0])
                    if pt["k"] == "call" and pt["args"]:
                        mention = [nd for nd in _walk(nobb(operand_tree(ctx.parent, pt["args"][0])))
                                   if nd and nd[0] == "place" and _unproven_bound(F, nd, nrecv)]
                if mention:
                    R.undecided_site("R-BOUND", b.label(), "position %s is bounded through the cursor field %s, which starts at "
                                     "Stride::len; that every later store keeps it there depends on a relation between two "
                                     "cursors and is not decided" % (show(pos)[:50], show(mention[0])))
                    continue
            R.check("R-BOUND", b.label(), ok, construct="Stride::index guarded by < Stride::len",
                    where="%s:%s" % (b.file, t["line"]),
                    detail="position %s on %s; strict guards %s; non-strict %s" % (
                        show(pos), show(recv), [show(s) for s in strict], [show(s) for s in weak]))
    R.floor("R-BOUND", "Stride::index call sites", n, 2)


# ---------------------------------------------------------------------------------------------
# IndexContainer::index impls end in a fail-stop access on every path


def r_index_failstop(F, R):
    n = 0
    bodies = list(F.methods_of_trait("IndexContainer", "index")) + \
        [b for b in F.bodies.values() if b.trait is None and b.name == "index" and
         b.self_adt in ("impls::index::IndexList",)]
    for b in bodies:
        n += 1
        R.saw(b)
        ctx = Ctx(b)
        param = ("place", b.key, ("arg", 2), ())
        # every return value must come from a fail-stop or guarded access
        sites = []
        for (bi, t) in b.calls():
            tag = callee_tag(t.get("callee"))
            args = t["args"]
            if len(args) < 2:
                continue
            if tag == ("Index", "index"):
                recv = trees(ctx, ctx.org.operand(args[0]))
                ok = recv == ("place", b.key, ("arg", 1), ())
                sites.append((bi, ok, "std-checked index into %s" % show(recv)))
            elif tag[1] == "get" and tag[0] in ("slice", "Vec", "array", "VecDeque"):
                # `self.get(i)` returns None out of range: whatever is returned on the Some edge
                # is a checked element
                recv = trees(ctx, ctx.org.operand(args[0]))
                ok = recv == ("place", b.key, ("arg", 1), ()) and get_is_failstop(b, bi)
                sites.append((bi, ok, "std-checked get on %s (None outcome fail-stop: %s)" % (show(recv), ok)))
            elif tag in (("IndexContainer", "index"), ("IndexList", "index")):
                sites.append((bi, True, "delegates to %s::index (checked as its own instance)" % tag[0]))
            elif tag == ("Stride", "index"):
                recv = trees(ctx, ctx.org.operand(args[0]))
                pos = operand_tree(ctx, args[1])
                strict, weak = strict_bound_facts(ctx, bi, pos)
                ok = stride_pos_in_range(ctx, bi, pos, recv, strict)
                sites.append((bi, ok, "Stride::index under guard %s" % [show(s) for s in strict]))
        good = {bi for (bi, ok, _) in sites if ok}
        # accesses made in closures handed to a combinator (`i.checked_sub(n).map_or_else(|| a.index(i),
        # |j| b.index(j))`): the combinator's block is a fail-stop point when every closure it is
        # given makes a guarded access
        from core import all_ctxs
        per_consumer = {}
        for c in all_ctxs(F, b)[1:]:
            if c.parent is None or c.parent.parent is not None or not c.consumer:
                continue
            csites = []
            for (bi, t) in c.body.calls():
                tag = callee_tag(t.get("callee"))
                args = t["args"]
                if len(args) < 2:
                    continue
                if tag in (("IndexContainer", "index"), ("IndexList", "index")):
                    csites.append((True, "delegates to %s::index (checked as its own instance)" % tag[0]))
                elif tag == ("Index", "index"):
                    recv = trees(c, c.org.operand(args[0]))
                    csites.append((recv == ("place", b.key, ("arg", 1), ()), "std-checked index into %s" % show(recv)))
                elif tag == ("Stride", "index"):
                    recv = trees(c, c.org.operand(args[0]))
                    pos = operand_tree(c, args[1])
                    strict, weak = strict_bound_facts(c, bi, pos)
                    csites.append((stride_pos_in_range(c, bi, pos, recv, strict, F), "Stride::index under guard %s" % [show(s_) for s_ in strict]))
            per_consumer.setdefault(c.consumer[0], []).append(csites)
        for cb, lst in per_consumer.items():
            if lst and all(cs and all(o for (o, _) in cs) for cs in lst):
                good.add(cb)
            for cs in lst:
                for (o, w) in cs:
                    sites.append((cb, o, "in a closure: " + w))
        ok = bool(sites) and all(o for (_, o, _) in sites) and not b.can_return_avoiding(good)
        # an Option-returning lookup the pinned tree does not have (`self.strided.get(i)` with the
        # other level consulted on None): whether its None outcome is exactly "out of range" is the
        # helper's value-level contract -- undecided, not a violation (round 17)
        opaque = [callee_tag(t.get("callee")) for (_, t) in b.calls()
                  if callee_tag(t.get("callee"))[0] in ("Stride",) and
                  callee_tag(t.get("callee"))[1] not in ("index", "len", "push", "clear", "is_empty")]
        opaque += [("inlined", p_.split("::")[-1]) for p_ in b.d.get("inlined", [])
                   if "Stride" in p_ and p_.split("::")[-1] not in ("index", "len")]
        if not ok and opaque:
            R.undecided_site("R-BOUND", b.label(), "index() consults %s, a lookup helper the rule has no model for" %
                             ", ".join("%s::%s" % o for o in opaque))
            continue
        R.check("R-BOUND", b.label(), ok, construct="every path ends in a fail-stop access",
                where=b.where(), detail="; ".join(w for (_, _, w) in sites))
    R.floor("R-BOUND", "IndexContainer::index bodies", n, 4)
