"""C13 / C03 / C05: R-BOUND — positional accessors are fail-stop against the item's own extent."""
from core import Ctx, callee_tag, classify, base_places, short, describe
from expr import (trees, tree, lin, lin_eq, facts_at, show, operand_tree, CMP_OPS)


def norm_len(t):
    """normalise length-like trees to ('len', place-tree)"""
    if t[0] == "call" and t[1][1] == "len" and t[1][0] in ("slice", "Vec", "Storage", "array") and t[2]:
        return ("len", norm_len(t[2][0]))
    if t[0] == "un" and t[1] == "PtrMetadata":
        return ("len", norm_len(t[2]))
    if t[0] == "bin":
        return ("bin", t[1], norm_len(t[2]), norm_len(t[3]))
    if t[0] == "call":
        return ("call", t[1], tuple(norm_len(a) for a in t[2]), t[3], None)
    if t[0] == "phi":
        return ("phi", tuple(norm_len(x) for x in t[1]))
    return t


def nlin(t):
    from expr import nobb
    return lin(nobb(norm_len(t)))


def return_forms(ctx):
    """semantic alternatives of what the function returns, lengths normalised, block ids dropped"""
    from expr import ret_alts, nobb, NONE
    return [nobb(norm_len(t)) for t in ret_alts(ctx) if t != NONE]


def rekey(t, frm, to):
    """replace body key in place nodes so that trees of sibling methods compare equal"""
    if not isinstance(t, tuple):
        return t
    if t and t[0] == "place" and t[1] == frm:
        return ("place", to) + tuple(t[2:])
    return tuple(rekey(x, frm, to) for x in t)


def strict_bound_facts(ctx, bb, param_tree):
    """dominating facts  param < E  at block bb: yields E trees; also non-strict ones flagged"""
    strict = []
    weak = []
    for f in facts_at(ctx, bb):
        if f[0] not in CMP_OPS:
            continue
        op, a, b = f[0], f[1], f[2]
        if op in ("Gt", "Ge"):
            op = {"Gt": "Lt", "Ge": "Le"}[op]
            a, b = b, a
        if op == "Lt" and lin_eq(nlin(a), nlin(param_tree)):
            strict.append(b)
        elif op == "Le" and lin_eq(nlin(a), nlin(param_tree)):
            weak.append(b)
    return strict, weak


def _is_stride_len(t, recv):
    return t[0] == "call" and t[1] == ("Stride", "len") and bool(t[2]) and t[2][0] == recv


def stride_pos_in_range(ctx, bb, pos, recv, strict):
    """the position handed to Stride::index is below Stride::len(recv) at block bb:
    (a) a dominating strict comparison pos < len(recv); or
    (c) the position is yielded by the half-open range a..len(recv); or
    (b) the stride is known to be non-empty there (some x < len(recv), len(recv) != 0 / > 0 / >= 1,
        or !is_empty(recv)) and pos is the constant 0 or exactly len(recv) - 1 (plain subtraction)."""
    from expr import nobb
    if any(_is_stride_len(s, recv) for s in strict):
        return True
    # (c) the position is an element of the half-open range `a..Stride::len(recv)`
    t = pos
    if t[0] == "call" and t[1] == ("Iterator", "next") and tuple(t[3]) == ("v:Some", "f:0") and t[2]:
        src = t[2][0]
        while src[0] == "call" and src[1][1] in ("into_iter", "by_ref", "iter") and src[2]:
            src = src[2][0]
        if src[0] == "agg" and src[1] == "Range::Range" and len(src[2]) == 2 and _is_stride_len(src[2][1], recv):
            return True
    nonempty = False
    for f in facts_at(ctx, bb):
        op = f[0]
        if op in CMP_OPS:
            a, b = f[1], f[2]
            if op in ("Gt", "Ge"):
                op = {"Gt": "Lt", "Ge": "Le"}[op]
                a, b = b, a
            if op == "Lt" and _is_stride_len(b, recv):
                nonempty = True  # unsigned x < len
            elif op == "Le" and _is_stride_len(b, recv) and a[0] == "const" and a[1].isdigit() and int(a[1]) >= 1:
                nonempty = True
            elif op == "Ne" and ((_is_stride_len(a, recv) and b == ("const", "0")) or
                                 (_is_stride_len(b, recv) and a == ("const", "0"))):
                nonempty = True
        elif op == "truthy" and f[2] is False:
            t = f[1]
            if t[0] == "call" and t[1] == ("Stride", "is_empty") and t[2] and t[2][0] == recv:
                nonempty = True
    if not nonempty:
        return False
    if pos == ("const", "0"):
        return True
    if pos[0] == "bin" and pos[1] == "Sub" and _is_stride_len(pos[2], recv) and pos[3] == ("const", "1"):
        return True
    return False


def find_methods(F, adt, name):
    return [b for b in F.bodies.values() if b.kind == "AssocFn" and b.self_adt == adt and
            b.name == name and b.trait is None and not b.in_tests()]


def read_item_types(F):
    """ADTs with inherent get(&self, usize) and len(&self): the positional read items"""
    out = []
    for a in F.adts:
        g = find_methods(F, a, "get")
        if g and find_methods(F, a, "len") and g[0].d.get("vis_pub"):
            out.append(a)
    return sorted(out)


NON_FAILSTOP = {("IndexContainer", "index"), ("Stride", "index"), ("IndexList", "index"),
                ("Region", "index")}


def r_bound_readitems(F, R):
    types = read_item_types(F)
    R.floor("R-BOUND", "read-item types with get/len", len(types), 4)
    for adt in types:
        getb = find_methods(F, adt, "get")[0]
        lenb = find_methods(F, adt, "len")[0]
        R.saw(getb)
        R.saw(lenb)
        gctx = Ctx(getb)
        lctx = Ctx(lenb)
        extents = [rekey(t, lenb.key, getb.key) for t in return_forms(lctx)]
        # `self.len()` itself is the extent too (a bound written against the sibling len())
        extents.append(("call", (short(adt), "len"), (("place", getb.key, ("arg", 1), ()),), ()))
        param = ("place", getb.key, ("arg", 2), ())
        nsites, good = analyse_get(F, R, getb, gctx, getb, param, extents)
        ok = nsites > 0 and not getb.can_return_avoiding(good)
        R.check("R-BOUND", getb.label(), ok,
                construct="every returning path passes a strict bound against the item's own extent",
                where=getb.where(),
                detail="%d access sites, %d blocks establish the bound; extent %s" % (
                    nsites, len(good), [show(e) for e in extents]))
        # is_empty agreement: is_empty <=> len == 0
        for eb in find_methods(F, adt, "is_empty"):
            ectx = Ctx(eb)
            R.saw(eb)
            forms = [rekey(t, eb.key, getb.key) for t in return_forms(ectx)]
            ok = all(is_empty_matches(f, extents) for f in forms) and bool(forms)
            R.check("R-BOUND", eb.label(), ok, construct="is_empty agrees with len",
                    where=eb.where(), detail="is_empty = %s; len = %s" % (
                        [show(f) for f in forms], [show(e) for e in extents]))


def analyse_get(F, R, getb, ctx, body, param, extents, depth=0):
    """collects the positional access sites of `body` (a get() or a closure created in it) and
    returns (#sites, blocks of `body` that establish the strict bound)"""
    from core import closure_ctxs
    nsites = 0
    good = set()
    for (bi, t) in body.calls():
        ce = t.get("callee")
        tag = callee_tag(ce)
        args = t["args"]
        if len(args) < 2:
            continue
        pos = norm_len(operand_tree(ctx, args[1]))
        if not mentions(pos, param):
            continue
        recv = trees(ctx, ctx.org.operand(args[0]))
        where = "%s:%s" % (body.file, t["line"])
        if tag[1] == "get" and ce.get("local"):
            nsites += 1
            ok = lin_eq(nlin(pos), nlin(param))
            if ok:
                good.add(bi)
            R.check("R-BOUND", getb.label(), ok, construct="forwards position to %s::get" % tag[0],
                    where=where, detail="position = " + show(pos))
            continue
        unchanged = lin_eq(nlin(pos), nlin(param))
        own = any(extent_is_len_of(e, recv) for e in extents)
        std_get = tag[1] in ("get", "get_mut") and tag[0] in ("slice", "Vec", "array") and not ce.get("local")
        if tag == ("Index", "index") or std_get or (tag == ("IndexContainer", "index") and unchanged and own):
            nsites += 1
            ok = unchanged and own
            if std_get and ok and not get_is_failstop(body, bi):
                # `get(i).or(fallback)`, `unwrap_or(..)`, a None arm that returns something: the
                # checked lookup does not stop an out-of-range position
                ok = False
                R.check("R-BOUND", getb.label(), False, construct="checked get whose None outcome is fail-stop",
                        where=where, detail="the Option returned by get() is not unwrapped / matched with a diverging None arm")
                continue
            if ok:
                good.add(bi)
            if std_get and not ok:
                # a checked lookup in some other container (the column vector of a row): fail-stop
                # on its own, it just does not establish the bound against this item's extent
                continue
            R.check("R-BOUND", getb.label(), ok,
                    construct="container-checked index into %s" % show(recv), where=where,
                    detail="position %s; len() returns %s" % (show(pos), [show(e) for e in extents]))
            continue
        if tag in NON_FAILSTOP and tag != ("Region", "index"):
            nsites += 1
            strict, weak = strict_bound_facts(ctx, bi, param)
            ok = any(any(lin_eq(nlin(s), nlin(e)) for e in extents) for s in strict)
            if ok:
                good.add(bi)
            detail = "guards: strict %s, non-strict %s; extent %s" % (
                [show(s) for s in strict], [show(s) for s in weak], [show(e) for e in extents])
            R.check("R-BOUND", getb.label(), ok,
                    construct="%s::%s at parameter-derived position" % tag, where=where, detail=detail)
    # built-in indexing (bounds-check asserts)
    for bi in sorted(body.live_blocks()):
        t = body.term(bi)
        if t["k"] == "assert" and t.get("msg") == "bounds":
            idx = norm_len(operand_tree(ctx, t["index"]))
            ln = norm_len(operand_tree(ctx, t["len"]))
            if not mentions(idx, param):
                continue
            nsites += 1
            if lin_eq(nlin(idx), nlin(param)) and any(lin_eq(nlin(ln), nlin(e)) for e in extents):
                good.add(bi)
    # closures created here (combinator forms): a consuming call is good when every closure it
    # receives establishes the bound on all of its own paths
    if depth < 3:
        per_call = {}
        for (cctx, cbi, consumers) in closure_ctxs(F, ctx):
            n2, g2 = analyse_get(F, R, getb, cctx, cctx.body, param, extents, depth + 1)
            nsites += n2
            cgood = n2 > 0 and not cctx.body.can_return_avoiding(g2)
            for cb in consumers:
                per_call.setdefault(cb, []).append(cgood)
        for cb, flags in per_call.items():
            if flags and all(flags):
                good.add(cb)
    return nsites, good


def get_is_failstop(body, bi):
    """the Option produced by the checked lookup in block bi stops an out-of-range position: its
    None outcome -- followed through copies, `ok_or`, `?` (Try::branch / from_residual), `as_ref`,
    `copied`, `map` -- is unwrapped/expected, or is branched on with the failing arm unable to reach a
    return of this body.  A substitute value (`or`, `unwrap_or`, ..) or a failing arm that returns
    something makes it not fail-stop."""
    t = body.term(bi)
    # local -> discriminant value of the *failing* variant
    failing = {t["dest"]["l"]: "0"}
    SAME = {"as_ref", "as_mut", "copied", "cloned", "map", "as_deref", "inspect"}
    changed = True
    rounds = 0
    while changed and rounds < 8:
        changed = False
        rounds += 1
        for x in body.live_blocks():
            for st in body.blocks[x]["stmts"]:
                if st["k"] != "assign" or st["place"]["p"]:
                    continue
                rv = st["rv"]
                src = None
                if rv["k"] in ("use", "cast") and rv["op"]["k"] in ("copy", "move") and not rv["op"]["place"]["p"]:
                    src = rv["op"]["place"]["l"]
                elif rv["k"] == "ref" and not rv["place"]["p"]:
                    src = rv["place"]["l"]
                if src in failing and st["place"]["l"] not in failing:
                    failing[st["place"]["l"]] = failing[src]
                    changed = True
            tt = body.term(x)
            if tt["k"] == "call" and tt["args"] and tt["target"] is not None and not tt["dest"]["p"]:
                a0 = tt["args"][0]
                if a0["k"] in ("copy", "move") and not a0["place"]["p"] and a0["place"]["l"] in failing:
                    tg = callee_tag(tt.get("callee"))
                    d = tt["dest"]["l"]
                    if d in failing:
                        continue
                    if tg[1] in ("ok_or", "ok_or_else"):
                        failing[d] = "1"          # Result::Err
                        changed = True
                    elif tg[1] == "branch":
                        failing[d] = "1"          # ControlFlow::Break
                        changed = True
                    elif tg[1] in SAME:
                        failing[d] = failing[a0["place"]["l"]]
                        changed = True
    ok_use = False
    for x in sorted(body.live_blocks()):
        tt = body.term(x)
        if tt["k"] == "call" and tt["args"]:
            a0 = tt["args"][0]
            if a0["k"] in ("copy", "move") and not a0["place"]["p"] and a0["place"]["l"] in failing:
                tg = callee_tag(tt.get("callee"))
                if tg[1] in ("unwrap", "expect", "unwrap_unchecked"):
                    ok_use = True
                elif tg[1] in SAME or tg[1] in ("ok_or", "ok_or_else", "branch", "is_some", "is_none", "is_ok", "is_err"):
                    continue
                else:
                    return False  # or / unwrap_or / unwrap_or_else / ... : a substitute value
        for st in body.blocks[x]["stmts"]:
            if st["k"] == "assign" and st["rv"]["k"] == "discr" and not st["rv"]["place"]["p"] and \
                    st["rv"]["place"]["l"] in failing:
                fv = failing[st["rv"]["place"]["l"]]
                sw = body.term(x)
                if sw["k"] == "switch":
                    tgt = None
                    for (v, tg_) in sw["arms"]:
                        if v == fv:
                            tgt = tg_
                    if tgt is None and all(v != fv for (v, _) in sw["arms"]):
                        tgt = sw["otherwise"]
                    if tgt is not None and not body.can_return_avoiding(set(), frm=tgt):
                        ok_use = True
                    else:
                        return False
    return ok_use


def mentions(t, sub):
    if t == sub:
        return True
    if isinstance(t, tuple):
        return any(mentions(x, sub) for x in t if isinstance(x, tuple))
    return False


def extent_is_len_of(e, recv):
    return e == ("len", norm_len(recv))


def dominates_returns(body, bi):
    rets = body.return_blocks()
    return bool(rets) and all(body.dominates(bi, r) for r in rets)


def is_empty_matches(f, extents):
    """f is the tree of is_empty's result"""
    # (a) a == b where len = b - a  /  a - b
    if f[0] == "bin" and f[1] == "Eq":
        d = lin_sub_safe(nlin(f[2]), nlin(f[3]))
        for e in extents:
            le = nlin(e)
            if d == le or neg(d) == le:
                return True
        return False
    # (b) is_empty(x) where len = len(x)
    if f[0] == "call" and f[1][1] == "is_empty" and f[2]:
        x = f[2][0]
        for e in extents:
            if e == ("len", x):
                return True
            if e[0] == "call" and e[1][1] == "len" and e[2] and e[2][0] == x:
                return True
        return False
    if f[0] == "phi":
        return all(is_empty_matches(x, extents) for x in f[1])
    return False


def lin_sub_safe(a, b):
    out = dict(a)
    for k, v in b.items():
        out[k] = out.get(k, 0) - v
    return {k: v for k, v in out.items() if v != 0}


def neg(d):
    return {k: -v for k, v in d.items()}


# ---------------------------------------------------------------------------------------------
# Stride::index call sites (the accessor is not fail-stop by itself)


def r_bound_stride_sites(F, R):
    from core import all_ctxs
    n = 0
    todo = []
    for tb in F.bodies.values():
        if tb.in_tests() or tb.derived or tb.kind == "Closure":
            continue
        if F.only_inlined(tb):
            continue  # a private helper: its call of Stride::index is judged in each caller
        has = any(callee_tag(t.get("callee")) == ("Stride", "index") for (_, t) in tb.calls()) or any(
            any(callee_tag(t.get("callee")) == ("Stride", "index") for (_, t) in cb.calls())
            for cb in F.closures_of.get(tb.key, []))
        if has:
            todo.extend(all_ctxs(F, tb))
    for ctx in todo:
        b = ctx.body
        for (bi, t) in b.calls():
            tag = callee_tag(t.get("callee"))
            if tag != ("Stride", "index"):
                continue
            n += 1
            R.saw(b)
            recv = trees(ctx, ctx.org.operand(t["args"][0]))
            pos = operand_tree(ctx, t["args"][1])
            strict, weak = strict_bound_facts(ctx, bi, pos)
            ok = stride_pos_in_range(ctx, bi, pos, recv, strict)
            R.check("R-BOUND", b.label(), ok, construct="Stride::index guarded by < Stride::len",
                    where="%s:%s" % (b.file, t["line"]),
                    detail="position %s on %s; strict guards %s; non-strict %s" % (
                        show(pos), show(recv), [show(s) for s in strict], [show(s) for s in weak]))
    R.floor("R-BOUND", "Stride::index call sites", n, 2)


# ---------------------------------------------------------------------------------------------
# IndexContainer::index impls end in a fail-stop access on every path


def r_index_failstop(F, R):
    n = 0
    bodies = list(F.methods_of_trait("IndexContainer", "index")) + \
        [b for b in F.bodies.values() if b.trait is None and b.name == "index" and
         b.self_adt in ("impls::index::IndexList",)]
    for b in bodies:
        n += 1
        R.saw(b)
        ctx = Ctx(b)
        param = ("place", b.key, ("arg", 2), ())
        # every return value must come from a fail-stop or guarded access
        sites = []
        for (bi, t) in b.calls():
            tag = callee_tag(t.get("callee"))
            args = t["args"]
            if len(args) < 2:
                continue
            if tag == ("Index", "index"):
                recv = trees(ctx, ctx.org.operand(args[0]))
                ok = recv == ("place", b.key, ("arg", 1), ())
                sites.append((bi, ok, "std-checked index into %s" % show(recv)))
            elif tag[1] == "get" and tag[0] in ("slice", "Vec", "array", "VecDeque"):
                # `self.get(i)` returns None out of range: whatever is returned on the Some edge
                # is a checked element
                recv = trees(ctx, ctx.org.operand(args[0]))
                ok = recv == ("place", b.key, ("arg", 1), ()) and get_is_failstop(b, bi)
                sites.append((bi, ok, "std-checked get on %s (None outcome fail-stop: %s)" % (show(recv), ok)))
            elif tag in (("IndexContainer", "index"), ("IndexList", "index")):
                sites.append((bi, True, "delegates to %s::index (checked as its own instance)" % tag[0]))
            elif tag == ("Stride", "index"):
                recv = trees(ctx, ctx.org.operand(args[0]))
                pos = operand_tree(ctx, args[1])
                strict, weak = strict_bound_facts(ctx, bi, pos)
                ok = stride_pos_in_range(ctx, bi, pos, recv, strict)
                sites.append((bi, ok, "Stride::index under guard %s" % [show(s) for s in strict]))
        good = {bi for (bi, ok, _) in sites if ok}
        ok = bool(sites) and all(o for (_, o, _) in sites) and not b.can_return_avoiding(good)
        R.check("R-BOUND", b.label(), ok, construct="every path ends in a fail-stop access",
                where=b.where(), detail="; ".join(w for (_, _, w) in sites))
    R.floor("R-BOUND", "IndexContainer::index bodies", n, 4)
