"""C14: IntoOwned laws — R-ONTO, reborrow identity, borrow_as / into_owned cover the whole value."""
from core import Ctx, callee_tag, base_places, body_effects, describe
from model import Catalogue
from expr import trees, tree, show
from r_index import places_in
from r_cmp import calls_in

LIMITING = {"skip", "take", "step_by", "filter", "skip_while", "take_while", "nth", "rev",
            "split_at", "split_first", "split_last", "first", "last", "get", "chunks", "windows",
            "truncate_", "pop", "filter_map_"}
LENGTH_FORCING = {("Vec", "truncate"), ("Vec", "clear"), ("Vec", "resize"), ("Vec", "resize_with"),
                  ("Vec", "drain"), ("Vec", "split_off"), ("Clone", "clone_from"),
                  ("ToOwned", "clone_into"), ("Vec", "set_len")}


def owned_type_of(F, b):
    """string of the impl's `Owned` associated type"""
    imp = F.impl_by_key.get(b.owner.get("impl_key"))
    if not imp:
        return None
    for it in imp["items"]:
        if it["name"] == "Owned" and "ty" in it:
            return it["ty"]
    return None


def tuple_arity(ty):
    if ty and ty.startswith("(") and ty.endswith(")"):
        inner = ty[1:-1].strip()
        if not inner:
            return 0
        depth = 0
        n = 1
        for ch in inner.rstrip(","):
            if ch in "<([":
                depth += 1
            elif ch in ">)]":
                depth -= 1
            elif ch == "," and depth == 0:
                n += 1
        return n
    return None


def writes_to_other(ctx, effs):
    """[(top_bb, path-on-arg2, kind, effect)] of everything that writes through `other`"""
    out = []
    for e in effs:
        if e.cls in ("assign_onto",):
            kind = "clone_onto"
        elif e.cls == "assign":
            kind = "assign"
        elif e.cls == "destructive" and e.tag in LENGTH_FORCING:
            kind = "length"
        elif e.cls == "clone_from":
            kind = "length"
        elif e.cls == "clear":
            kind = "length"
        elif e.cls == "append":
            kind = "append"
        elif e.cls == "destructive":
            kind = "other-destructive"
        else:
            continue
        for (c, (r, p)) in e.targets or ():
            top = ctx
            if c is top and r == ("arg", 2):
                out.append((e.top_bb, p, kind, e))
    return out


def r_onto(F, R, cat=None):
    cat = cat or Catalogue(F)
    n = 0
    for b in F.methods_of_trait("IntoOwned", "clone_onto"):
        if b.in_tests():
            continue
        n += 1
        R.saw(b)
        ctx, effs = cat.effects(b)
        owned = owned_type_of(F, b)
        ws = writes_to_other(ctx, effs)
        ar = tuple_arity(owned)
        if ar is not None and ar > 0 and not any(p == () for (_, p, k, _) in ws if k in ("assign", "clone_onto")):
            # tuple: every component must be written on every path
            ok_all = True
            missing = []
            for i in range(ar):
                sites = {bb for (bb, p, k, _) in ws if p[:1] == ("f:%d" % i,) and k in ("assign", "clone_onto")}
                if not sites or b.can_return_avoiding(sites):
                    ok_all = False
                    missing.append(i)
            R.check("R-ONTO", b.label(), ok_all, construct="every tuple component of *other is written",
                    where=b.where(), detail="owned %s; components without a write on some path: %s" % (owned, missing))
            continue
        full = {bb for (bb, p, k, _) in ws if k in ("assign", "clone_onto", "length") and
                (p == () or (len(p) == 2 and p[0].startswith("v:")))}
        ok = bool(full) and not b.can_return_avoiding(full)
        R.check("R-ONTO", b.label(), ok, construct="every path writes *other",
                where=b.where(), detail="owned %s; %d write sites: %s" % (
                    owned, len(ws), sorted({"%s %s" % (k, ".".join(p) or "*other") for (_, p, k, _) in ws})))
        if owned and owned.startswith("std::vec::Vec<"):
            lf = {bb for (bb, p, k, _) in ws if k == "length" and p == ()} | \
                 {bb for (bb, p, k, _) in ws if k == "assign" and p == ()}
            ok2 = bool(lf) and not b.can_return_avoiding(lf)
            R.check("R-ONTO", b.label(), ok2, construct="every path forces the length of *other",
                    where=b.where(), detail="length-forcing sites: %s" % sorted(
                        {"%s::%s" % e.tag for (_, p, k, e) in ws if k == "length"}))
    R.floor("R-ONTO", "clone_onto impls", n, 20)


def leaves_ok(t, want_root, want_path):
    ps = places_in(t)
    return bool(ps) and all(p[2] == want_root and tuple(p[3]) == tuple(want_path) for p in ps)


def limiting_calls(t):
    return [c[1][1] for c in calls_in(t) if c[1][1] in LIMITING]


def whole_value(ctx, b, R, rule, what, arity):
    """the returned value is built from the whole argument (tuple: i-th component from the i-th
    field), without limiting adaptors"""
    forms = [tree(ctx, o) for o in ctx.org.local(0)]
    ok = bool(forms)
    why = []
    for t in forms:
        if arity and t[0] == "agg" and t[1] == "tuple" and len(t[2]) == arity:
            for i, op in enumerate(t[2]):
                if not leaves_ok(op, ("arg", 1), ("f:%d" % i,)):
                    ok = False
                    why.append("component %d built from %s" % (i, show(op)[:80]))
                if limiting_calls(op):
                    ok = False
                    why.append("component %d limited by %s" % (i, limiting_calls(op)))
        else:
            if not leaves_ok(t, ("arg", 1), ()):
                ok = False
                why.append("built from %s" % show(t)[:100])
            if limiting_calls(t):
                ok = False
                why.append("limited by %s" % limiting_calls(t))
    R.check(rule, b.label(), ok, construct=what, where=b.where(),
            detail="; ".join(why) or "result = %s" % "; ".join(show(t)[:90] for t in forms))


def r_owned_conversions(F, R):
    n = 0
    for b in F.methods_of_trait("IntoOwned"):
        if b.in_tests() or b.name not in ("into_owned", "borrow_as"):
            continue
        n += 1
        R.saw(b)
        ctx = Ctx(b)
        ar = tuple_arity(owned_type_of(F, b))
        whole_value(ctx, b, R, "R-WHOLE", "%s covers the whole value" % b.name, ar)
    R.floor("R-WHOLE", "into_owned/borrow_as impls", n, 40)


def is_reborrow(t, key, path):
    if t[0] == "place":
        return t[2] == ("arg", 1) and tuple(t[3]) == tuple(path)
    if t[0] == "call":
        tag = t[1]
        if tag == ("Region", "reborrow") and len(t[2]) == 1:
            return is_reborrow(t[2][0], key, path)
        if tag in (("Option", "map"), ("Result", "map"), ("Result", "map_err")) and len(t[2]) == 2:
            f = t[2][1]
            return is_reborrow(t[2][0], key, path) and f[0] == "const" and "reborrow" in f[1]
    if t[0] == "agg" and t[1] == "tuple":
        return all(is_reborrow(op, key, tuple(path) + ("f:%d" % i,)) for i, op in enumerate(t[2]))
    if t[0] == "phi":
        return all(is_reborrow(x, key, path) for x in t[1])
    return False


def r_reborrow(F, R):
    n = 0
    for b in F.methods_of_trait("Region", "reborrow"):
        if b.in_tests():
            continue
        n += 1
        R.saw(b)
        ctx = Ctx(b)
        forms = [tree(ctx, o) for o in ctx.org.local(0)]
        ok = bool(forms) and all(is_reborrow(t, b.key, ()) for t in forms)
        R.check("R-REBORROW", b.label(), ok, construct="reborrow is the identity (composed of children's reborrow)",
                where=b.where(), detail="returns %s" % "; ".join(show(t)[:100] for t in forms))
    R.floor("R-REBORROW", "reborrow impls", n, 12)


def r_onto_nopanic(F, R, cat=None):
    """clone_onto must work whatever the target held before: no slicing / positional access
    whose bound is the *target's* previous length"""
    from expr import operand_tree, facts_at
    from r_bracket import walk
    cat = cat or Catalogue(F)
    n = 0
    for b in F.methods_of_trait("IntoOwned", "clone_onto"):
        if b.in_tests():
            continue
        ctx, effs = cat.effects(b)
        other_len = None
        sites = []
        for e in effs:
            if e.kind != "call":
                continue
            if e.tag in (("Index", "index"), ("IndexMut", "index_mut"), ("slice", "split_at"),
                         ("slice", "split_at_mut"), ("Vec", "split_off"), ("Vec", "drain")):
                for os_ in e.argorigins[1:]:
                    t = trees(e.ctx, os_)
                    # does the position / range derive from the length of *other (arg 2 of the top body)?
                    uses_other = False
                    for nd in walk(t):
                        if nd[0] == "call" and nd[1][1] == "len" and nd[2]:
                            for pl in places_in(nd[2][0]):
                                if pl[1] == b.key and pl[2] == ("arg", 2):
                                    uses_other = True
                    if uses_other:
                        # the indexed collection must be `other` itself, otherwise its length is unrelated
                        recv = trees(e.ctx, e.argorigins[0])
                        on_other = any(pl[1] == b.key and pl[2] == ("arg", 2) for pl in places_in(recv))
                        if not on_other:
                            sites.append((e, show(t)[:80], show(recv)[:60]))
        n += 1
        R.saw(b)
        R.check("R-ONTO", b.label(), not sites,
                construct="no positional access bounded by the target's previous length",
                where=sites[0][0].where() if sites else b.where(),
                detail="; ".join("%s indexed by %s" % (r, t) for (_, t, r) in sites) or "none")
    R.floor("R-ONTO", "clone_onto impls scanned for target-length-dependent panics", n, 20)
