"""C14: IntoOwned laws — R-ONTO, reborrow identity, borrow_as / into_owned cover the whole value."""
from core import Ctx, callee_tag, base_places, body_effects, describe
from model import Catalogue
from expr import trees, tree, show
from r_index import places_in
from r_cmp import calls_in

LIMITING = {"skip", "take", "step_by", "filter", "skip_while", "take_while", "nth", "rev",
            "split_at", "split_first", "split_last", "first", "last", "get", "chunks", "windows",
            "truncate_", "pop", "filter_map_"}
LENGTH_FORCING = {("Vec", "truncate"), ("Vec", "clear"), ("Vec", "resize"), ("Vec", "resize_with"),
                  ("Vec", "drain"), ("Vec", "split_off"), ("Clone", "clone_from"),
                  ("ToOwned", "clone_into"), ("Vec", "set_len")}


def owned_type_of(F, b):
    """string of the impl's `Owned` associated type"""
    imp = F.impl_by_key.get(b.owner.get("impl_key"))
    if not imp:
        return None
    for it in imp["items"]:
        if it["name"] == "Owned" and "ty" in it:
            return it["ty"]
    return None


def tuple_arity(ty):
    if ty and ty.startswith("(") and ty.endswith(")"):
        inner = ty[1:-1].strip()
        if not inner:
            return 0
        depth = 0
        n = 1
        for ch in inner.rstrip(","):
            if ch in "<([":
                depth += 1
            elif ch in ">)]":
                depth -= 1
            elif ch == "," and depth == 0:
                n += 1
        return n
    return None


def writes_to_other(ctx, effs):
    """[(top_bb, path-on-arg2, kind, effect)] of everything that writes through `other`"""
    out = []
    for e in effs:
        if e.cls in ("assign_onto",):
            kind = "clone_onto"
        elif e.cls == "assign":
            kind = "assign"
        elif e.cls == "destructive" and e.tag in LENGTH_FORCING:
            kind = "length"
        elif e.cls == "clone_from":
            kind = "length"
        elif e.cls == "clear":
            kind = "length"
        elif e.cls == "append":
            kind = "append"
        elif e.cls == "destructive":
            kind = "other-destructive"
        else:
            continue
        for (c, (r, p)) in e.targets or ():
            top = ctx
            if c is top and r == ("arg", 2):
                out.append((e.top_bb, p, kind, e))
    return out


def other_is_shorter(ctx, bb):
    """a dominating fact says the target (arg 2) is not longer than the item: len(other) < X,
    len(other) <= X, or min(X, len(other)) < X, with X free of `other`"""
    from expr import facts_at, nobb
    from r_alloc import walk

    def about_other(t):
        return any(nd[0] == "place" and nd[2] == ("arg", 2) for nd in walk(t))

    def len_of_other(t):
        return t[0] in ("call", "un", "len") and about_other(t) and (
            (t[0] == "call" and t[1][1] == "len") or t[0] in ("un", "len"))
    for f in facts_at(ctx, bb):
        if f[0] not in ("Lt", "Le", "Gt", "Ge"):
            continue
        op, x, y = f[0], nobb(f[1]), nobb(f[2])
        if op in ("Gt", "Ge"):
            op = {"Gt": "Lt", "Ge": "Le"}[op]
            x, y = y, x
        if about_other(y):
            continue
        if len_of_other(x):
            return True
        if op == "Lt" and x[0] == "call" and x[1][1] == "min" and len(x[2]) == 2:
            a, c = x[2]
            if (a == y and len_of_other(c)) or (c == y and len_of_other(a)):
                return True
    return False


def r_onto(F, R, cat=None):
    cat = cat or Catalogue(F)
    n = 0
    for b in F.methods_of_trait("IntoOwned", "clone_onto"):
        if b.in_tests():
            continue
        n += 1
        R.saw(b)
        ctx, effs = cat.effects(b)
        owned = owned_type_of(F, b)
        ws = writes_to_other(ctx, effs)
        ar = tuple_arity(owned)
        if ar is not None and ar > 0 and not any(p == () for (_, p, k, _) in ws if k in ("assign", "clone_onto")):
            # tuple: every component must be written on every path
            ok_all = True
            missing = []
            for i in range(ar):
                sites = {bb for (bb, p, k, _) in ws if p[:1] == ("f:%d" % i,) and k in ("assign", "clone_onto")}
                if not sites or b.can_return_avoiding(sites):
                    ok_all = False
                    missing.append(i)
            R.check("R-ONTO", b.label(), ok_all, construct="every tuple component of *other is written",
                    where=b.where(), detail="owned %s; components without a write on some path: %s" % (owned, missing))
            continue
        # an append to *other where *other is known to be the shorter side extends it to the
        # item's length (`if shared < len { other.extend(rest) } else { other.truncate(len) }`)
        grow = {bb for (bb, p, k, _) in ws if k == "append" and p == () and other_is_shorter(ctx, bb)}
        full = {bb for (bb, p, k, _) in ws if k in ("assign", "clone_onto", "length") and
                (p == () or (len(p) == 2 and p[0].startswith("v:")))} | grow
        ok = bool(full) and not b.can_return_avoiding(full)
        R.check("R-ONTO", b.label(), ok, construct="every path writes *other",
                where=b.where(), detail="owned %s; %d write sites: %s" % (
                    owned, len(ws), sorted({"%s %s" % (k, ".".join(p) or "*other") for (_, p, k, _) in ws})))
        # the target's capacity says nothing about its contents: a count or bound derived from it
        # (skip / take / truncate / index) mixes up what is stored with what is merely allocated
        from core import all_ctxs as _all
        from expr import operand_tree as _ot, nobb as _nb
        from r_alloc import walk as _wk
        for c2 in _all(F, b):
            for (bi2, t2) in c2.body.calls():
                tg2 = callee_tag(t2.get("callee"))
                if tg2[1] not in ("skip", "take", "truncate", "min", "max", "index", "split_at", "split_at_mut", "resize", "resize_with"):
                    continue
                for a2 in t2["args"][1:] if tg2[1] not in ("min", "max") else t2["args"]:
                    tr = _nb(_ot(c2, a2))
                    caps = [nd for nd in _wk(tr) if nd[0] == "call" and nd[1][1] == "capacity"]
                    if caps:
                        R.check("R-ONTO", b.label(), False, construct="no bound or count in clone_onto derives from the target's capacity",
                                where="%s:%s" % (c2.body.file, t2["line"]),
                                detail="%s(.. %s ..): elements between the target's length and its capacity do not exist" % (tg2[1], show(caps[0])[:50]))
        if owned and owned.startswith("std::vec::Vec<"):
            lf = {bb for (bb, p, k, _) in ws if k == "length" and p == ()} | \
                 {bb for (bb, p, k, _) in ws if k == "assign" and p == ()} | grow
            ok2 = bool(lf) and not b.can_return_avoiding(lf)
            R.check("R-ONTO", b.label(), ok2, construct="every path forces the length of *other",
                    where=b.where(), detail="length-forcing sites: %s" % sorted(
                        {"%s::%s" % e.tag for (_, p, k, e) in ws if k == "length"}))
    R.floor("R-ONTO", "clone_onto impls", n, 20)


def leaves_ok(t, want_root, want_path):
    ps = places_in(t)
    if bool(ps) and all(p[2] == want_root and tuple(p[3]) == tuple(want_path) for p in ps):
        return True
    # taken apart and put together again (`match self.0 { Ok(inner) => iter(inner.columns, inner.index),
    # Err(slice) => iter(slice) }`): the leaves are sub-places that jointly make up the value
    if not ps or any(p[2] != want_root or tuple(p[3][:len(want_path)]) != tuple(want_path) for p in ps):
        return False
    return _jointly_covers({tuple(p[3]) for p in ps}, tuple(want_path))


_ONLY_FIELD = [None]  # name of the only field of the type whose value is being converted, if it has just one


def _jointly_covers(paths, base, depth=0):
    """the set of place paths (all extending `base`) makes up all of `base`: base itself, or for
    every variant that is mentioned its payload, or a newtype's only field, or at least two
    sibling fields each of which is made up in turn"""
    if base in paths:
        return True
    if depth > 6:
        return False
    ext = {p for p in paths if len(p) > len(base) and p[:len(base)] == base}
    if not ext:
        return False
    heads = {p[len(base)] for p in ext}
    if all(h.startswith("v:") for h in heads):
        return all(_jointly_covers(ext, base + (h, "f:0"), depth + 1) for h in heads)
    if heads == {"f:0"}:
        return _jointly_covers(ext, base + ("f:0",), depth + 1)
    if base == () and _ONLY_FIELD[0] is not None and heads == {"f:" + _ONLY_FIELD[0]}:
        # the value's type is a struct with this single field
        return _jointly_covers(ext, base + ("f:" + _ONLY_FIELD[0],), depth + 1)
    if all(h.startswith("f:") for h in heads) and len(heads) >= 2:
        return all(_jointly_covers(ext, base + (h,), depth + 1) for h in heads)
    return False


def limiting_calls(t):
    return [c[1][1] for c in calls_in(t) if c[1][1] in LIMITING]


def covers(t, path):
    """t is built from the whole of arg1.<path> (constructor by constructor)"""
    if t[0] == "agg" and t[1] in ("Option::Some", "Result::Ok", "Result::Err") and len(t[2]) == 1:
        v = t[1].split("::")[1]
        # either the argument's own Some/Ok/Err payload is mapped, or the variant is just the
        # representation chosen for the result (ReadSlice(Err(owned.as_slice())))
        return covers(t[2][0], tuple(path) + ("v:" + v, "f:0")) or covers(t[2][0], path)
    if t[0] == "agg" and t[1] == "tuple" and t[2]:
        return all(covers(op, tuple(path) + ("f:%d" % i,)) for i, op in enumerate(t[2]))
    if t[0] == "agg" and not t[1].startswith("closure:"):
        return all(covers(op, path) for op in t[2]) if t[2] else True
    if limiting_calls(t):
        return False
    return leaves_ok(t, ("arg", 1), path)


def whole_value(ctx, b, R, rule, what, arity):
    """every semantic alternative of the result is built from the whole argument: Some/Ok/Err from
    the matching payload, the i-th tuple component from the i-th field, no limiting adaptor"""
    from expr import ret_alts, nobb, NONE
    forms = [nobb(t) for t in ret_alts(ctx) if t != NONE]
    _ONLY_FIELD[0] = None
    a = b.facts.adts.get(b.self_adt) if b.self_adt else None
    if a and a.get("kind") == "struct" and a.get("variants"):
        fs = [f for f in a["variants"][0]["fields"] if "PhantomData" not in f["ty"]["s"]]
        if len(fs) == 1:
            _ONLY_FIELD[0] = fs[0]["name"]
    bad = [show(t)[:100] for t in forms if not covers(t, ())]
    _ONLY_FIELD[0] = None
    R.check(rule, b.label(), bool(forms) and not bad, construct=what, where=b.where(),
            detail=("not built from the whole value: %s" % bad) if bad else
            "result = %s" % "; ".join(show(t)[:90] for t in forms))


def r_owned_conversions(F, R):
    n = 0
    for b in F.methods_of_trait("IntoOwned"):
        if b.in_tests() or b.name not in ("into_owned", "borrow_as"):
            continue
        n += 1
        R.saw(b)
        ctx = Ctx(b)
        ar = tuple_arity(owned_type_of(F, b))
        whole_value(ctx, b, R, "R-WHOLE", "%s covers the whole value" % b.name, ar)
    R.floor("R-WHOLE", "into_owned/borrow_as impls", n, 40)


def is_reborrow(t, path):
    if t[0] == "place":
        return t[2] == ("arg", 1) and tuple(t[3]) == tuple(path)
    if t[0] == "call" and t[1] == ("Region", "reborrow") and len(t[2]) == 1:
        return is_reborrow(t[2][0], path)
    if t[0] == "agg" and t[1] in ("Option::Some", "Result::Ok", "Result::Err") and len(t[2]) == 1:
        v = t[1].split("::")[1]
        return is_reborrow(t[2][0], tuple(path) + ("v:" + v, "f:0"))
    if t[0] == "agg" and t[1] == "tuple":
        return all(is_reborrow(op, tuple(path) + ("f:%d" % i,)) for i, op in enumerate(t[2]))
    return False


def r_reborrow(F, R):
    from expr import ret_alts, nobb, NONE
    n = 0
    for b in F.methods_of_trait("Region", "reborrow"):
        if b.in_tests():
            continue
        n += 1
        R.saw(b)
        ctx = Ctx(b)
        forms = [nobb(t) for t in ret_alts(ctx) if t != NONE]
        ok = bool(forms) and all(is_reborrow(t, ()) for t in forms)
        R.check("R-REBORROW", b.label(), ok, construct="reborrow is the identity (composed of children's reborrow)",
                where=b.where(), detail="returns %s" % "; ".join(show(t)[:100] for t in forms))
    R.floor("R-REBORROW", "reborrow impls", n, 12)


def r_onto_nopanic(F, R, cat=None):
    """clone_onto must work whatever the target held before: no slicing / positional access
    whose bound is the *target's* previous length"""
    from expr import operand_tree, facts_at
    from r_bracket import walk
    cat = cat or Catalogue(F)
    n = 0
    for b in F.methods_of_trait("IntoOwned", "clone_onto"):
        if b.in_tests():
            continue
        ctx, effs = cat.effects(b)
        other_len = None
        sites = []
        for e in effs:
            if e.kind != "call":
                continue
            if e.tag in (("Index", "index"), ("IndexMut", "index_mut"), ("slice", "split_at"),
                         ("slice", "split_at_mut"), ("Vec", "split_off"), ("Vec", "drain")):
                for os_ in e.argorigins[1:]:
                    t = trees(e.ctx, os_)
                    # does the position / range derive from the length of *other (arg 2 of the top body)?
                    uses_other = False
                    for nd in walk(t):
                        if nd[0] == "call" and nd[1][1] == "len" and nd[2]:
                            for pl in places_in(nd[2][0]):
                                if pl[1] == b.key and pl[2] == ("arg", 2):
                                    uses_other = True
                    if uses_other:
                        # the indexed collection must be `other` itself, otherwise its length is unrelated
                        recv = trees(e.ctx, e.argorigins[0])
                        on_other = any(pl[1] == b.key and pl[2] == ("arg", 2) for pl in places_in(recv))
                        if not on_other:
                            sites.append((e, show(t)[:80], show(recv)[:60]))
        n += 1
        R.saw(b)
        R.check("R-ONTO", b.label(), not sites,
                construct="no positional access bounded by the target's previous length",
                where=sites[0][0].where() if sites else b.where(),
                detail="; ".join("%s indexed by %s" % (r, t) for (_, t, r) in sites) or "none")
    R.floor("R-ONTO", "clone_onto impls scanned for target-length-dependent panics", n, 20)


ZIP_DEFAULT_NAMES = ("clone_onto", "into_owned", "push", "extend", "clone_from")


def r_zip_byref(F, R, cat=None, names=ZIP_DEFAULT_NAMES):
    """`it.by_ref().zip(other)` polls `it` first: when `other` runs out, one element of `it` has
    already been taken and is lost for whatever consumes `it` afterwards.  Flag a zip whose *left*
    operand is a by_ref of an iterator that is used again later."""
    from core import all_ctxs
    from expr import operand_tree
    n = 0
    for top in F.bodies.values():
        if top.kind not in ("AssocFn", "Fn") or top.in_tests() or top.derived:
            continue
        if top.name not in names:
            continue
        for ctx in all_ctxs(F, top):
            b = ctx.body
            for (bi, t) in b.calls():
                if callee_tag(t.get("callee")) != ("Iterator", "zip") or len(t["args"]) != 2:
                    continue
                n += 1
                left = operand_tree(ctx, t["args"][0])
                by = None
                if left[0] == "call" and left[1] == ("Iterator", "by_ref") and left[2]:
                    by = left[2][0]
                if by is None:
                    continue
                # is the underlying iterator used again after the zip?
                later = False
                for (qbi, qt) in b.calls():
                    if qbi == bi or qbi not in _reach(b, bi):
                        continue
                    for a in qt["args"]:
                        at = operand_tree(ctx, a)
                        if at == by or (at[0] == "call" and at[2] and at[2][0] == by and at[1] != ("Iterator", "by_ref")):
                            later = True
                R.saw(top)
                R.check("R-ZIP", top.label(), not later,
                        construct="by_ref() iterator on the left of zip and consumed again afterwards",
                        where="%s:%s" % (b.file, t["line"]),
                        detail="zip polls its left side first: when the right side ends one element of %s is lost" % show(by)[:60])
    R.extra["zip_sites_inspected"] = n


def _reach(b, bi):
    from expr import reach_strict
    return reach_strict(b, bi)


WHILE_ADAPTORS = ("take_while", "map_while", "skip_while")


def r_byref_while(F, R, cat=None):
    """`it.by_ref().take_while(p)` / `map_while(f)` / `skip_while(p)` has to *take* the first
    element its closure rejects in order to look at it, and drops it: whatever consumes `it`
    afterwards continues one element late.  Flag such an adaptor on a by_ref (or `&mut`) of an
    iterator that some later call consumes again.  (`peekable` + `next_if`, or a loop that keeps
    the rejected element, are the sound forms.)"""
    from core import all_ctxs
    from expr import operand_tree, nobb
    n = 0
    for top in F.bodies.values():
        if top.kind not in ("AssocFn", "Fn") or top.in_tests() or top.derived:
            continue
        for ctx in all_ctxs(F, top):
            b = ctx.body
            for (bi, t) in b.calls():
                tag = callee_tag(t.get("callee"))
                if tag[1] not in WHILE_ADAPTORS or tag[0] != "Iterator" or len(t["args"]) != 2:
                    continue
                n += 1
                left = nobb(operand_tree(ctx, t["args"][0]))
                by = None
                if left[0] == "call" and left[1] == ("Iterator", "by_ref") and left[2]:
                    by = left[2][0]
                elif t["args"][0]["k"] in ("move", "copy") and b.locals[t["args"][0]["place"]["l"]]["ty"].get("mut") and \
                        b.locals[t["args"][0]["place"]["l"]]["ty"].get("ref"):
                    by = left  # `(&mut it).take_while(..)`
                if by is None:
                    continue
                later = None
                for (qbi, qt) in b.calls():
                    if qbi == bi or qbi not in _reach(b, bi):
                        continue
                    if callee_tag(qt.get("callee"))[1] in ("drop", "size_hint", "len"):
                        continue
                    for a in qt["args"]:
                        at = nobb(operand_tree(ctx, a))
                        if at == by or (at[0] == "call" and at[2] and at[2][0] == by and at[1] != ("Iterator", "by_ref")):
                            later = qt
                if later is None:
                    continue
                R.saw(top)
                R.check("R-BYREF", top.label(), False,
                        construct="%s on a by_ref() iterator that is consumed again afterwards" % tag[1],
                        where="%s:%s" % (b.file, t["line"]),
                        detail="%s takes the first element its closure rejects and drops it; %s is consumed again at line %s, "
                               "one element late" % (tag[1], show(by)[:50], later.get("line")))
    R.info("R-BYREF: %d take_while / map_while / skip_while adaptors inspected" % n)
