"""Builds (and caches) the fact base for the *current* working tree of a crate directory.

The cache key is the SHA-256 over every file of the crate directory (outside target/ and .git/),
the driver binary and the flags, so a changed tree can never read stale facts."""
import fcntl
import hashlib
import os
import shutil
import subprocess
import sys
import tempfile
import time

VERIF = os.path.dirname(os.path.dirname(os.path.abspath(__file__)))
DRIVER = os.path.join(VERIF, "driver", "target", "debug", "fcfacts")
CACHE = os.path.join(VERIF, ".cache")
RUSTFLAGS = "-Zmir-opt-level=0 -Coverflow-checks=on -Cdebug-assertions=on -Awarnings"

CONFIGS = {
    "default": [],
    "nodefault": ["--no-default-features"],
}


def tree_hash(crate_dir, extra=""):
    h = hashlib.sha256()
    for root, dirs, files in os.walk(crate_dir):
        dirs[:] = sorted(d for d in dirs if d not in ("target", ".git"))
        for fn in sorted(files):
            p = os.path.join(root, fn)
            rel = os.path.relpath(p, crate_dir)
            h.update(rel.encode())
            h.update(b"\0")
            try:
                with open(p, "rb") as f:
                    h.update(f.read())
            except OSError:
                h.update(b"<unreadable>")
            h.update(b"\0")
    with open(DRIVER, "rb") as f:
        h.update(hashlib.sha256(f.read()).digest())
    h.update(RUSTFLAGS.encode())
    h.update(extra.encode())
    return h.hexdigest()


def sysroot_lib():
    out = subprocess.run(["rustc", "+nightly", "--print", "sysroot"], capture_output=True, text=True)
    return os.path.join(out.stdout.strip(), "lib")


class InfraError(Exception):
    pass


def get_facts(crate_dir="/repo", config="default", crate_name="flatcontainer", extra_env=None):
    """returns path of the facts JSON for the current tree (runs the driver if not cached)"""
    if not os.path.exists(DRIVER):
        raise InfraError("driver not built: run MANIFEST.setup_cmd (%s missing)" % DRIVER)
    os.makedirs(CACHE, exist_ok=True)
    key = tree_hash(crate_dir, config + "|" + crate_name)
    dest = os.path.join(CACHE, "facts-%s-%s.json" % (config, key[:32]))
    nocache = os.environ.get("VERIF_NOCACHE") == "1"
    lock = open(os.path.join(CACHE, "lock-%s-%s" % (config, key[:16])), "w")
    fcntl.flock(lock, fcntl.LOCK_EX)
    try:
        if os.path.exists(dest) and not nocache:
            try:
                os.utime(dest, None)
            except OSError:
                pass
            return dest
        tdir = tempfile.mkdtemp(prefix="fc-target.")
        odir = tempfile.mkdtemp(prefix="fc-out.")
        try:
            env = dict(os.environ)
            env["LD_LIBRARY_PATH"] = sysroot_lib() + ":" + env.get("LD_LIBRARY_PATH", "")
            env["RUSTFLAGS"] = RUSTFLAGS
            env["RUSTC_WORKSPACE_WRAPPER"] = DRIVER
            env["FCFACTS_OUT"] = odir
            env["FCFACTS_CRATES"] = crate_name
            env["CARGO_TARGET_DIR"] = tdir
            env["CARGO_NET_OFFLINE"] = "true"
            env.pop("RUSTC_WRAPPER", None)
            if extra_env:
                env.update(extra_env)
            cmd = ["cargo", "+nightly", "check", "--offline", "--lib"] + CONFIGS[config]
            t0 = time.time()
            p = subprocess.run(cmd, cwd=crate_dir, env=env, capture_output=True, text=True)
            if p.returncode != 0:
                raise InfraError("cargo check through the fact extractor failed in %s (%s):\n%s"
                                 % (crate_dir, config, p.stderr[-4000:]))
            src = os.path.join(odir, crate_name + ".json")
            if not os.path.exists(src):
                raise InfraError("fact file was not produced (driver skipped?)\n" + p.stderr[-2000:])
            shutil.move(src, dest + ".tmp")
            os.replace(dest + ".tmp", dest)
            sys.stderr.write("[facts] %s %s built in %.1fs\n" % (crate_dir, config, time.time() - t0))
        finally:
            shutil.rmtree(tdir, ignore_errors=True)
            shutil.rmtree(odir, ignore_errors=True)
        prune()
        return dest
    finally:
        fcntl.flock(lock, fcntl.LOCK_UN)
        lock.close()


def prune(keep=40):
    """least-recently-used eviction (a cache hit touches the file); stale lock files go too"""
    def mtime(p):
        try:
            return os.path.getmtime(p)
        except OSError:
            return 0.0
    fs = [os.path.join(CACHE, f) for f in os.listdir(CACHE) if f.startswith("facts-")]
    fs.sort(key=mtime, reverse=True)
    for p in fs[keep:]:
        try:
            os.remove(p)
        except OSError:
            pass
    now = time.time()
    for f in os.listdir(CACHE):
        if f.startswith("lock-"):
            p = os.path.join(CACHE, f)
            try:
                if now - os.path.getmtime(p) > 3600:
                    os.remove(p)
            except OSError:
                pass
