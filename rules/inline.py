"""MIR-level inlining of local helper functions the effect tables do not know.

A maintainer extracting a private helper (or inlining one) must not change any verdict, so every
analysis runs on bodies in which calls to local, non-recursive, statically resolved helper
functions (free fns, inherent methods, resolved trait methods) that the callee tables classify as
`unclassified` are replaced by the callee's blocks.  Table-classified callees (Vec::push,
Region::clear, Stride::index, ...) stay calls: they are the assume/guarantee leaves."""
import copy

from core import classify, callee_tag, TARGET_ARG

MAX_DEPTH = 3
MAX_BLOCKS = 400


def _local_from_impl(facts, ce):
    """`x.into()` with a crate-local `impl From<A> for B`: the blanket Into impl calls exactly
    that `from`"""
    if (ce.get("trait") or "") != "std::convert::Into" or ce.get("name") != "into":
        return None
    args = ce.get("args") or []
    if len(args) != 2:
        return None
    idx = getattr(facts, "_from_impls", None)
    if idx is None:
        idx = {}
        for ob in facts.raw_bodies.values():
            ow = ob.get("owner") or {}
            if ob["kind"] == "AssocFn" and ob["name"] == "from" and ow.get("trait") == "std::convert::From" and \
                    len(ow.get("trait_args") or []) == 2:
                idx[tuple(ow["trait_args"])] = ob
        facts._from_impls = idx
    return idx.get((args[1], args[0]))


def inlinable_target(facts, ce):
    if ce is not None and not ce.get("local"):
        fb = _local_from_impl(facts, ce)
        if fb is not None:
            return fb
        if (ce.get("trait") or "") == "std::convert::From" and ce.get("name") == "from" and (ce.get("resolved") or {}).get("local"):
            fb = facts.raw_bodies.get(ce["resolved"]["key"])
            if fb is not None:
                return fb
    if ce is None or not ce.get("local"):
        return None
    if ce.get("kind") not in ("Fn", "AssocFn"):
        return None
    if (ce.get("trait") or "") == "std::convert::From" and ce.get("name") == "from":
        # a crate-local conversion (`Span::from(pair)`): what it builds is in its body, the
        # generic "conversions preserve the value" reading does not apply to a local impl
        res = ce.get("resolved") or {}
        fb = facts.raw_bodies.get(res.get("key")) if res.get("local") else facts.raw_bodies.get(ce.get("key"))
        if fb is not None and (fb.get("owner") or {}).get("trait") == "std::convert::From":
            return fb
    if classify(ce) != "unclassified" or callee_tag(ce) in TARGET_ARG:
        return None
    res = ce.get("resolved")
    if res and res.get("local"):
        return facts.raw_bodies.get(res["key"])
    if ce.get("trait"):
        # trait method on an unresolved receiver: only a provided default exists as a body, and
        # implementations may override it -> not inlined here (see core.candidates)
        b = facts.raw_bodies.get(ce["key"])
        if b is not None and b["owner"].get("in_trait"):
            # safe only if no local impl overrides the provided method
            name = ce["name"]
            tr = ce["trait"].split("::")[-1]
            for ob in facts.raw_bodies.values():
                if ob["kind"] == "AssocFn" and ob["name"] == name and \
                        (ob["owner"].get("trait") or "").split("::")[-1] == tr and ob is not b:
                    return None
            return b
        return None
    return facts.raw_bodies.get(ce["key"])


def remap_place(pl, lmap):
    out = {"l": lmap(pl["l"]), "p": []}
    for e in pl["p"]:
        if e["k"] == "index":
            e2 = dict(e)
            e2["local"] = lmap(e["local"])
            out["p"].append(e2)
        else:
            out["p"].append(e)
    return out


def remap_operand(op, lmap):
    if op["k"] in ("copy", "move"):
        return {"k": op["k"], "place": remap_place(op["place"], lmap)}
    return op


def remap_rvalue(rv, lmap):
    k = rv["k"]
    out = dict(rv)
    if k in ("use", "cast", "repeat"):
        out["op"] = remap_operand(rv["op"], lmap)
    elif k in ("ref", "rawptr", "discr"):
        out["place"] = remap_place(rv["place"], lmap)
    elif k == "binop":
        out["a"] = remap_operand(rv["a"], lmap)
        out["b"] = remap_operand(rv["b"], lmap)
    elif k == "unop":
        out["a"] = remap_operand(rv["a"], lmap)
    elif k == "aggregate":
        out["ops"] = [remap_operand(o, lmap) for o in rv["ops"]]
    return out


def remap_term(t, lmap, bmap):
    out = dict(t)
    k = t["k"]

    def bb(x):
        return None if x is None else bmap(x)
    if k == "goto":
        out["target"] = bb(t["target"])
    elif k == "switch":
        out["discr"] = remap_operand(t["discr"], lmap)
        out["arms"] = [[v, bb(b)] for (v, b) in t["arms"]]
        out["otherwise"] = bb(t["otherwise"])
    elif k == "drop":
        out["place"] = remap_place(t["place"], lmap)
        out["target"] = bb(t["target"])
        out["unwind"] = bb(t.get("unwind"))
    elif k == "call":
        out["args"] = [remap_operand(a, lmap) for a in t["args"]]
        out["dest"] = remap_place(t["dest"], lmap)
        out["target"] = bb(t["target"])
        out["unwind"] = bb(t.get("unwind"))
        if "func" in t:
            out["func"] = remap_operand(t["func"], lmap)
    elif k == "assert":
        out["cond"] = remap_operand(t["cond"], lmap)
        out["target"] = bb(t["target"])
        out["unwind"] = bb(t.get("unwind"))
        for f in ("a", "b", "len", "index"):
            if f in t and isinstance(t[f], dict):
                out[f] = remap_operand(t[f], lmap)
    return out


def specialise_default(facts, tgt, ce):
    """A provided trait method called on a receiver of known local type (`self.tiered_len()` in an
    inherent method of IndexList, Tiered being a private helper trait): inside the provided body
    the calls of the trait's other methods are on `Self`; with the receiver's type known they are
    the methods of that type's impl.  Returns a copy of the body in which those calls are
    resolved (under its own key), or the body itself when there is nothing to do."""
    if not (tgt.get("owner") or {}).get("in_trait"):
        return tgt
    st = ce.get("self_ty") or {}
    adt = st.get("adt")
    if not adt:
        return tgt
    trait = (tgt["owner"]["in_trait"] or "").split("::")[-1]
    changed = False
    blocks = []
    for b in tgt["blocks"]:
        t = b["term"]
        c2 = t.get("callee") if t["k"] == "call" else None
        if c2 and c2.get("local") and c2.get("kind") == "AssocFn" and not c2.get("resolved") and \
                (c2.get("trait") or "").split("::")[-1] == trait and \
                (c2.get("self_ty") or {}).get("k") == "param" and (c2.get("self_ty") or {}).get("s") == "Self":
            impl_body = None
            for ob in facts.raw_bodies.values():
                ow = ob.get("owner") or {}
                if ob["kind"] == "AssocFn" and ob["name"] == c2["name"] and \
                        (ow.get("trait") or "").split("::")[-1] == trait and \
                        (ow.get("impl_self") or {}).get("adt") == adt:
                    impl_body = ob
            nc = dict(c2)
            nc["self_ty"] = st
            if impl_body is not None:
                nc["resolved"] = {"local": True, "key": impl_body["key"]}
            nt = dict(t)
            nt["callee"] = nc
            nb = dict(b)
            nb["term"] = nt
            blocks.append(nb)
            changed = True
        else:
            blocks.append(b)
    # closures created in the provided body call the trait's methods on `Self` as well: they get
    # specialised copies (registered as bodies of their own) and the aggregates point at those
    for bi_, b in enumerate(blocks):
        new_stmts = None
        for si_, st_ in enumerate(b["stmts"]):
            rv = st_.get("rv") if st_["k"] == "assign" else None
            if not (rv and rv["k"] == "aggregate" and rv.get("agg") == "closure"):
                continue
            cb = facts.raw_bodies.get(rv["closure"])
            if cb is None or "@" in rv["closure"]:
                continue
            fake_owner = dict(cb, owner=dict(cb.get("owner") or {}, in_trait=tgt["owner"]["in_trait"]))
            sc = specialise_default(facts, fake_owner, ce)
            if sc is fake_owner:
                continue
            sc = dict(sc)
            sc["owner"] = cb.get("owner")
            facts.raw_bodies[sc["key"]] = sc
            if new_stmts is None:
                new_stmts = list(b["stmts"])
            nrv = dict(rv)
            nrv["closure"] = sc["key"]
            nst = dict(st_)
            nst["rv"] = nrv
            new_stmts[si_] = nst
            changed = True
        if new_stmts is not None:
            nb = dict(b)
            nb["stmts"] = new_stmts
            blocks[bi_] = nb
    if not changed:
        return tgt
    out = dict(tgt)
    out["blocks"] = blocks
    out["key"] = tgt["key"] + "@" + adt
    return out


def inline_body(facts, d, memo, stack=(), depth=0):
    """returns a (possibly new) body dict with inlinable helper calls spliced in"""
    key = d["key"]
    if key in memo:
        return memo[key]
    if depth > MAX_DEPTH:
        return d
    blocks = d["blocks"]
    # quick scan
    sites = []
    for i, b in enumerate(blocks):
        t = b["term"]
        if t["k"] == "call" and not b["cleanup"] and t["target"] is not None:
            tgt = inlinable_target(facts, t.get("callee"))
            if tgt is not None and tgt["key"] != key and tgt["key"] not in stack and \
                    len(tgt["blocks"]) <= MAX_BLOCKS and len(t["args"]) == tgt["arg_count"]:
                sites.append((i, tgt))
    if not sites:
        memo[key] = d
        return d
    new = dict(d)
    new_blocks = [dict(b) for b in blocks]
    new_locals = list(d["locals"])
    inlined = []
    for (i, tgt) in sites:
        tgt = specialise_default(facts, tgt, new_blocks[i]["term"].get("callee") or {})
        callee = inline_body(facts, tgt, memo, stack + (key,), depth + 1)
        L0 = len(new_locals)
        B0 = len(new_blocks)
        t = new_blocks[i]["term"]
        dest = t["dest"]
        direct_ret = not dest["p"]

        def lmap(l, L0=L0, dest=dest, direct_ret=direct_ret):
            if l == 0 and direct_ret:
                return dest["l"]
            return L0 + l

        def bmap(b, B0=B0):
            return B0 + b
        new_locals.extend(callee["locals"])
        # argument binding
        stmts = list(new_blocks[i]["stmts"])
        for k, a in enumerate(t["args"]):
            stmts.append({"k": "assign", "place": {"l": L0 + k + 1, "p": []},
                          "rv": {"k": "use", "op": a}, "line": t.get("line"), "exp": t.get("exp", False),
                          "inl": "arg"})
        target = t["target"]
        for cb in callee["blocks"]:
            nb = {"cleanup": cb["cleanup"], "stmts": [], "term": None}
            for st in cb["stmts"]:
                st2 = dict(st)
                st2["place"] = remap_place(st["place"], lmap)
                if st["k"] == "assign":
                    st2["rv"] = remap_rvalue(st["rv"], lmap)
                nb["stmts"].append(st2)
            ct = cb["term"]
            if ct["k"] == "return":
                if not direct_ret:
                    nb["stmts"].append({"k": "assign", "place": dest,
                                        "rv": {"k": "use", "op": {"k": "move", "place": {"l": L0, "p": []}}},
                                        "line": ct.get("line"), "exp": False, "inl": "ret"})
                nb["term"] = {"k": "goto", "target": target, "line": ct.get("line"), "exp": ct.get("exp", False)}
            else:
                nb["term"] = remap_term(ct, lmap, bmap)
            new_blocks.append(nb)
        new_blocks[i] = {"cleanup": new_blocks[i]["cleanup"], "stmts": stmts,
                         "term": {"k": "goto", "target": B0, "line": t.get("line"), "exp": t.get("exp", False),
                                  "inlined_call": {"callee": t["callee"]["path"], "line": t.get("line")}}}
        inlined.append(tgt["path"])
        inlined.extend(x for x in callee.get("inlined", []) if x not in inlined)
    new["blocks"] = new_blocks
    new["locals"] = new_locals
    new["inlined"] = inlined + list(d.get("inlined", []))
    memo[key] = new
    return new


def thread_jumps(d):
    """Jump threading for the pattern `let x = if c { f() } else { None }; match x {..}`:
    when a predecessor of a switch block has just assigned the switched local a value of known
    variant (or a bool constant), its edge is redirected to the arm that value selects.  Dominance
    based facts then see that the other arm is only reachable over the path that computed f()."""
    blocks = d["blocks"]
    changed = False
    preds = {}

    def through_empty(x, limit=6):
        """follow a chain of statement-free goto blocks"""
        while limit > 0 and not blocks[x]["stmts"] and blocks[x]["term"]["k"] == "goto" and \
                blocks[x]["term"]["target"] != x:
            x = blocks[x]["term"]["target"]
            limit -= 1
        return x
    call_preds = {}
    for i, b in enumerate(blocks):
        t = b["term"]
        if t["k"] == "goto":
            tgt = t["target"]
            preds.setdefault(tgt, []).append(i)
            end = through_empty(tgt)
            if end != tgt:
                preds.setdefault(end, []).append(i)
        elif t["k"] == "call" and t.get("target") is not None and not b["cleanup"]:
            # `?`: the value built by FromResidual::from_residual is the failing variant
            ce = t.get("callee") or {}
            if ce.get("name") == "from_residual" and (ce.get("trait") or "").endswith("FromResidual") and not t["dest"]["p"]:
                end = through_empty(t["target"])
                call_preds.setdefault(end, []).append(i)
    new_blocks = None
    for j, J in enumerate(blocks):
        t = J["term"]
        if t["k"] != "switch" or J["cleanup"]:
            continue
        disc = t["discr"]
        if disc["k"] not in ("copy", "move") or disc["place"]["p"]:
            continue
        dl = disc["place"]["l"]
        local = None
        mode = None
        if not J["stmts"]:
            local, mode = dl, "bool"
        elif len(J["stmts"]) == 1 and J["stmts"][0]["k"] == "assign" and J["stmts"][0]["place"] == {"l": dl, "p": []} \
                and J["stmts"][0]["rv"]["k"] == "discr" and not J["stmts"][0]["rv"]["place"]["p"]:
            local, mode = J["stmts"][0]["rv"]["place"]["l"], "enum"
        if local is None:
            continue
        if mode == "enum":
            for pi in call_preds.get(j, []):
                P = blocks[pi] if new_blocks is None else new_blocks[pi]
                pt = P["term"]
                if pt["dest"]["l"] != local:
                    continue
                ty = d["locals"][local]["ty"]["s"]
                val = "1" if ("Result<" in ty or "ControlFlow<" in ty) else ("0" if "Option<" in ty else None)
                if val is None:
                    continue
                target = None
                for (v, bb) in t["arms"]:
                    if v == val:
                        target = bb
                if target is None:
                    target = t["otherwise"]
                if new_blocks is None:
                    new_blocks = [dict(b) for b in blocks]
                nt = dict(new_blocks[pi]["term"])
                nt["target"] = target
                nt["threaded"] = True
                new_blocks[pi] = dict(new_blocks[pi])
                new_blocks[pi]["term"] = nt
                changed = True
        for pi in preds.get(j, []):
            P = blocks[pi] if new_blocks is None else new_blocks[pi]
            val = None
            for st in reversed(P["stmts"]):
                if st["k"] == "assign" and st["place"]["l"] == local:
                    if st["place"]["p"]:
                        break
                    rv = st["rv"]
                    if mode == "enum" and rv["k"] == "aggregate" and rv.get("agg") == "adt":
                        val = str(rv["variant"])
                    elif mode == "bool" and rv["k"] == "use" and rv["op"]["k"] == "const" and rv["op"].get("int") in ("0", "1"):
                        val = rv["op"]["int"]
                    break
            if val is None:
                continue
            target = None
            for (v, bb) in t["arms"]:
                if v == val:
                    target = bb
            if target is None:
                target = t["otherwise"]
            if new_blocks is None:
                new_blocks = [dict(b) for b in blocks]
            nt = dict(new_blocks[pi]["term"])
            nt["target"] = target
            nt["threaded"] = True
            new_blocks[pi] = dict(new_blocks[pi])
            new_blocks[pi]["term"] = nt
            changed = True
    if not changed:
        return d
    nd = dict(d)
    nd["blocks"] = new_blocks
    return nd


def _single_defs(blocks):
    """local -> (bb, si, stmt) for locals assigned exactly once, by a plain statement"""
    count = {}
    where = {}
    for bi, b in enumerate(blocks):
        for si, st in enumerate(b["stmts"]):
            if st["k"] == "assign" and not st["place"]["p"]:
                l = st["place"]["l"]
                count[l] = count.get(l, 0) + 1
                where[l] = (bi, si, st)
        t = b["term"]
        if t["k"] == "call" and not t["dest"]["p"]:
            l = t["dest"]["l"]
            count[l] = count.get(l, 0) + 2
    return {l: where[l] for l, c in count.items() if c == 1}


def inline_closure_calls(facts, d, memo, rounds=2):
    """A helper that takes a callback (`fn with(&mut self, f: impl FnOnce(&mut S))`) calls it through
    `FnOnce::call_once(f, (args,))`.  Once the helper is inlined into its caller the callee operand
    is the caller's own closure aggregate, so the closure body can be spliced in as well: a
    higher-order private helper then changes no verdict either."""
    for _ in range(rounds):
        blocks = d["blocks"]
        defs = _single_defs(blocks)

        def closure_of(op, depth=0):
            if op["k"] not in ("move", "copy") or op["place"]["p"] or depth > 6:
                return None
            ent = defs.get(op["place"]["l"])
            if ent is None:
                return None
            (bi, si, st) = ent
            rv = st["rv"]
            if rv["k"] == "aggregate" and rv.get("agg") == "closure":
                return (bi, si, rv["closure"])
            if rv["k"] in ("use", "cast"):
                return closure_of(rv["op"], depth + 1)
            if rv["k"] == "ref" and not rv["place"]["p"]:
                return closure_of({"k": "copy", "place": rv["place"]}, depth + 1)
            return None
        def fnitem_of(op, depth=0):
            """the function item a callback operand denotes (`region: impl FnOnce() -> R` called with
            `R::default`), through single-definition copies"""
            if op["k"] == "const":
                return op.get("fn")
            if op["k"] not in ("move", "copy") or op["place"]["p"] or depth > 6:
                return None
            ent = defs.get(op["place"]["l"])
            if ent is None:
                return None
            rv = ent[2]["rv"]
            if rv["k"] in ("use", "cast"):
                return fnitem_of(rv["op"], depth + 1)
            if rv["k"] == "ref" and not rv["place"]["p"]:
                return fnitem_of({"k": "copy", "place": rv["place"]}, depth + 1)
            return None
        sites = []
        rewrote = False
        for i, b in enumerate(blocks):
            t = b["term"]
            if t["k"] != "call" or b["cleanup"] or t["target"] is None or len(t["args"]) != 2:
                continue
            ce = t.get("callee") or {}
            if ce.get("name") not in ("call_once", "call_mut", "call") or \
                    (ce.get("trait") or "").split("::")[-1] not in ("FnOnce", "FnMut", "Fn"):
                continue
            c = closure_of(t["args"][0])
            if c is None:
                fi = fnitem_of(t["args"][0])
                tup = t["args"][1]
                ent = defs.get(tup["place"]["l"]) if tup["k"] in ("move", "copy") and not tup["place"]["p"] else None
                if fi is not None and ((ent is not None and ent[2]["rv"]["k"] == "aggregate" and
                                        ent[2]["rv"].get("agg") == "tuple") or tup["k"] == "const"):
                    # a plain function used as the callback: call it directly
                    nt = dict(t)
                    nt["callee"] = fi
                    nt["args"] = list(ent[2]["rv"]["ops"]) if ent is not None else []
                    nb = dict(b)
                    nb["term"] = nt
                    if not rewrote:
                        d = dict(d)
                        d["blocks"] = [dict(x) for x in blocks]
                        blocks = d["blocks"]
                        rewrote = True
                    blocks[i] = nb
                continue
            raw = facts.raw_bodies.get(c[2])
            if raw is None or len(raw["blocks"]) > MAX_BLOCKS:
                continue
            sites.append((i, c, raw))
        if not sites:
            return d
        new = dict(d)
        new_blocks = [dict(b) for b in blocks]
        new_locals = list(d["locals"])
        for (i, (abi, asi, ckey), raw) in sites:
            callee = inline_body(facts, raw, memo, (d["key"],), 1)
            L0 = len(new_locals)
            B0 = len(new_blocks)
            t = new_blocks[i]["term"]
            dest = t["dest"]
            direct_ret = not dest["p"]

            def lmap(l, L0=L0, dest=dest, direct_ret=direct_ret):
                if l == 0 and direct_ret:
                    return dest["l"]
                return L0 + l

            def bmap(b, B0=B0):
                return B0 + b
            new_locals.extend(callee["locals"])
            stmts = list(new_blocks[i]["stmts"])
            line = t.get("line")
            stmts.append({"k": "assign", "place": {"l": L0 + 1, "p": []}, "rv": {"k": "use", "op": t["args"][0]},
                          "line": line, "exp": False, "inl": "arg"})
            tup = t["args"][1]
            nparams = callee["arg_count"] - 1
            ent = defs.get(tup["place"]["l"]) if tup["k"] in ("move", "copy") and not tup["place"]["p"] else None
            for k in range(nparams):
                if ent is not None and ent[2]["rv"]["k"] == "aggregate" and ent[2]["rv"].get("agg") == "tuple" and \
                        k < len(ent[2]["rv"]["ops"]):
                    src = ent[2]["rv"]["ops"][k]
                elif tup["k"] in ("move", "copy"):
                    src = {"k": "copy", "place": {"l": tup["place"]["l"],
                                                  "p": list(tup["place"]["p"]) + [{"k": "field", "i": k, "name": str(k)}]}}
                else:
                    src = tup
                stmts.append({"k": "assign", "place": {"l": L0 + 2 + k, "p": []}, "rv": {"k": "use", "op": src},
                              "line": line, "exp": False, "inl": "arg"})
            target = t["target"]
            for cb in callee["blocks"]:
                nb = {"cleanup": cb["cleanup"], "stmts": [], "term": None}
                for st in cb["stmts"]:
                    st2 = dict(st)
                    st2["place"] = remap_place(st["place"], lmap)
                    if st["k"] == "assign":
                        st2["rv"] = remap_rvalue(st["rv"], lmap)
                    nb["stmts"].append(st2)
                ct = cb["term"]
                if ct["k"] == "return":
                    if not direct_ret:
                        nb["stmts"].append({"k": "assign", "place": dest,
                                            "rv": {"k": "use", "op": {"k": "move", "place": {"l": L0, "p": []}}},
                                            "line": ct.get("line"), "exp": False, "inl": "ret"})
                    nb["term"] = {"k": "goto", "target": target, "line": ct.get("line"), "exp": ct.get("exp", False)}
                else:
                    nb["term"] = remap_term(ct, lmap, bmap)
                new_blocks.append(nb)
            new_blocks[i] = {"cleanup": new_blocks[i]["cleanup"], "stmts": stmts,
                             "term": {"k": "goto", "target": B0, "line": line, "exp": t.get("exp", False),
                                      "inlined_call": {"callee": "closure " + ckey, "line": line}}}
            # the aggregate stays (its upvars are read through it) but is no longer a closure that
            # some consumer may or may not run
            ab = dict(new_blocks[abi])
            ab["stmts"] = list(ab["stmts"])
            st = dict(ab["stmts"][asi])
            rv = dict(st["rv"])
            rv["spliced"] = True
            st["rv"] = rv
            ab["stmts"][asi] = st
            new_blocks[abi] = ab
        new["blocks"] = new_blocks
        new["locals"] = new_locals
        new["inlined"] = list(d.get("inlined", [])) + ["closure " + c[2] for (_, c, _) in sites]
        d = new
    return d


def inline_all(facts):
    memo = {}
    out = {}
    for key, d in list(facts.raw_bodies.items()):
        out[key] = thread_jumps(inline_closure_calls(facts, inline_body(facts, d, memo), memo))
    # closures of provided trait methods that were specialised for a receiver type on the way
    # (specialise_default registers them in raw_bodies under their own keys)
    for _round in range(4):
        new = [k for k in facts.raw_bodies if k not in out]
        if not new:
            break
        for key in new:
            out[key] = thread_jumps(inline_closure_calls(facts, inline_body(facts, facts.raw_bodies[key], memo), memo))
    return out
