"""C06: Huffman container — the structural clauses (refusal of unknown symbols, what the code is
built from, arm agreement).  The numeric clauses are not decided (see DESIGN.md)."""
from core import Ctx, callee_tag, closure_sites, base_places, all_ctxs
from model import Catalogue, self_field_targets, constructed
from expr import trees, tree, show, operand_tree, facts_at, reach_strict, place_tree
from r_bracket import walk
from r_alloc import arg_projection_fields

HC = "impls::huffman_container::HuffmanContainer"


def r_refusal(F, R):
    bodies = [b for b in F.bodies.values() if b.trait == "Iterator" and b.name == "next" and
              (b.self_adt or "").endswith("encoder::Encoder")]
    R.floor("R-REFUSE", "Encoder::next", len(bodies), 1)
    for b in bodies:
        R.saw(b)
        ctx = Ctx(b)
        gets = [(bi, t) for (bi, t) in b.calls() if callee_tag(t.get("callee")) == ("BTreeMap", "get")
                and operand_tree(ctx, t["args"][0]) == ("place", b.key, ("arg", 1), ("f:encode",))]
        R.check("R-REFUSE", b.label(), len(gets) >= 1, construct="looks every symbol up in the code table",
                where=b.where(), detail="%d lookups" % len(gets), nontrivial=False)
        for (gbi, gt) in gets:
            key = operand_tree(ctx, gt["args"][1])
            from_symbols = any(nd[0] == "call" and nd[1] == ("Iterator", "next") and nd[2] and
                               nd[2][0] == ("place", b.key, ("arg", 1), ("f:symbols",)) for nd in walk(key))
            consumers = []
            for (bi, t) in b.calls():
                for a in t["args"]:
                    at = operand_tree(ctx, a)
                    if at[0] == "call" and at[1] == ("BTreeMap", "get") and at[4] == gbi and at[3] == ():
                        consumers.append(callee_tag(t.get("callee")))
            ok = bool(consumers) and all(c in (("Option", "unwrap"), ("Option", "expect")) for c in consumers)
            if not consumers:
                # matched directly: the None edge must diverge
                dest = gt["dest"]["l"]
                ok = none_edge_diverges(b, ctx, gbi)
            R.check("R-REFUSE", b.label(), ok and from_symbols,
                    construct="a symbol without a code is refused (panic), never given a substitute code",
                    where="%s:%s" % (b.file, gt["line"]),
                    detail="lookup key %s; lookup result consumed by %s" % (show(key)[:80], consumers))


def none_edge_diverges(b, ctx, gbi):
    for bi in sorted(b.live_blocks()):
        t = b.term(bi)
        if t["k"] == "switch":
            cond = operand_tree(ctx, t["discr"])
            if cond[0] == "discr" and cond[1][0] == "call" and cond[1][4] == gbi:
                for (v, tgt) in t["arms"]:
                    if v == "0":
                        return not b.can_return_avoiding((), frm=tgt)
                other = t["otherwise"]
                if all(v != "0" for (v, _) in t["arms"]):
                    return not b.can_return_avoiding((), frm=other)
    return False


def pinned_representation(F, R, rule):
    """The representation-dependent Huffman rules read the container's state as the pinned
    `inner: Result<(Huffman, Vec<u8>, usize), Vec<B>>` (raw = Err, encoded = Ok(code, bytes, bits)).
    A redesign of that private field (a private enum or struct in its place) is not a defect; the
    rules then have no anchor and say so instead of judging code they cannot read."""
    a = F.adts.get(HC)
    if not a or not a.get("variants"):
        return True
    fields = a["variants"][0]["fields"]
    inner = [f for f in fields if f["name"] == "inner"]
    if inner and inner[0]["ty"]["s"].replace(" ", "").startswith("std::result::Result<("):
        return True
    R.undecided_site(rule, HC.split("::")[-1], "the container's state is no longer the pinned Result<(code, bytes, bits), raw>: "
                     "fields %s; the raw / encoded arms are not recognised" % [(f["name"], f["ty"]["s"][:50]) for f in fields])
    return False


def _absent_key_insert(e):
    """`map.insert(k, v)` on the None arm of `map.get_mut(k)` / `map.get(k)` (or under
    `!map.contains_key(k)`): the first entry of a key that has none yet, not an overwrite --
    `if let Some(c) = map.get_mut(k) { *c += v } else { map.insert(k.clone(), v) }`"""
    from expr import nobb
    if e.tag != ("BTreeMap", "insert") or not e.term.get("args"):
        return False
    recv = nobb(operand_tree(e.ctx, e.term["args"][0]))
    for f in facts_at(e.ctx, e.bb):
        x = nobb(f[1]) if isinstance(f[1], tuple) else None
        if x is None or x[0] != "call" or not x[2] or nobb(x[2][0]) != recv:
            continue
        if f[0] == "variant" and x[1][1] in ("get_mut", "get") and \
                (f[2] == "0" or (isinstance(f[2], tuple) and f[2][0] == "not" and "1" in f[2][1])):
            return True
        if f[0] == "truthy" and x[1][1] == "contains_key" and f[2] is False:
            return True
    return False


def r_code_source(F, R, cat=None):
    """merge_regions builds the code from the arguments' `stats` only; the new container starts
    with empty stats and an empty encoded buffer"""
    cat = cat or Catalogue(F)
    bodies = [b for b in F.methods_of_trait("Region", "merge_regions") if b.self_adt == HC]
    R.floor("R-CODE-SOURCE", "HuffmanContainer::merge_regions", len(bodies), 1)
    if not pinned_representation(F, R, "R-CODE-SOURCE"):
        return
    for b in bodies:
        R.saw(b)
        ctx, effs = cat.effects(b)
        creates = [(bi, t) for (bi, t) in b.calls() if callee_tag(t.get("callee")) == ("Huffman", "create_from")]
        ok = len(creates) == 1
        why = []
        if ok:
            (cbi, ct) = creates[0]
            counts = ctx.org.operand(ct["args"][0])
            roots = {r for (r, p) in counts}
            # everything inserted into `counts` derives from the regions' stats (provenance of the
            # keys and increments: loops, flat_map, nested loops all look the same here)
            fed = set()
            fp_any = False
            for e in effs:
                if e.cls in ("append", "assign") and any(r in roots for (c, (r, p)) in e.targets or ()):
                    srcs_ = list(e.argorigins[1:]) if e.cls == "append" else [e.value or set()]
                    for os_ in srcs_:
                        fl, fp = arg_projection_fields(F, e.ctx, os_)
                        fed |= fl
                        fp_any = fp_any or fp
            srcs = fed
            ok = srcs == {"stats"}
            why.append("symbol counts are computed from the sources' %s" % sorted(srcs))
            # the counts of the source regions are *summed*: map writes with overwrite semantics
            # (insert / extend / collect) lose the counts of all but one region
            overw = [e for e in effs if e.cls == "append" and e.tag in (("BTreeMap", "insert"), ("Extend", "extend"),
                                                                        ("BTreeMap", "extend"), ("BTreeMap", "append"))
                     and any(r in roots for (c, (r, p)) in e.targets or ())]
            overw = [e for e in overw if not _absent_key_insert(e)]
            sums = [e for e in effs if e.cls == "assign" and any(r in roots and "[]" in p for (c, (r, p)) in e.targets or ())
                    and (trees(e.ctx, e.value)[0] == "bin" and trees(e.ctx, e.value)[1] == "Add")]
            # symbols new to the accumulated table must get an entry: an `entry(..)` that is only
            # `and_modify`-ed never inserts them
            entries = [e for e in effs if e.tag == ("BTreeMap", "entry") and any(r in roots for (c, (r, p)) in e.targets or ())]
            completed = [e for e in effs if e.tag[0] == "Entry" and e.tag[1] in ("or_insert", "or_default", "or_insert_with")]
            if entries and not completed:
                ok = False
                why.append("entry(..) on the counts is never completed by or_insert: symbols absent from the table are dropped")
            if overw:
                ok = False
                why.append("counts written with overwrite semantics: %s" % [("%s::%s" % e.tag, e.line) for e in overw])
            elif not sums:
                R.undecided_site("R-CODE-SOURCE", b.label(), "accumulation of the symbol counts not recognised")
            else:
                why.append("counts accumulate by += at lines %s" % sorted({e.line for e in sums}))
            # new container: stats empty, inner = Ok((code, empty sized buffer, 0))
            for (root, fm) in constructed(ctx, HC):
                from model import absval
                st = [absval(ctx, o) for o in fm.get("stats", ())]
                if not (st and all(v == ("empty",) for v in st)):
                    ok = False
                    why.append("stats starts as %s" % st)
                inn = [tree(ctx, o) for o in fm.get("inner", ())]
                good = False
                for t in inn:
                    if t[0] == "agg" and t[1] == "Result::Ok" and t[2] and t[2][0][0] == "agg" and len(t[2][0][2]) == 3:
                        code, buf, bits = t[2][0][2]
                        good = code[0] == "call" and code[1] == ("Huffman", "create_from") and \
                            buf[0] == "call" and buf[1] in (("Vec", "with_capacity"), ("Vec", "new"),
                                                            ("Default", "default")) and \
                            bits == ("const", "0")
                if not good:
                    ok = False
                    why.append("inner starts as %s" % [show(x)[:80] for x in inn])
        R.check("R-CODE-SOURCE", b.label(), ok,
                construct="code built from the summed stats of the arguments; container starts empty",
                where=b.where(), detail="; ".join(why))


def r_stats_and_arms(F, R, cat=None):
    """every canonical push counts each pushed symbol in stats, and feeds the same symbols to the
    encoder / the raw buffer"""
    cat = cat or Catalogue(F)
    n = 0
    if not pinned_representation(F, R, "R-HUFF-ARMS"):
        R.floor("R-HUFF-ARMS", "canonical HuffmanContainer push impls",
                len([b for b in F.methods_of_trait("Push", "push") if b.self_adt == HC]), 1)
        return
    for b in F.methods_of_trait("Push", "push"):
        if b.self_adt != HC:
            continue
        ctx, effs = cat.effects(b)
        fwd = any(e.tag == ("Push", "push") and (None, ()) in self_field_targets(e, ctx) for e in effs)
        if fwd and len(ctx.org.local(0)) <= 1:
            continue  # purely forwarding form (R-FORWARD)
        n += 1
        R.saw(b)
        item = ("place", b.key, ("arg", 2), ())
        # stats: entry(x.clone()).or_insert(0) += 1 for x over the whole item
        entries = [e for e in effs if e.tag == ("BTreeMap", "entry") and ("stats", ()) in self_field_targets(e, ctx)]
        # the look-up-first form of the same count: `if let Some(c) = stats.get_mut(x) { *c += 1 } else
        # { stats.insert(x.clone(), 1) }` -- the lookup is the entry site, the insert on its None arm
        # gives a new symbol its first count
        lookups = [e for e in effs if e.tag == ("BTreeMap", "get_mut") and ("stats", ()) in self_field_targets(e, ctx)]
        first_counts = [e for e in effs if e.tag == ("BTreeMap", "insert") and ("stats", ()) in self_field_targets(e, ctx)
                        and _absent_key_insert(e)]
        lookup_form_ok = True
        if lookups:
            from expr import nobb as _nobb
            lookup_form_ok = len(first_counts) == len(lookups) and all(
                len(e.term["args"]) == 3 and _nobb(operand_tree(e.ctx, e.term["args"][2])) == ("const", "1") for e in first_counts)
            entries = entries + lookups
        ok_stats = bool(entries) and lookup_form_ok
        for e in entries:
            keys = set()
            for o in e.argorigins[1]:
                keys |= base_places(e.ctx, o)
            from_item = all(r == ("arg", 2) or (r[0] == "call") for (c, (r, p)) in keys)
            if not from_item:
                # the symbols may come out of a private iterator wrapper built around the item
                from_item = all(derived_from_item(tree(c, o), b.key) for (c, o) in keys)
            ok_stats = ok_stats and from_item
        # the item must still hold its symbols when they are counted: `vec.append(&mut item)`
        # leaves the item empty, a count taken afterwards counts nothing
        drains = []
        for (dbi, dt) in b.calls():
            if callee_tag(dt.get("callee")) in (("Vec", "append"), ("VecDeque", "append")) and len(dt["args"]) == 2 and \
                    dt["args"][1]["k"] != "const":
                if any(r == ("arg", 2) for (r, p_) in ctx.org.operand(dt["args"][1])):
                    drains.append(dbi)
        for e in entries:
            if e.ctx is ctx and any(e.top_bb in reach_strict(b, dbi) for dbi in drains):
                ok_stats = False
        # a symbol seen for the first time starts at zero (`entry(x).or_insert(0) += 1`)
        for c2 in all_ctxs(F, b):
            for (bi2, t2) in c2.body.calls():
                if callee_tag(t2.get("callee"))[1] == "or_insert" and len(t2["args"]) == 2:
                    init = operand_tree(c2, t2["args"][1])
                    if init[0] == "const" and str(init[1]).lstrip("-").isdigit() and int(init[1]) != 0:
                        R.check("R-HUFF-ARMS", b.label(), False, construct="a new symbol's count starts at zero",
                                where="%s:%s" % (c2.body.file, t2["line"]),
                                detail="or_insert(%s) followed by += 1 counts the first occurrence %d times" % (init[1], int(init[1]) + 1))
        incs = [e for e in effs if e.cls == "assign" and any(f == "stats" for (f, _) in self_field_targets(e, ctx))]
        ok_inc = len(incs) == len(entries) and all(
            is_plus_one(trees(e.ctx, e.value)) for e in incs)
        # symbols handed to push_symbols / the raw buffer derive from the item
        sinks = []
        sink_sites = []  # (top-level block, symbol stream tree)
        for (bi, t_) in b.calls():
            if callee_tag(t_.get("callee")) == ("Huffman", "encode") and len(t_["args"]) >= 3:
                sym = operand_tree(ctx, t_["args"][2])
                sinks.append(("encoded", derived_from_item(sym, b.key), show(sym)[:60]))
                sink_sites.append((bi, sym))
        for o in ctx.org.local(0):
            t = tree(ctx, o)
            if t[0] == "call" and t[1] == ("fn", "push_symbols"):
                sym = t[2][3]
                sinks.append(("encoded", derived_from_item(sym, b.key), show(sym)[:60]))
                sink_sites.append((t[4], sym))
        raws = [e for e in effs if e.cls == "append" and e.tag[0] in ("Vec", "Extend") and
                any(f == "inner" and rest[:1] == ("v:Err",) for (f, rest) in self_field_targets(e, ctx))]
        for e in raws:
            a = trees(e.ctx, e.argorigins[1]) if len(e.argorigins) > 1 else ("opaque", "?")
            sinks.append(("raw", derived_from_item(a, b.key), show(a)[:60]))
            sink_sites.append((e.top_bb, a))
        ok_sinks = bool(sinks) and all(s[1] for s in sinks)
        # every storing arm is covered by a count: either counting code runs on every path through
        # the arm (the counting loop in front of the dispatch), or the arm's own symbol stream
        # passes through a closure that counts (`symbols.inspect(|x| count(x))`)
        from r_codec import loop_header
        eager = set()
        for e in entries:
            if e.ctx is ctx or (e.ctx.consumer and e.ctx.consumer[1][1] in ("for_each", "fold", "try_for_each", "try_fold")):
                h = loop_header(b, e.top_bb)  # a counting loop is passed through its header also when the item is empty
                eager.add(h if h is not None else e.top_bb)
        counting_closures = set()
        for e in entries:
            c_ = e.ctx
            while c_ is not None and c_.body.kind == "Closure":
                counting_closures.add(c_.body.key)
                c_ = c_.parent
        # closures that capture a counting closure count as well (`|x| seen(x)`)
        changed = True
        all_cl = [c_ for c_ in all_ctxs(F, b) if c_.body.kind == "Closure"]
        while changed:
            changed = False
            for c_ in all_cl:
                if c_.body.key in counting_closures or c_.parent is None or c_.site_bb is None:
                    continue
                for (sbi, ssi, ck, ops) in closure_sites(c_.parent.body):
                    if ck != c_.body.key:
                        continue
                    for op in ops:
                        if op["k"] == "const":
                            continue
                        for (r_, p_) in c_.parent.org.operand(op):
                            if r_[0] == "agg":
                                rv_ = c_.parent.org.stmt(r_[1], r_[2])["rv"]
                                if rv_.get("agg") == "closure" and rv_.get("closure") in counting_closures:
                                    counting_closures.add(c_.body.key)
                                    changed = True
        uncovered = []
        for (sb, sym) in sink_sites:
            if not isinstance(sb, int):
                continue
            on_all_paths = sb not in b.reachable(0, eager) or not b.can_return_avoiding(eager, frm=sb)
            through = any(nd[0] == "agg" and str(nd[1]).startswith("closure:") and nd[1][len("closure:"):] in counting_closures
                          for nd in walk(sym) if nd)
            if not (on_all_paths or through):
                uncovered.append(show(sym)[:50])
        if uncovered and entries:
            R.check("R-HUFF-ARMS", b.label(), False, construct="every storing arm counts the symbols it stores",
                    where=b.where(),
                    detail="symbols stored without being counted (no counting code on every path through the arm, "
                           "none in the stream itself): %s; the next merge generation builds its code from the counts alone" % uncovered)
        kinds = {s[0] for s in sinks}
        if fwd:
            kinds = kinds | {"forwarded-arm"}
        full = kinds >= {"encoded", "raw"}
        R.check("R-HUFF-ARMS", b.label(), ok_stats and ok_inc and ok_sinks and full,
                construct="each pushed symbol is counted once and stored in the active representation",
                where=b.where(),
                detail="%d stats entry sites (+1 each: %s); sinks %s" % (len(entries), ok_inc, sinks))
    R.floor("R-HUFF-ARMS", "canonical Huffman push impls", n, 1)


def derived_from_item(t, key):
    """the tree is computed from the pushed item (the whole parameter or its payloads)"""
    return any(nd[0] == "place" and nd[1] == key and nd[2] == ("arg", 2) for nd in walk(t) if nd)


def is_plus_one(t):
    return t[0] == "bin" and t[1] == "Add" and t[3] == ("const", "1")


def mentions(t, sub):
    if t == sub:
        return True
    if isinstance(t, tuple):
        return any(mentions(x, sub) for x in t if isinstance(x, tuple))
    return False


# ---------------------------------------------------------------------------------------------
# R-SHIFT: interval analysis of shift amounts (local scalar arithmetic only)

WIDTH = {"u8": 8, "i8": 8, "u16": 16, "i16": 16, "u32": 32, "i32": 32, "u64": 64, "i64": 64,
         "usize": 64, "isize": 64, "u128": 128, "i128": 128}
INF = 10 ** 30


def interval(t, facts, depth=0):
    """(lo, hi, exact) of a usize-valued tree, or None when nothing is known (free value).
    exact = every value of the range is attained for some value of the free inputs."""
    if depth > 12:
        return None
    r = _interval(t, facts, depth)
    if r is None:
        return None
    lo, hi, exact = r
    # refine by dominating facts about this very expression
    for f in facts:
        if f[0] == "Ne" and ((f[1] == t and f[2] == ("const", "0")) or (f[2] == t and f[1] == ("const", "0"))):
            if lo == 0:
                lo = 1
        if f[0] in ("Lt", "Le") and f[1] == t and f[2][0] == "const" and f[2][1].isdigit():
            c = int(f[2][1]) - (1 if f[0] == "Lt" else 0)
            hi = min(hi, c)
    return (lo, hi, exact)


def _interval(t, facts, depth):
    k = t[0]
    if k == "const":
        try:
            n = int(t[1])
            return (n, n, True)
        except ValueError:
            return None
    if k == "bin":
        op = t[1]
        a = interval(t[2], facts, depth + 1)
        b = interval(t[3], facts, depth + 1)
        if op == "Rem" and b is not None and b[0] == b[1] and b[0] > 0:
            return (0, b[0] - 1, a is None)
        if op == "BitAnd" and b is not None and b[0] == b[1]:
            return (0, b[0], False)
        if op == "Sub":
            # overflow-checked: result >= 0
            lo_extra = 0
            for f in facts:
                if f[0] == "Lt" and f[1] == t[3] and f[2] == t[2]:
                    lo_extra = 1
                if f[0] == "Gt" and f[1] == t[2] and f[2] == t[3]:
                    lo_extra = 1
            if a is None and b is None:
                return (lo_extra, INF, lo_extra == 0) if lo_extra else None
            alo, ahi = (a[0], a[1]) if a else (0, INF)
            blo, bhi = (b[0], b[1]) if b else (0, INF)
            lo = max(alo - bhi, lo_extra, 0)
            hi = max(ahi - blo, 0)
            exact = bool(a and b and a[2] and b[2] and (a[0] == a[1] or b[0] == b[1]))
            if a is not None and a[0] == a[1] and b is not None:
                exact = b[2]
            return (lo, hi, exact)
        if op == "Add":
            if a is None or b is None:
                return None
            return (a[0] + b[0], a[1] + b[1], a[2] and b[2] and (a[0] == a[1] or b[0] == b[1]))
        return None
    if k == "call" and t[1] in (("fn", "min"), ("Ord", "min")) and len(t[2]) == 2:
        a = interval(t[2][0], facts, depth + 1)
        b = interval(t[2][1], facts, depth + 1)
        if a is None and b is None:
            return None
        if a is None:
            return (0, b[1], b[2])
        if b is None:
            return (0, a[1], a[2])
        # min of a bounded-below free-ish value and an exact range attains the range's maximum
        hi = min(a[1], b[1])
        lo = min(a[0], b[0])
        exact = (b[2] and a[1] >= b[1]) or (a[2] and b[1] >= a[1])
        return (lo, hi, exact)
    if k == "call" and t[1][1] in ("into", "from", "try_into") and t[2]:
        return interval(t[2][0], facts, depth + 1)
    return None


def r_shift(F, R):
    """every overflow-checked shift in the Huffman module whose amount is local scalar arithmetic
    stays below the width of the shifted type"""
    n = 0
    decided = 0
    for b in F.bodies.values():
        if "huffman_container" not in b.key or b.derived:
            continue
        ctx = None
        for bi in sorted(b.live_blocks()):
            t = b.term(bi)
            if not (t["k"] == "assert" and t.get("msg") == "overflow" and t["op"] in ("Shl", "Shr")):
                continue
            ctx = ctx or Ctx(b)
            n += 1
            R.saw(b)
            a = t["a"]
            ty = a.get("ty") if a["k"] == "const" else b.locals[a["place"]["l"]]["ty"]["s"]
            w = WIDTH.get(ty)
            amt = operand_tree(ctx, t["b"])
            iv = interval(amt, facts_at(ctx, bi)) if w else None
            where = "%s:%s" % (b.file, t["line"])
            if iv is None or w is None:
                R.undecided_site("R-SHIFT", b.label(), "shift of %s by %s at %s: amount not derivable from local arithmetic"
                                 % (ty, show(amt)[:60], where))
                continue
            decided += 1
            lo, hi, exact = iv
            if hi < w:
                R.check("R-SHIFT", b.label(), True, construct="%s of %s by %s" % (t["op"], ty, show(amt)[:70]),
                        where=where, detail="amount in [%d, %d] < %d" % (lo, hi, w))
            elif exact:
                R.check("R-SHIFT", b.label(), False, construct="%s of %s by an amount that can reach %d" % (t["op"], ty, hi),
                        where=where,
                        detail="amount %s ranges over [%d, %d] and attains %d >= width %d: overflow panic in checked builds, masked shift otherwise" % (
                            show(amt)[:90], lo, hi, hi, w))
            else:
                R.undecided_site("R-SHIFT", b.label(), "shift of %s at %s: bound [%d, %d] not tight" % (ty, where, lo, hi))
    R.floor("R-SHIFT", "overflow-checked shifts in the Huffman module", n, 10)
    R.extra["shift_sites_decided"] = decided


# ---------------------------------------------------------------------------------------------
# R-DESCENT: the decoder consults the table it has descended into


def _places_of_stmt(st):
    out = []
    if st["k"] != "assign":
        return out
    rv = st["rv"]
    if rv["k"] in ("ref", "rawptr", "discr"):
        out.append(rv["place"])
    for key in ("op", "a", "b"):
        v = rv.get(key)
        if isinstance(v, dict) and v.get("k") in ("copy", "move"):
            out.append(v["place"])
    for v in rv.get("ops", []) if rv["k"] == "aggregate" else []:
        if v.get("k") in ("copy", "move"):
            out.append(v["place"])
    return out


def r_descent(F, R):
    """Decoder::next (helpers inlined): a code word longer than one table level is decoded by
    descending (`map = further`).  Every table lookup that can run after a descent must index the
    variable that was descended (its provenance includes the nested table), never the root table
    `self.decode` alone: the remaining bits of a long code word looked up in the root table name a
    different symbol."""
    bodies = [b for b in F.bodies.values() if b.name == "next" and b.trait == "Iterator" and
              (b.self_adt or "").endswith("decoder::Decoder") and not b.in_tests()]
    R.floor("R-DESCENT", "Decoder::next", len(bodies), 1)
    for b in bodies:
        R.saw(b)
        ctx = Ctx(b)
        adt = F.adts.get(b.self_adt)
        root_fields = set()
        if adt:
            for f in adt["variants"][0]["fields"]:
                if "Decode<" in f["ty"]["s"]:
                    root_fields.add("f:" + f["name"])
        if not root_fields:
            R.undecided_site("R-DESCENT", b.label(), "no table field found in the decoder type")
            continue

        def is_root(o):
            (r, p) = o
            return r == ("arg", 1) and p[:1] and p[0] in root_fields and all(x == "[]" for x in p[1:])

        lookups = []  # (bb, line, base origins)
        for bi in sorted(b.live_blocks()):
            blk = b.blocks[bi]
            for st in blk["stmts"]:
                for pl in _places_of_stmt(st):
                    if any(e["k"] == "index" for e in pl["p"]):
                        orgs = ctx.org.place(pl)
                        if any(is_root(o) for o in orgs):
                            lookups.append((bi, st.get("line"), orgs))
            t = blk["term"]
            if t["k"] == "call" and callee_tag(t.get("callee")) in (("Index", "index"), ("slice", "get")):
                orgs = ctx.org.operand(t["args"][0]) if t["args"] and t["args"][0]["k"] != "const" else set()
                if orgs and any(is_root((o[0], o[1] + ("[]",))) or is_root(o) for o in orgs):
                    lookups.append((bi, t.get("line"), {(o[0], o[1] + ("[]",)) for o in orgs}))
        # descents: a table-typed local assigned from something that is not the root table
        table_locals = {l for l in range(len(b.locals)) if "Decode<" in b.locals[l]["ty"]["s"] and
                        b.locals[l]["ty"].get("ref") and "; " in b.locals[l]["ty"]["s"] and
                        "Box" not in b.locals[l]["ty"]["s"]}
        mixed = {l for l in table_locals if any(is_root(o) for o in ctx.org.local(l)) and
                 any(not is_root(o) for o in ctx.org.local(l))}
        descents = []
        for bi in sorted(b.live_blocks()):
            for si, st in enumerate(b.blocks[bi]["stmts"]):
                if st["k"] == "assign" and not st["place"]["p"] and st["place"]["l"] in mixed:
                    orgs = ctx.org.rvalue(st["rv"], bi, si)
                    if orgs and not all(is_root(o) for o in orgs):
                        descents.append(bi)
        if not descents or not lookups:
            R.undecided_site("R-DESCENT", b.label(), "no descent into a nested table (%d) or no table lookup (%d) "
                             "recognised" % (len(descents), len(lookups)))
            continue
        after = set()
        for d in descents:
            after |= reach_strict(b, d)
        n = 0
        for (bi, line, orgs) in lookups:
            if bi not in after:
                continue
            n += 1
            ok = not all(is_root(o) for o in orgs)
            R.check("R-DESCENT", b.label(), ok, construct="lookup after a descent uses the descended table",
                    where="%s:%s" % (b.file, line),
                    detail="table provenance %s" % sorted(str(o) for o in orgs)[:3] if ok else
                    "this lookup can run after `map = further` (blocks %s) but always indexes the root table %s"
                    % (sorted(descents), sorted(root_fields)))
        R.floor("R-DESCENT", "table lookups that can follow a descent", n, 2)


# ---------------------------------------------------------------------------------------------
# R-TAIL: the decoder panics only while undecoded bits remain


def r_tail(F, R):
    """Decoder::next (helpers inlined) ends the iteration when the input is used up.  Its
    `malformed data` / `invalid decoding map` panics are therefore legitimate only while bits that
    could not be decoded remain: every panic must be dominated by a test that still holds there and
    says the pending-bit counter is non-zero (`!= 0`, `> 0`, `>= c` with c >= 1).  One arm of the
    end-of-input match testing `pending_bits == 0` before it panics while a sibling arm does not is
    the one-sided check this rule looks for: with no pending bits the table lookup uses index 0,
    whose entry is `Further` (or `Void`) for alphabets whose smallest code is longer than one table
    level, and reading any item then panics at its end instead of stopping."""
    from expr import fact_still_holds
    bodies = [b for b in F.bodies.values() if b.name == "next" and b.trait == "Iterator" and
              (b.self_adt or "").endswith("decoder::Decoder") and not b.in_tests()]
    R.floor("R-TAIL", "Decoder::next", len(bodies), 1)
    for b in bodies:
        R.saw(b)
        ctx = Ctx(b)
        adt = F.adts.get(b.self_adt)
        counters = set()
        if adt:
            for f in adt["variants"][0]["fields"]:
                if f["ty"].get("k") == "uint" and f["ty"]["s"] == "usize":
                    counters.add("f:" + f["name"])

        def is_counter(t):
            return t[0] == "place" and t[2] == ("arg", 1) and len(t[3]) == 1 and t[3][0] in counters

        # the table is indexed with W bits (`pending_byte >> (pending_bits - W)` on the main path):
        # the end-of-input arms, whose panics say the input is exhausted, belong to the case of
        # *fewer* than W pending bits; reached with exactly W bits they refuse a code word whose
        # continuation is simply in the next table level
        widths = set()
        for bi in b.live_blocks():
            for st in b.blocks[bi]["stmts"]:
                if st["k"] == "assign" and st["rv"]["k"] == "binop" and st["rv"]["op"].startswith("Sub"):
                    a_, c_ = operand_tree(ctx, st["rv"]["a"]), operand_tree(ctx, st["rv"]["b"])
                    if is_counter(a_) and c_[0] == "const" and str(c_[1]).isdigit() and int(c_[1]) >= 2:
                        widths.add(int(c_[1]))
        W = max(widths) if widths else None
        n = 0
        msgs = {}
        for bi in sorted(b.live_blocks()):
            t = b.term(bi)
            if not (t["k"] == "call" and t["target"] is None):
                continue
            n += 1
            if any(m in ("assert", "debug_assert", "assert_eq", "assert_ne", "debug_assert_eq", "debug_assert_ne")
                   for m in str(t.get("mac") or "").split(",")):
                R.undecided_site("R-TAIL", b.label(), "assertion at %s:%s: an invariant check, not an end-of-input refusal; whether "
                                 "its condition can fail is value-level" % (b.file, t["line"]))
                continue
            ok = False
            seen = []
            if W is not None:
                ups = []
                for f in facts_at(ctx, bi):
                    if f[0] not in ("Lt", "Le", "Gt", "Ge"):
                        continue
                    op, x, y = f[0], f[1], f[2]
                    if is_counter(y) and not is_counter(x):
                        op = {"Lt": "Gt", "Le": "Ge", "Gt": "Lt", "Ge": "Le"}.get(op, op)
                        x, y = y, x
                    if is_counter(x) and y[0] == "const" and str(y[1]).isdigit() and op in ("Lt", "Le"):
                        ups.append(int(y[1]) - (1 if op == "Lt" else 0))  # counter <= ups
                if ups and min(ups) == W:
                    R.check("R-TAIL", b.label(), False, construct="end-of-input arms are reached with fewer than a table index of bits",
                            where="%s:%s" % (b.file, t["line"]),
                            detail="this panic is reached under pending bits <= %d, while the table lookup on the main path consumes %d: "
                                   "with exactly %d bits pending a code that continues in the next table level is refused although its "
                                   "remaining bits are still in the input" % (W, W, W))
            for f in facts_at(ctx, bi):
                if f[0] not in ("Ne", "Gt", "Ge", "Lt", "Le", "Eq"):
                    continue
                if not fact_still_holds(ctx, f, bi):
                    continue
                op, x, y = f[0], f[1], f[2]
                if is_counter(y) and not is_counter(x):
                    op = {"Lt": "Gt", "Le": "Ge", "Gt": "Lt", "Ge": "Le"}.get(op, op)
                    x, y = y, x
                if not is_counter(x) or y[0] != "const" or not y[1].isdigit():
                    continue
                c = int(y[1])
                seen.append("%s %s %d" % (x[3][0][2:], op, c))
                if (op == "Ne" and c == 0) or (op == "Gt") or (op == "Ge" and c >= 1):
                    ok = True
            if not ok:
                # no single branch dominates, but the fact may hold along every path: the arm is
                # unreachable from the entry, and from every store to the counter, without crossing
                # an edge that says the counter is non-zero (`if n < 8 { restock; if n < 8 { return } }`
                # joins two such edges)
                from expr import edge_facts, reachable_avoiding

                def nonzero(f):
                    if f[0] not in ("Ne", "Gt", "Ge", "Lt", "Le"):
                        return False
                    op, x, y = f[0], f[1], f[2]
                    if is_counter(y) and not is_counter(x):
                        op = {"Lt": "Gt", "Le": "Ge", "Gt": "Lt", "Ge": "Le"}.get(op, op)
                        x, y = y, x
                    if not is_counter(x) or y[0] != "const" or not str(y[1]).isdigit():
                        return False
                    c = int(y[1])
                    return (op == "Ne" and c == 0) or op == "Gt" or (op == "Ge" and c >= 1)
                good_edges = set()
                for s_ in b.live_blocks():
                    for (tgt_, fs_) in edge_facts(ctx, s_):
                        if any(nonzero(f_) for f_ in fs_):
                            good_edges.add((s_, tgt_))
                kills = {0}
                for kb in b.live_blocks():
                    for st_ in b.blocks[kb]["stmts"]:
                        if st_["k"] == "assign" and st_["place"]["p"]:
                            tp_ = place_tree(ctx, st_["place"])
                            if is_counter(tp_):
                                kills.add(kb)
                    kt_ = b.term(kb)
                    if kt_["k"] == "call" and kb != 0 and any(a_.get("k") in ("copy", "move") and b.locals[a_["place"]["l"]]["ty"].get("mut") and
                                                               any(r_ == ("arg", 1) and not p_ for (r_, p_) in ctx.org.operand(a_))
                                                               for a_ in kt_["args"]):
                        kills.add(kb)  # a call handed `&mut self`
                if good_edges and all(bi not in reachable_avoiding(b, k_, set(), good_edges) or (k_ == bi and k_ != 0) for k_ in kills if k_ != bi or k_ == 0):
                    ok = True
                    seen.append("non-zero on every path (edges %s)" % sorted(good_edges)[:4])
            msg = [nd[1] for nd in walk(operand_tree(ctx, t["args"][0])) if nd and nd[0] == "const"] if t["args"] else []
            msg = msg[0].strip('"') if msg else "?"
            msgs[msg] = msgs.get(msg, 0) + 1
            R.check("R-TAIL", b.label(), ok,
                    construct="panic '%s'%s only while undecoded bits remain" % (
                        msg, " (#%d)" % msgs[msg] if msgs[msg] > 1 else ""),
                    where="%s:%s" % (b.file, t["line"]),
                    detail="dominating facts on the bit counter: %s" % (seen or "none") +
                    ("" if ok else "; with no pending bits left this arm panics where the sibling arm returns None"))
        R.floor("R-TAIL", "panic edges in Decoder::next", n, 3)


# ---------------------------------------------------------------------------------------------
# R-CHUNK: the bit cursor never advances past the end of the item


def r_chunk(F, R, cat=None):
    """BitIterator::next hands out the bits of one item chunk by chunk and advances a cursor.
    Every advance `cursor += n` must stay inside the item: n <= end - cursor, where `end` is the
    bound the cursor was compared against on entry (`cursor < end`).  Accepted evidence: n is
    `min(.., end - cursor)`, n equals `end - cursor`, or a dominating comparison implies
    `end - cursor >= n` (linear arithmetic).  A chunk length that does not mention `end` and has no
    such bound reads bits of the following item (or padding) as part of this one."""
    from expr import lin, lin_sub, nobb
    cat = cat or Catalogue(F)
    bodies = [b for b in F.bodies.values() if (b.self_adt or "").endswith("BitIterator") and b.name == "next"
              and b.trait == "Iterator" and not b.in_tests()]
    R.floor("R-CHUNK", "BitIterator::next", len(bodies), 1)
    n_sites = 0
    for b in bodies:
        R.saw(b)
        ctx, effs = cat.effects(b)
        for e in effs:
            if e.cls != "assign" or not e.targets:
                continue  # (the store may sit in a closure handed to bool::then & co.)
            tgts = [(c, o) for (c, o) in e.targets if c is ctx and o[0] == ("arg", 1)]
            if not tgts:
                continue
            cur = ("place", b.key, ("arg", 1), tuple(tgts[0][1][1]))
            val = nobb(trees(e.ctx, e.value))
            lv = lin(val)
            if lv.get(cur) != 1:
                continue  # not an advance of this place
            n_sites += 1
            where = "%s:%s" % (b.file, e.line)
            # the bound the cursor is compared against
            ends = []
            for f in facts_at(e.ctx, e.bb):
                f = tuple(nobb(x) if isinstance(x, tuple) else x for x in f)
                if f[0] == "Lt" and f[1] == cur and f[2][0] == "place":
                    ends.append(f[2])
                if f[0] == "Gt" and f[2] == cur and f[1][0] == "place":
                    ends.append(f[1])
            if not ends:
                R.undecided_site("R-CHUNK", b.label(), "no `cursor < end` guard found for the advance at %s" % where)
                continue
            end = ends[0]
            rem = lin_sub(lin(end), lin(cur))
            nlin_ = lin_sub(lv, lin(cur))  # the amount added
            # the addend as a tree (for min detection)
            addend = None
            if val[0] == "bin" and val[1] == "Add":
                addend = val[3] if val[2] == cur else (val[2] if val[3] == cur else None)
            ok = False
            why = ""
            if not lin_sub(rem, nlin_):
                ok, why = True, "advances exactly to the end"
            if not ok and addend is not None and addend[0] == "call" and addend[1][1] == "min":
                if any(not lin_sub(lin(a), rem) for a in addend[2]):
                    ok, why = True, "chunk = min(.., end - cursor)"
            if not ok:
                need = lin_sub(rem, nlin_)  # must be >= 0
                for f in facts_at(e.ctx, e.bb):
                    if f[0] not in ("Ge", "Gt", "Le", "Lt") or not fact_holds_(e.ctx, f, e.bb, e.term):
                        continue
                    op, x, y = f[0], nobb(f[1]), nobb(f[2])
                    if op in ("Le", "Lt"):
                        op = {"Le": "Ge", "Lt": "Gt"}[op]
                        x, y = y, x
                    d = lin_sub(lin(x), lin(y))  # d >= 0 (Ge) or d >= 1 (Gt)
                    extra = lin_sub(need, d)
                    if set(extra) <= {1}:
                        c = extra.get(1, 0)
                        if c >= 0 or (op == "Gt" and c >= -1):
                            ok, why = True, "dominating comparison %s %s %s bounds the chunk" % (show(x), op, show(y))
                            break
            if ok:
                R.check("R-CHUNK", b.label(), True, construct="cursor advance stays within the item", where=where, detail=why)
                continue
            mentions_end = addend is not None and any(nd == end for nd in walk(addend))
            if mentions_end or addend is None:
                R.undecided_site("R-CHUNK", b.label(), "advance at %s by %s: bound against the item's end not established" % (
                    where, show(addend) if addend else show(val)))
                continue
            R.check("R-CHUNK", b.label(), False, construct="cursor advance stays within the item", where=where,
                    detail="the cursor advances by %s, which neither mentions the item's end %s nor is bounded by a "
                           "dominating comparison against the remaining bits: a short item lying inside one byte is "
                           "read together with the bits that follow it" % (show(addend), show(end)))
    if bodies and n_sites == 0:
        # the cursor is not advanced by a plain `cursor += n` store (a position newtype with its
        # own `+=`, a cursor rebuilt as a whole): the anchor of this rule is absent, not violated
        R.undecided_site("R-CHUNK", bodies[0].label(), "no `cursor += n` store recognised in BitIterator::next: that the advance "
                         "stays within the item is not decided")


def r_acc_width(F, R):
    """The encoder shifts each code into an accumulator that already holds up to 7 pending bits:
    the accumulator must be at least 7 bits wider than the longest code the code table's type
    admits (codes deeper than 57 bits need more than 10^11 recorded symbols and are out of reach;
    the demand is capped there, which is what a 64-bit accumulator offers).  A table that admits
    32-bit codes feeding a 32-bit accumulator silently loses the oldest pending bits for codes of
    26 bits and more."""
    import re
    enc = F.adts.get("impls::huffman_container::huffman::encoder::Encoder")
    huf = F.adts.get("impls::huffman_container::huffman::Huffman")
    if not enc or not huf or not enc.get("variants") or not huf.get("variants"):
        R.undecided_site("R-SHIFT", "huffman::encoder::Encoder", "encoder or code table type not found: accumulator width not decided")
        return
    acc = next((f["ty"]["s"] for f in enc["variants"][0]["fields"] if f["name"] == "pending_byte"), None)
    tab = next((f["ty"]["s"] for f in huf["variants"][0]["fields"] if f["name"] == "encode"), "")
    m = re.search(r"\((\w+), (\w+)\)>?$", tab)
    if acc not in WIDTH or not m or m.group(1) not in WIDTH or m.group(2) not in WIDTH:
        R.undecided_site("R-SHIFT", "huffman::encoder::Encoder", "accumulator type %r / code table type %r not read: "
                         "accumulator width not decided" % (acc, tab))
        return
    comps = [m.group(1), m.group(2)]
    non = [c for c in comps if c != "usize"]
    code_ty = non[0] if len(non) == 1 else comps[1]
    need = min(WIDTH[code_ty], 57)
    ok = WIDTH[acc] - 7 >= need
    R.check("R-SHIFT", "huffman::encoder::Encoder", ok, construct="the accumulator holds 7 pending bits plus the longest admitted code",
            where="src/impls/huffman_container.rs", detail="accumulator %s (%d bits), codes stored as %s" % (acc, WIDTH[acc], code_ty) +
            ("" if ok else ": a code of %d..%d bits pushed while bits are pending shifts the oldest pending bits out of the "
             "accumulator; the item reads back as other symbols" % (WIDTH[acc] - 6, WIDTH[code_ty])))


def r_weights(F, R):
    """`Huffman::create_from` must build the tree for the statistics it is given: the code is
    optimal for the weights that enter the heap.  Positive evidence of a violation: while building
    (in create_from or a helper of it) a stored weight is rewritten in place by a function of
    itself and constants alone -- `*w = (*w + 1) / 2`, `*w = min(*w, c)`, `*w >>= 1` -- i.e. the
    statistics are rescaled / clamped before (re)building, so the lengths are optimal for other
    weights than the merged statistics.  (A fork's weight, the sum of two *other* weights, is not
    such a rewrite.)"""
    from core import all_ctxs
    from expr import place_tree, nobb
    tops = [b for b in F.bodies.values() if (b.self_adt or "").endswith("huffman::Huffman") and b.name == "create_from"
            and not b.in_tests()]
    n = 0
    for top in tops:
        R.saw(top)
        for ctx in all_ctxs(F, top):
            b = ctx.body
            for bi in sorted(b.live_blocks()):
                for si, st in enumerate(b.blocks[bi]["stmts"]):
                    if st["k"] != "assign" or not any(e["k"] in ("deref", "index") for e in st["place"]["p"]):
                        continue
                    rv = st["rv"]
                    if rv["k"] not in ("use", "binop"):
                        continue
                    try:
                        tgt = nobb(place_tree(ctx, st["place"]))
                        val = nobb(trees(ctx, ctx.org.rvalue(rv, bi, si)))
                    except Exception:
                        continue
                    n += 1
                    if val[0] not in ("bin", "call"):
                        continue
                    if val[0] == "call" and val[1][1] not in ("min", "max", "clamp", "saturating_sub", "div_ceil"):
                        continue

                    def leaves(t):
                        if t[0] == "bin":
                            return leaves(t[2]) + leaves(t[3])
                        if t[0] == "call" and t[1][1] in ("min", "max", "clamp", "saturating_sub", "div_ceil") and not t[3]:
                            return [x for a in t[2] for x in leaves(a)]
                        return [] if t[0] == "const" else [t]
                    lv_ = leaves(val)
                    if not lv_ or any(x != tgt for x in lv_):
                        continue
                    ops = {nd[1] for nd in walk(val) if nd[0] == "bin"} | ({val[1][1]} if val[0] == "call" else set())
                    if not (ops & {"Div", "Shr", "min", "clamp", "Rem", "div_ceil"}):
                        continue  # (a counter `+= 1` is not a rescaling)
                    R.check("R-OPTIMAL", top.label(), False, construct="the tree is built for the statistics as given",
                            where="%s:%s" % (b.file, st["line"]),
                            detail="a stored weight is rewritten in place as %s before the tree is (re)built: the code lengths "
                                   "are optimal for rescaled weights, not for the merged statistics" % show(val)[:80])
    R.info("R-OPTIMAL: %d in-place stores inspected while building the code" % n)


def r_restock(F, R):
    """A code longer than one table level is decoded in several rounds of the decoder's loop: each
    round looks up 8 bits and, on `Further`, descends and goes round again.  Every round needs the
    chance to restock the bit window from the input (`self.bytes.next()` while fewer than 8 bits
    are pending) -- a restock that runs once, in front of the loop, leaves the second round of a
    9..16-bit code with the bits left over from the first, and the decoder falls into its
    end-of-input handling in the middle of an item.  Positive evidence: Decoder::next has a loop,
    and no call that polls the input sits inside it."""
    from expr import in_loop
    bodies = [b for b in F.bodies.values() if b.name == "next" and b.trait == "Iterator" and
              (b.self_adt or "").endswith("decoder::Decoder") and not b.in_tests()]
    for b in bodies:
        R.saw(b)
        ctx = Ctx(b)
        polls = []
        for (bi, t) in b.calls():
            if callee_tag(t.get("callee")) == ("Iterator", "next") and t["args"]:
                recv = operand_tree(ctx, t["args"][0])
                if recv[0] == "place" and recv[2] == ("arg", 1) and recv[3][:1] == ("f:bytes",):
                    polls.append(bi)
        loops = [bi for bi in b.live_blocks() if in_loop(b, bi)]
        if not polls:
            R.undecided_site("R-DESCENT", b.label(), "no poll of the input (`bytes.next()`) found in Decoder::next: where the bit "
                             "window is restocked is not decided")
            continue
        if not loops:
            R.undecided_site("R-DESCENT", b.label(), "Decoder::next has no loop: how it descends through the table levels is not decided")
            continue
        # ... inside the loop that walks the table: a poll that shares a cycle with a table lookup
        # (a bounds-checked subscript of the decode table) -- a read-ahead loop of its own in front
        # of the walk restocks once per symbol, not once per table level
        from expr import reach_strict as _rs
        lookups = [bi for bi in b.live_blocks() if b.term(bi)["k"] == "assert" and b.term(bi).get("msg") == "bounds"]
        if lookups:
            inside = [p_ for p_ in polls if any(q_ in _rs(b, p_) and p_ in _rs(b, q_) for q_ in lookups)]
        else:
            inside = [bi for bi in polls if in_loop(b, bi)]
        R.check("R-DESCENT", b.label(), bool(inside), construct="the bit window can be restocked in every round of the table walk",
                where=b.where(), detail="polls of the input at blocks %s, of which inside the loop: %s" % (polls, inside) +
                ("" if inside else ": the input is polled once, in front of the loop; after descending into a second table level "
                 "the decoder has only the bits left over from the first round and treats the shortage as the end of the input"))


def r_bitcopy(F, R, cat=None):
    """Bits are appended to the encoded buffer through the encoder, which leaves every bit past the
    cursor zero -- later appends OR their bits in.  A bulk copy of *bytes* for a range of *bits*
    (`extend_from_slice(&src[lo / 8 .. (hi + 7) / 8])`) copies, in its last byte, the bits that
    follow the range in the source; unless the tail is masked afterwards they stay behind the
    cursor and the next item is merged onto them.  Positive evidence: such a copy into a storage
    field of the container in a push path, with no masking store (`&=`) to the buffer after it."""
    from core import all_ctxs
    from expr import nobb
    cat = cat or Catalogue(F)
    n = 0
    for top in F.methods_of_trait("Push", "push"):
        if top.self_adt != HC or top.in_tests():
            continue
        for ctx in all_ctxs(F, top):
            b = ctx.body
            for (bi, t) in b.calls():
                tag = callee_tag(t.get("callee"))
                if tag not in (("Vec", "extend_from_slice"), ("Extend", "extend"), ("Vec", "extend")) or len(t["args"]) < 2:
                    continue
                recv = nobb(operand_tree(ctx, t["args"][0]))
                if not (recv[0] == "place" and recv[2] == ("arg", 1) and recv[3][:1] == ("f:inner",) and "v:Ok" in recv[3]):
                    continue
                src = nobb(operand_tree(ctx, t["args"][1]))
                ceil = [nd for nd in walk(src) if nd[0] == "agg" and str(nd[1]).startswith("Range") and len(nd[2]) == 2 and
                        nd[2][1][0] == "bin" and nd[2][1][1] == "Div" and nd[2][1][3] == ("const", "8") and
                        nd[2][1][2][0] == "bin" and nd[2][1][2][1] == "Add" and ("const", "7") in nd[2][1][2][2:4]]
                if not ceil:
                    continue
                n += 1
                R.saw(top)
                masked = False
                for (c2) in all_ctxs(F, top):
                    for xb in c2.body.live_blocks():
                        for si, st in enumerate(c2.body.blocks[xb]["stmts"]):
                            if st["k"] == "assign" and any(e["k"] == "deref" for e in st["place"]["p"]) and st["rv"]["k"] in ("binop", "use"):
                                try:
                                    v = nobb(trees(c2, c2.org.rvalue(st["rv"], xb, si)))
                                except Exception:
                                    continue
                                if v[0] == "bin" and v[1] == "BitAnd" and (c2 is not ctx or xb == bi or xb in reach_strict(b, bi)):
                                    masked = True
                if masked:
                    R.undecided_site("R-APPEND", top.label(), "whole bytes are copied for a bit range at %s:%s and a masking store follows: "
                                     "whether it clears exactly the bits past the range is not decided" % (b.file, t["line"]))
                    continue
                R.check("R-APPEND", top.label(), False, construct="no bits are stored past the bit cursor",
                        where="%s:%s" % (b.file, t["line"]),
                        detail="bytes %s are copied whole for a range of bits: the last byte carries the source's following bits "
                               "behind the cursor, and nothing masks them; the next appended item is OR-ed onto them" % show(ceil[0])[:80])
    R.info("R-APPEND: %d whole-byte copies of bit ranges into the encoded buffer inspected" % n)


def r_chunk_align(F, R, cat=None):
    """BitIterator::next returns (chunk, n): the n bits of the current byte that start at the
    cursor's offset within the byte (cursor % 8), right-aligned.  Counting from the top of the
    byte, the chunk therefore ends at bit offset + n, i.e. the byte is shifted right by
    8 - offset - n.  Positive evidence of a violation: in some returned pair the shift amount s
    and the count n satisfy s + n = constant -- the chunk is cut from a fixed position of the byte
    whatever the cursor's offset -- while the function never tests the offset for equality."""
    from expr import ret_alts, nobb, lin, lin_sub, edge_facts, NONE
    bodies = [b for b in F.bodies.values() if (b.self_adt or "").endswith("BitIterator") and b.name == "next"
              and b.trait == "Iterator" and not b.in_tests()]
    n = 0
    for b in bodies:
        ctx = Ctx(b)

        def is_load(t):
            return t[0] == "place" and t[1] == b.key and t[2] == ("arg", 1) and "[]" in t[3]

        def has_load(t):
            return any(is_load(nd) for nd in walk(t))

        def offset_atoms(t):
            return [nd for nd in walk(t) if nd[0] == "bin" and nd[1] == "Rem" and nd[3] == ("const", "8")]
        tests_offset = False
        for s_ in b.live_blocks():
            for (_t, fs) in edge_facts(ctx, s_):
                for f in fs:
                    if f[0] in ("Eq", "Ne", "truthy") and any(offset_atoms(x) for x in f[1:3] if isinstance(x, tuple)):
                        tests_offset = True
        for alt in ret_alts(ctx):
            alt = nobb(alt)
            if alt == NONE or not (alt[0] == "agg" and alt[1] == "Option::Some" and alt[2] and alt[2][0][0] == "agg" and
                                   len(alt[2][0][2]) == 2):
                continue
            byte, bits = alt[2][0][2]  # a pair, or a two-field struct in place of it
            if has_load(bits) and not has_load(byte):
                byte, bits = bits, byte
            while byte[0] == "bin" and byte[1] == "BitAnd":
                side = [x for x in (byte[2], byte[3]) if has_load(x)]
                if len(side) != 1:
                    break
                byte = side[0]
            if is_load(byte):
                shift = {}
            elif byte[0] == "bin" and byte[1] in ("Shr", "Div") and is_load(byte[2]):
                if byte[1] == "Div":
                    continue  # a constant shift: a different formulation (not read)
                shift = lin(byte[3])
            else:
                R.undecided_site("R-CHUNK", b.label(), "returned chunk %s is not a shifted / masked load of the current byte: "
                                 "its alignment is not decided" % show(byte)[:80])
                n += 1
                continue
            n += 1
            d = lin_sub(lin_sub({1: 8}, shift), lin(bits))
            d = {k: v for k, v in d.items() if v != 0}
            offs = [k for k in d if k != 1 and isinstance(k, tuple) and k[0] == "bin" and k[1] == "Rem" and k[3] == ("const", "8")]
            if len(d) == 1 and len(offs) == 1 and d[offs[0]] == 1:
                R.check("R-CHUNK", b.label(), True, construct="the chunk starts at the cursor's offset within the byte",
                        where=b.where(), detail="shift + count + %s = 8" % show(offs[0]))
            elif set(d) <= {1} and not tests_offset and not offset_atoms(byte) :
                R.check("R-CHUNK", b.label(), False, construct="the chunk starts at the cursor's offset within the byte",
                        where=b.where(), detail="a returned pair shifts the byte by %s and reports %s bits: shift + count is the "
                        "constant %s, so the chunk is cut from a fixed position of the byte; an item that starts inside a byte "
                        "(after another item's bits) and ends inside it is read from the wrong bits" %
                        (show(byte[3]) if byte[0] == "bin" else "0", show(bits)[:60], 8 - int(d.get(1, 0))))
            else:
                R.undecided_site("R-CHUNK", b.label(), "alignment of a returned chunk: 8 - shift - count = %s is not the cursor's "
                                 "offset alone (an infeasible pairing of arms, or a shape the rule does not read)" %
                                 {show(k) if k != 1 else 1: str(v) for k, v in d.items()})
    if bodies and n == 0:
        R.undecided_site("R-CHUNK", bodies[0].label(), "no returned (chunk, count) pair recognised in BitIterator::next: "
                         "the chunk's alignment is not decided")


def fact_holds_(ctx, f, bb, at_stmt=None):
    from expr import fact_still_holds
    return fact_still_holds(ctx, f, bb, ignore=at_stmt if isinstance(at_stmt, dict) and at_stmt.get("k") == "assign" else None)
