"""C01 / C12: R-BRACKET, reader/writer agreement, fan-out routing, R-ITER for read items."""
from core import Ctx, callee_tag, closure_sites, base_places, describe, short
from model import Catalogue, self_field_targets
from expr import (trees, tree, show, operand_tree, place_tree, lin, reach_strict, facts_at)
from r_bound import norm_len, nlin
from r_lifecycle import default_values
from r_index import places_in
from r_cmp import calls_in

LEN_TAGS = {("Storage", "len"), ("Vec", "len"), ("slice", "len")}


def is_len_call(t):
    return t[0] == "call" and t[1] in LEN_TAGS and len(t[2]) == 1 and t[2][0][0] == "place"


def appends_on(ctx, effs, place):
    """append effects (top-level blocks) whose target is `place` (tree) or a sub-part of it"""
    out = []
    for e in effs:
        if e.cls != "append":
            continue
        for (c, (r, p)) in e.targets or ():
            if c is ctx and r == place[2] and tuple(p[:len(place[3])]) == tuple(place[3]):
                out.append(e)
                break
    return out


def other_writes_on(ctx, effs, place):
    out = []
    for e in effs:
        if e.cls not in ("destructive", "clear", "assign", "clone_from"):
            continue
        for (c, (r, p)) in e.targets or ():
            if c is ctx and r == place[2] and tuple(p[:len(place[3])]) == tuple(place[3]):
                out.append(e)
                break
    return out


def check_pair(R, b, ctx, effs, t, where):
    """t = tuple(lenA(P), lenB(P)) : A before every append to P, B after every append"""
    a, c = t[2]
    if not (is_len_call(a) and is_len_call(c)) or a[2][0] != c[2][0]:
        R.check("R-BRACKET", b.label(), False, construct="index = (len before, len after) of one storage",
                where=where, detail="returns " + show(t))
        return
    P = a[2][0]
    apps = appends_on(ctx, effs, P)
    bbA, bbB = a[4], c[4]
    ok_before = all(bbA not in reach_strict(b, e.top_bb) and e.top_bb != bbA for e in apps)
    ok_after = all(e.top_bb not in reach_strict(b, bbB) and e.top_bb != bbB for e in apps)
    distinct = bbA != bbB
    others = other_writes_on(ctx, effs, P)
    ok = ok_before and ok_after and distinct and bool(apps) and not others
    R.check("R-BRACKET", b.label(), ok,
            construct="index = (%s.len() before the appends, %s.len() after them)" % (place_name(P), place_name(P)),
            where=where,
            detail="%d append sites on %s; start read before all: %s; end read after all: %s; other writes: %d" % (
                len(apps), place_name(P), ok_before, ok_after, len(others)))


def place_name(P):
    return "self" + "".join("." + x[2:] for x in P[3]) if P[2] == ("arg", 1) else show(P)


def check_position(R, b, ctx, effs, t, where, seed_of):
    """t = len(P) - k : exactly one append to P per call, read after it, k = 1 + seed(P)"""
    nt = norm_len(t)
    d = nlin(nt)
    lens = [k for k in d if isinstance(k, tuple) and k[0] == "len"]
    if len(lens) != 1 or d[lens[0]] != 1 or set(d) - {lens[0], 1}:
        R.check("R-BRACKET", b.label(), False, construct="index = len(storage) - const",
                where=where, detail="returns " + show(t))
        return
    P = lens[0][1]
    k = -int(d.get(1, 0))
    apps = appends_on(ctx, effs, P)
    # the len() call node
    calls = [c for c in calls_in(t) if is_len_call(c)]
    bbB = calls[0][4] if calls else None
    in_loop = any(e.top_bb in reach_strict(b, e.top_bb) for e in apps)
    after = bbB is not None and all(e.top_bb not in reach_strict(b, bbB) and e.top_bb != bbB for e in apps)
    before = bbB is not None and all(bbB not in reach_strict(b, e.top_bb) and e.top_bb != bbB for e in apps)
    every_path = bool(apps) and not b.can_return_avoiding({e.top_bb for e in apps})
    seed = seed_of(P)
    if before and not after:
        # len read before the single append: index = len_before - seed
        k += 1
        after = True
    ok = len(apps) == 1 and not in_loop and after and every_path and k == 1 + seed
    R.check("R-BRACKET", b.label(), ok,
            construct="index = %s.len() - %d with one append per push (seed %d)" % (place_name(P), k, seed),
            where=where,
            detail="%d append sites (in loop: %s), len read after: %s, on every path: %s" % (
                len(apps), in_loop, after, every_path))


def r_bracket(F, R, cat=None, only=None):
    cat = cat or Catalogue(F)
    n = 0
    for b in F.methods_of_trait("Push", "push"):
        if b.in_tests():
            continue
        if only and short(b.self_adt or "") not in only:
            continue
        imp = F.impl_by_key.get(b.owner.get("impl_key"))
        adt = b.self_adt
        idx_ty = region_index_type(F, adt)
        if idx_ty not in ("(usize, usize)", "usize"):
            continue
        if adt == "impls::columns::ColumnsRegion":
            continue  # its index is the inner ConsecutiveIndexPairs index (checked in r_columns)
        ctx, effs = cat.effects(b)

        def seed_of(P, adt=adt):
            if P[2] != ("arg", 1) or not P[3] or adt not in F.adts:
                return 0
            dv = default_values(cat, adt)
            if not dv:
                return 0
            return len(dv["seeds"].get(P[3][0][2:], []))
        for o in ctx.org.local(0):
            t = tree(ctx, o)
            where = b.where()
            if t[0] == "call" and t[1][1] in ("push", "push_symbols") and t[1][0] in ("Push", "fn"):
                continue  # forwarded / delegated: the callee is its own instance
            n += 1
            R.saw(b)
            if t[0] == "agg" and t[1] == "tuple" and len(t[2]) == 2 and t[2][0] == t[2][1] and o[0][0] == "agg" and \
                    empty_item_bracket(b, ctx, effs, t[2][0], o[0][1]):
                R.check("R-BRACKET", b.label(), True, construct="an empty item is the empty range at the current end",
                        where=where, detail="(end, end) with end = %s, returned only for an empty item and before any append" % show(t[2][0])[:60])
            elif t[0] == "agg" and t[1] == "tuple" and len(t[2]) == 2 and t[2][0] == t[2][1] and \
                    t[2][0][0] == "place":
                check_cursor_bracket(R, b, ctx=ctx, root=o[0])
            elif t[0] == "agg" and t[1] == "tuple" and len(t[2]) == 2:
                check_pair(R, b, ctx, effs, t, where)
            elif idx_ty == "usize":
                check_position(R, b, ctx, effs, t, where, seed_of)
            else:
                R.check("R-BRACKET", b.label(), False, construct="returned index has a bracket form",
                        where=where, detail="returns " + show(t))
    # push_symbols: (cursor before any write, cursor after the last write)
    for b in [x for x in F.bodies.values() if x.kind == "Fn" and x.name == "push_symbols"]:
        if only and "HuffmanContainer" not in only:
            continue
        n += 1
        R.saw(b)
        check_cursor_bracket(R, b)
    R.floor("R-BRACKET", "bracket sites", n, 15 if not only else 1)


def empty_item_bracket(b, ctx, effs, x, agg_bb):
    """`if item.is_empty() { return (end, end) }`: both components are the same current-length
    measure of self's storage, the pair is built under a fact that the item is empty, and no
    append can have happened before it"""
    from expr import nobb, reach_strict
    alts = x[1] if x[0] == "phi" else (x,)
    for a in alts:
        a = nobb(a)
        is_cursor = a[0] == "place" and a[2] == ("arg", 1)
        is_len = (a[0] == "call" and a[1][1] == "len" and a[2] and a[2][0][0] == "place" and a[2][0][2] == ("arg", 1)) or \
            (a[0] in ("len", "un") and any(nd[0] == "place" and nd[2] == ("arg", 1) for nd in walk(a)))
        if not (is_cursor or is_len):
            return False
    item = ("place", b.key, ("arg", 2), ())
    empty = False
    for f in facts_at(ctx, agg_bb):
        x1 = nobb(f[1]) if isinstance(f[1], tuple) else None
        if f[0] == "truthy" and f[2] is True and x1 and x1[0] == "call" and x1[1][1] == "is_empty" and x1[2] and \
                any(nd == item for nd in walk(x1[2][0])):
            empty = True
        if f[0] == "Eq" and x1 is not None and len(f) > 2 and isinstance(f[2], tuple):
            x2 = nobb(f[2])
            for (u, v) in ((x1, x2), (x2, x1)):
                if v == ("const", "0") and any(nd == item for nd in walk(u)) and \
                        (u[0] in ("len", "un") or (u[0] == "call" and u[1][1] == "len")):
                    empty = True
    if not empty:
        return False
    for e in effs:
        if e.cls == "append" and e.ctx is ctx and (e.top_bb == agg_bb or agg_bb in reach_strict(b, e.top_bb)):
            return False
    return True


def region_index_type(F, adt):
    for i in F.impls:
        if i.get("trait") == "Region" and i["self_ty"].get("adt") == adt:
            for it in i["items"]:
                if it["name"] == "Index" and "ty" in it:
                    return it["ty"]
    return None


def load_site(b, ctx, op, depth=0):
    """trace a copy operand back through single-assignment temporaries to the statement that
    loads from memory (a place with projections): returns (bb, si, place) or None"""
    if op["k"] not in ("copy", "move"):
        return None
    pl = op["place"]
    if pl["p"]:
        if any(e["k"] == "deref" for e in pl["p"]) or depth > 6:
            return None  # direct load from memory at the use site: caller supplies the location
        # a field of a local aggregate value (`let start = Offset(*bits); .. start.0`): the load
        # happened where that field's operand was read
        l0 = pl["l"]
        defs0 = [d for d in ctx.org.defs.get(l0, ()) if d[0] == () and not d[3]]
        if len(defs0) != 1 or defs0[0][1] != "stmt" or len(pl["p"]) != 1 or pl["p"][0]["k"] != "field":
            return None
        bi0, si0 = defs0[0][2]
        rv0 = ctx.org.stmt(bi0, si0)["rv"]
        if rv0["k"] == "use" and rv0["op"]["k"] in ("copy", "move") and \
                not any(e["k"] == "deref" for e in rv0["op"]["place"]["p"]):
            # the aggregate was moved from another local (`let span = helper(..); (span.start, ..)`)
            src = rv0["op"]["place"]
            return load_site(b, ctx, {"k": "copy", "place": {"l": src["l"], "p": list(src["p"]) + list(pl["p"])}}, depth + 1)
        k = pl["p"][0].get("i")
        if rv0["k"] == "aggregate" and isinstance(k, int) and k < len(rv0["ops"]):
            o2 = rv0["ops"][k]
            if o2["k"] in ("copy", "move") and o2["place"]["p"] and any(e["k"] == "deref" for e in o2["place"]["p"]):
                return (bi0, si0, o2["place"])
            return load_site(b, ctx, o2, depth + 1)
        return None
    l = pl["l"]
    defs = [d for d in ctx.org.defs.get(l, ()) if d[0] == () and not d[3]]
    if len(defs) != 1 or defs[0][1] != "stmt" or depth > 6:
        return None
    bi, si = defs[0][2]
    rv = ctx.org.stmt(bi, si)["rv"]
    if rv["k"] == "use" and rv["op"]["k"] in ("copy", "move"):
        if rv["op"]["place"]["p"]:
            if any(e["k"] == "deref" for e in rv["op"]["place"]["p"]):
                return (bi, si, rv["op"]["place"])
            return load_site(b, ctx, rv["op"], depth + 1) or (bi, si, rv["op"]["place"])
        return load_site(b, ctx, rv["op"], depth + 1)
    return None


def check_cursor_bracket(R, b, ctx=None, root=None):
    """returned pair = (scalar cursor read before any write to it, the same cursor read after the
    last write)"""
    ctx = ctx or Ctx(b)
    if root is None:
        aggs = [(r, p) for (r, p) in ctx.org.local(0) if r[0] == "agg"]
        if len(aggs) != 1:
            R.check("R-BRACKET", b.label(), False, construct="returns one (start, end) pair", where=b.where())
            return
        root = aggs[0][0]
    abb, asi = root[1], root[2]
    rv = ctx.org.stmt(abb, asi)["rv"]
    ops = rv["ops"]
    t0 = operand_tree(ctx, ops[0])
    t1 = operand_tree(ctx, ops[1])
    if t0 != t1 or t0[0] != "place":
        R.check("R-BRACKET", b.label(), False, construct="both components read the same cursor",
                where=b.where(), detail="%s / %s" % (show(t0), show(t1)))
        return
    cursor = t0
    s0 = load_site(b, ctx, ops[0]) or (abb, asi, None)
    s1 = load_site(b, ctx, ops[1]) or (abb, asi, None)
    # stores to the cursor
    stores = []
    for bi in sorted(b.live_blocks()):
        for si, st in enumerate(b.blocks[bi]["stmts"]):
            if st["k"] == "assign" and st["place"]["p"]:
                if place_tree(ctx, st["place"]) == cursor:
                    stores.append((bi, si, st["line"]))

    def precedes(a, c):
        (ba, ia), (bc, ic) = a, c
        if ba == bc:
            return ia < ic and ba not in reach_strict(b, ba)
        return bc in reach_strict(b, ba) and ba not in reach_strict(b, bc)
    # only stores that lie on a path to this aggregate matter (other match arms have their own pair)
    relevant = [(bi, si, ln) for (bi, si, ln) in stores if abb in reach_strict(b, bi) or bi == abb]
    ok0 = all(precedes((s0[0], s0[1]), (bi, si)) for (bi, si, _) in relevant)
    ok1 = all(precedes((bi, si), (s1[0], s1[1])) or (bi, si) == (s1[0], s1[1]) for (bi, si, _) in relevant)
    R.check("R-BRACKET", b.label(), ok0 and ok1 and bool(relevant),
            construct="index = (bit cursor before any write, bit cursor after the last write)",
            where=b.where(),
            detail="%d stores to the cursor (lines %s); start read first: %s; end read last: %s" % (
                len(relevant), [ln for (_, _, ln) in relevant], ok0, ok1))


# ---------------------------------------------------------------------------------------------
# reader/writer agreement: index() consumes exactly the components push produced


def tproj_(t, path):
    from expr import tproj
    return tproj(t, path)


def r_reader_writer(F, R, cat=None):
    cat = cat or Catalogue(F)
    n = 0
    for b in F.methods_of_trait("Region", "index"):
        if b.in_tests():
            continue
        adt = b.self_adt
        idx_ty = region_index_type(F, adt)
        if idx_ty not in ("(usize, usize)", "usize"):
            continue
        ctx = Ctx(b)
        R.saw(b)
        from expr import inlining
        with inlining():
            forms = [tree(ctx, o) for o in ctx.org.local(0)]
            if any(nd[0] == "call" and nd[1][0] in ("Option", "Result") and nd[1][1] in (
                    "map_or_else", "map_or", "map", "and_then", "unwrap_or_else", "ok", "as_ref") for t_ in forms for nd in walk(t_)):
                # the arms are closures handed to a combinator: read what they return
                from expr import expand, nobb as _nb, NONE as _NONE
                ex = set()
                for t_ in forms:
                    ex |= {x for x in expand(F, t_) if x != _NONE}
                if ex:
                    forms = sorted(ex, key=repr)
        p0 = ("place", b.key, ("arg", 2), ("f:0",))
        p1 = ("place", b.key, ("arg", 2), ("f:1",))
        pw = ("place", b.key, ("arg", 2), ())
        for t in forms:
            n += 1
            ok = False
            why = show(t)[:160]
            if idx_ty == "(usize, usize)":
                # find the node that carries both components
                pairs = []
                for node in walk(t):
                    if node[0] == "agg" and len(node[2]) >= 2:
                        ops = [x for x in node[2] if x in (p0, p1)]
                        if len(ops) == 2:
                            pairs.append(ops)
                    if node[0] in ("agg", "call") and len(node) > 2 and isinstance(node[2], tuple) and pw in node[2]:
                        pairs.append([p0, p1])  # the index handed on whole: both components, in order
                arith = [nd for nd in walk(t) if nd[0] == "bin" and (p0 in nd or p1 in nd)]
                ok = len(pairs) == 1 and pairs[0] == [p0, p1] and not arith
                # the storage that is read is the storage push measured
                rs = storage_read(t, b.key)
                ws = storage_written(F, cat, adt)
                if ok and rs is not None and ws and not (rs & ws):
                    ok = False
                    why += "; index reads %s but push brackets %s" % (sorted(rs), sorted(ws))
            else:
                # usize: either direct Index::index(self, k) or the (k, k+1) offsets lookup
                uses = [nd for nd in walk(t) if nd[0] == "call" and nd[1][1] == "index" and len(nd[2]) == 2]
                direct = [u for u in uses if u[2][1] == pw]
                succ = [u for u in uses if u[2][1] == ("bin", "Add", pw, ("const", "1"))]
                selfp = ("place", b.key, ("arg", 1), ())
                if adt == "impls::columns::ColumnsRegion":
                    ok = any(nd[0] == "call" and nd[1] == ("Region", "index") and nd[2][1] == pw
                             for nd in walk(t))
                elif direct and not succ and len(uses) == 1:
                    ok = direct[0][2][0] == selfp
                elif len(direct) == 1 and len(succ) == 1 and direct[0][2][0] == succ[0][2][0]:
                    # consumed as a pair, in order, by the inner region
                    pr = [nd for nd in walk(t) if nd[0] == "agg" and nd[1] == "tuple" and len(nd[2]) == 2]
                    ok = bool(pr) and pr[0][2] == (direct[0], succ[0])
                elif not uses:
                    # built-in element access `self[k]` / `self.as_slice()[k]`: the subscript of the
                    # bounds check is the parameter itself
                    base = t
                    while base[0] == "call" and base[1][1] in ("as_slice", "deref", "as_ref", "borrow") and base[2]:
                        base = tproj_(base[2][0], base[3])
                    subs = []
                    for bi_ in sorted(b.live_blocks()):
                        tt = b.term(bi_)
                        if tt["k"] == "assert" and tt.get("msg") == "bounds":
                            subs.append(operand_tree(ctx, tt["index"]))
                    if base == ("place", b.key, ("arg", 1), ("[]",)) and subs and all(x == pw for x in subs):
                        ok = True
                    elif any(nd[0] == "bin" and pw in nd for nd in walk(t)) or (subs and any(x != pw for x in subs)):
                        ok = False
                    else:
                        R.undecided_site("R-READER", b.label(), "element access not recognised: %s" % why)
                        continue
            R.check("R-READER", b.label(), ok,
                    construct="index() uses the components push returned, in order, unmodified",
                    where=b.where(), detail=why)
    R.floor("R-READER", "index() forms of bracket-indexed regions", n, 6)


NODE_KINDS = {"const", "place", "call", "bin", "un", "discr", "agg", "ovf", "opaque", "phi",
              "counter", "len"}


def walk(t):
    """all tree nodes (tuples whose head is a node kind), depth first"""
    if isinstance(t, tuple) and t:
        if isinstance(t[0], str) and t[0] in NODE_KINDS:
            yield t
        for x in t:
            if isinstance(x, tuple):
                yield from walk(x)


def storage_read(t, key):
    """first-level self fields whose contents the tree reads"""
    out = set()
    for p in places_in(t):
        if p[2] == ("arg", 1):
            out.add(tuple(p[3]))
    if () in out:
        return None  # hands out `self` (read item keeps a reference to the region)
    return {x[:1] for x in out}


def storage_written(F, cat, adt):
    out = set()
    for b in F.methods_of_trait("Push", "push"):
        if b.self_adt != adt:
            continue
        ctx, effs = cat.effects(b)
        for o in ctx.org.local(0):
            t = tree(ctx, o)
            if t[0] == "agg" and t[1] == "tuple":
                for c in t[2]:
                    if is_len_call(c):
                        out.add(tuple(c[2][0][3])[:1])
            elif t[0] == "call" and t[1] == ("fn", "push_symbols"):
                for a in t[2]:
                    if a[0] == "place" and a[2] == ("arg", 1):
                        out.add(tuple(a[3])[:1])
    return out


# ---------------------------------------------------------------------------------------------
# fan-out routing (Option / Result / Tuple)


def routes(t, call_tag):
    """set of (constructor path, child field, component path of the parameter) in a semantic
    alternative of the return value"""
    out = set()
    if t[0] == "agg" and t[1] == "tuple":
        for i, op in enumerate(t[2]):
            for r in routes(op, call_tag):
                out.add((("pos", i) + r[0], r[1], r[2]))
        return out
    if t[0] == "agg" and "::" in t[1] and not t[1].startswith("closure:"):
        for op in t[2]:
            for r in routes(op, call_tag):
                out.add(((t[1],) + r[0], r[1], r[2]))
        return out
    if t[0] == "call" and t[1] == call_tag and len(t[2]) == 2:
        recv, arg = t[2]
        if recv[0] == "place" and recv[2] == ("arg", 1) and arg[0] == "place" and arg[2] == ("arg", 2):
            out.add(((), tuple(recv[3]), tuple(arg[3])))
        return out
    return out


FANOUT = ("impls::option::OptionRegion", "impls::result::ResultRegion")


def r_fanout(F, R, cat=None):
    from expr import ret_alts, nobb, NONE
    n = 0
    adts = [a for a in F.adts if a in FANOUT or a.startswith("impls::tuple::Tuple")]
    for adt in sorted(adts):
        idx = [b for b in F.methods_of_trait("Region", "index") if b.self_adt == adt]
        if not idx:
            continue
        ib = idx[0]
        ictx = Ctx(ib)
        iroutes = set()
        for t in ret_alts(ictx):
            if t != NONE:
                iroutes |= routes(nobb(t), ("Region", "index"))
        fields = [f["name"] for f in F.adts[adt]["variants"][0]["fields"]]
        direct = forwards = 0
        for b in F.methods_of_trait("Push", "push"):
            if b.self_adt != adt:
                continue
            n += 1
            R.saw(b)
            ctx = Ctx(b)
            pr = set()
            unknown = []
            for t in ret_alts(ctx):
                if t == NONE:
                    continue
                r = routes(nobb(t), ("Push", "push"))
                if not r:
                    unknown.append(show(nobb(t))[:80])
                pr |= r
            if not pr or not iroutes:
                R.undecided_site("R-FANOUT", b.label(), "routing not recognised: %s" % unknown)
                continue
            if all(f == () for (c, f, p) in pr):
                # the receiver of the inner push is the region itself: a forward to a sibling Push
                # impl of the same region, which is checked as its own instance
                whole = all(c == () and p == () for (c, f, p) in pr) and not unknown
                if whole:
                    forwards += 1
                    R.check("R-FANOUT", b.label(), True, construct="forwards the whole item to a sibling Push impl",
                            where=b.where(), detail="value-preserving forward; routing checked at the sibling impl")
                else:
                    R.undecided_site("R-FANOUT", b.label(), "forwards part of the item to a sibling impl: %s" % sorted(pr)[:3])
                continue
            direct += 1
            # (1) constructor -> child agreement with index()
            m_push = {(c, f) for (c, f, p) in pr}
            m_idx = {(c, f) for (c, f, p) in iroutes}
            ok1 = m_push == m_idx
            # (2) component path i of the item goes to constructor position i / same variant
            ok2 = True
            for (c, f, p) in pr:
                if c and c[0] == "pos":
                    ok2 = ok2 and p == ("f:%d" % c[1],)
                elif c and c[0].startswith("Result::"):
                    ok2 = ok2 and p == ("v:" + c[0].split("::")[1], "f:0")
                elif c and c[0].startswith("Option::"):
                    ok2 = ok2 and p[-2:] == ("v:Some", "f:0")
            # (3) every child is used exactly once
            ok3 = sorted(f for (c, f) in m_push) == sorted(("f:" + x,) for x in fields)
            R.check("R-FANOUT", b.label(), ok1 and ok2 and ok3,
                    construct="component i -> child i -> index position i, and index() routes it back",
                    where=b.where(),
                    detail="push routes %s; index routes %s" % (sorted(pr)[:4], sorted(iroutes)[:4]))
        if forwards and not direct:
            R.check("R-FANOUT", short(adt), False, construct="some Push impl routes the components itself",
                    where=ib.where(), detail="%d impls only forward to each other" % forwards)
    R.floor("R-FANOUT", "fan-out push impls", n, 6)


# ---------------------------------------------------------------------------------------------
# ColumnsRegion routing


def range_from_inner_len(t):
    """the end bound X of a `len(self.inner)..X` range somewhere in t, else None"""
    for nd in walk(t):
        if nd and nd[0] == "agg" and nd[1] == "Range::Range" and len(nd[2]) == 2 and "inner" in show(nd[2][0]) and \
                any(x and x[0] == "call" and x[1][1] == "len" for x in walk(nd[2][0])):
            return nd[2][1]
        # `0..X.saturating_sub(self.inner.len())`: one step per missing column as well
        if nd and nd[0] == "agg" and nd[1] == "Range::Range" and len(nd[2]) == 2 and nd[2][0] == ("const", "0"):
            e = nd[2][1]
            pair = None
            if e[0] == "call" and e[1][1] in ("saturating_sub", "checked_sub", "wrapping_sub") and len(e[2]) == 2:
                pair = e[2]
            elif e[0] == "bin" and e[1] == "Sub":
                pair = (e[2], e[3])
            if pair and "inner" in show(pair[1]) and any(x and x[0] == "call" and x[1][1] == "len" for x in walk(pair[1])):
                return pair[0]
    return None


def column_bound_foreign(F, b, ctx, creates):
    """positive evidence only: the column-creation guard compares the column count with the length
    of something *reached through* the item (a field of it) that is not one of the forms the
    item's own len() returns.  Returns a description or None."""
    from expr import nobb
    from r_bound import norm_len, return_forms, find_methods
    item = ("place", b.key, ("arg", 2), ())
    # the item's own length forms
    own = set()
    ity = b.locals[2]["ty"] if len(b.locals) > 2 else {}
    adt = ity.get("adt")
    if adt:
        for lb in find_methods(F, adt, "len"):
            for fm in return_forms(Ctx(lb)):
                own.add(_rekey_root(fm, lb.key, b.key))
    for e in creates:
        for f in facts_at(e.ctx, e.bb):
            sides = []
            if f[0] == "variant":
                end = range_from_inner_len(f[1])
                if end is None:
                    continue
                sides.extend(end[1] if end[0] == "phi" else [end])
            elif f[0] not in ("Lt", "Le", "Gt", "Ge"):
                continue
            else:
                for side in (f[1], f[2]):
                    sides.extend(side[1] if side[0] == "phi" else [side])
            for side in sides:
                for nd in walk(nobb(side)):
                    if nd and nd[0] == "call" and nd[1][1] == "capacity" and nd[2] and nd[2][0][0] == "place" and \
                            nd[2][0][1] == b.key and nd[2][0][2] == ("arg", 2):
                        return "column count compared with the item's capacity (%s), which is not the row's length" % show(nd)[:60]
                t = nobb(norm_len(side))
                if t[0] != "len" or t[1][0] != "place" or t[1][1] != b.key or t[1][2] != ("arg", 2):
                    continue
                if not t[1][3]:
                    continue  # len of the item itself
                if t in own:
                    continue
                return "column count compared with %s, which is not the row's own length (%s)" % (
                    show(side)[:70], [show(o)[:40] for o in sorted(own, key=repr)][:3] or "item.len()")
    return None


def _rekey_root(t, frm_key, to_key):
    """a tree over (frm body, arg 1, path) expressed over (to body, arg 2, path): the receiver of
    the item's len() is the pushed item"""
    if not isinstance(t, tuple):
        return t
    if t and t[0] == "place" and t[1] == frm_key and t[2] == ("arg", 1):
        return ("place", to_key, ("arg", 2)) + tuple(t[3:])
    return tuple(_rekey_root(x, frm_key, to_key) for x in t)


def r_columns(F, R, cat=None):
    cat = cat or Catalogue(F)
    COL = "impls::columns::ColumnsRegion"
    n = 0
    for b in F.methods_of_trait("Push", "push"):
        if b.self_adt != COL:
            continue
        n += 1
        R.saw(b)
        ctx, effs = cat.effects(b)
        if any(e.tag == ("Push", "push") and (None, ()) in self_field_targets(e, ctx) and e.ctx is ctx for e in effs) and \
                not any(e.cls == "append" and any(f in ("inner", "indices") for (f, _r) in self_field_targets(e, ctx)) for e in effs):
            continue  # hands the row to another push form of the same region: R-FORWARD judges the hand-over
        # per-cell push: target self.inner[*], value an element of the item
        cell = [e for e in effs if e.tag == ("Push", "push") and ("inner", ("[]",)) in self_field_targets(e, ctx)]
        # (one push, or one per arm of a lookup of the column -- `match columns.get_mut(i) { Some(c) => c.push(v),
        #  None => { create; columns[i].push(v) } }` -- never two on one path)
        if not cell:
            unresolved = [e for e in effs if e.tag == ("Push", "push") and not self_field_targets(e, ctx)]
            if unresolved:
                # the column handed the cell comes out of a helper's Result / Option (`column_mut(i).unwrap().push(v)`):
                # which column that is, is not something this rule reads
                R.undecided_site("R-COLUMNS", b.label(), "the per-cell push at %s has a receiver the rule cannot trace to a column: "
                                 "the pairing of cells and columns is not decided" % unresolved[0].where())
                continue
        ok_cell = len(cell) >= 1 and not any(x is not y and x.ctx is y.ctx and (x.bb == y.bb or y.bb in reach_strict(x.ctx.body, x.bb))
                                            for x in cell for y in cell)
        aligned = False
        src_desc = ""
        if ok_cell:
            aligned = True
            for e in cell:
                vals = set()
                for o in e.argorigins[1]:
                    vals |= base_places(e.ctx, o)
                src_desc = sorted(describe(c, o) for (c, o) in vals)
                from_item = all(c is ctx and r == ("arg", 2) and "[]" in p for (c, (r, p)) in vals) and bool(vals)
                # both the column and the value come out of one zip / enumerate over the item
                recv_raw = e.ctx.org.operand(e.term["args"][0])
                val_raw = e.ctx.org.operand(e.term["args"][1])
                aligned = aligned and from_item and (same_pairing(e.ctx, recv_raw, val_raw) or counter_pairing(e.ctx, e.term, val_raw))
        # the row of cell indices is handed, as one item, to self.indices and its result returned
        rowpush = [e for e in effs if e.tag == ("Push", "push") and ("indices", ()) in self_field_targets(e, ctx)
                   and e.ctx is ctx]
        ok_row = len(rowpush) == 1
        ret_ok = False
        if ok_row:
            rets = [tree(ctx, o) for o in ctx.org.local(0)]
            ret_ok = len(rets) == 1 and rets[0][0] == "call" and rets[0][4] == rowpush[0].bb
        # missing columns are created before the cells are pushed
        creates = [e for e in effs if e.tag == ("Vec", "push") and ("inner", ()) in self_field_targets(e, ctx)]
        guard_ok = False
        for e in creates:
            for f in facts_at(e.ctx, e.bb):
                if f[0] in ("Lt", "Le", "Gt", "Ge", "Eq") and ("inner" in show(f[1]) or "inner" in show(f[2])):
                    guard_ok = True
                # `for _ in self.inner.len()..n { create }`: one column per missing position
                if f[0] == "variant" and range_from_inner_len(f[1]) is not None:
                    guard_ok = True
                # the lookup of the column came back empty: `columns.get_mut(i)` is None
                if f[0] == "variant" and isinstance(f[1], tuple) and f[1][0] == "call" and f[1][1][1] in ("get_mut", "get") and \
                        "inner" in show(f[1]) and (f[2] == "0" or (isinstance(f[2], tuple) and f[2][0] == "not" and "1" in f[2][1])):
                    guard_ok = True
            # `(self.inner.len()..n).for_each(|_| create)`: the same loop as an iterator pipeline
            if e.ctx is not ctx and e.ctx.parent is not None and e.ctx.consumer and \
                    e.ctx.consumer[1][1] in ("for_each", "fold", "try_for_each", "map", "extend"):
                pt_ = e.ctx.parent.body.term(e.ctx.consumer[0])
                if pt_["k"] == "call" and pt_["args"] and range_from_inner_len(operand_tree(e.ctx.parent, pt_["args"][0])) is not None:
                    guard_ok = True
        # ... and exactly as many as the row is long: the bound the column count is compared with is
        # the item's own length, not the width of wherever the item came from
        # every form creates a missing column the same way: empty, by Default (a column built from
        # the source's column -- merge_regions(once(col)) -- is sized like it, and for regions
        # that learn from their sources it also carries their state: the same row then stores
        # differently depending on the form it was pushed in)
        for e in creates:
            v = trees(e.ctx, e.argorigins[1]) if len(e.argorigins) > 1 else ("opaque", "?")
            alts = v[1] if v[0] == "phi" else (v,)
            odd = [a for a in alts if not (a[0] == "call" and a[1][1] == "default")]
            if odd:
                R.check("R-COLUMNS", b.label(), False, construct="missing columns are created empty, like in the sibling forms",
                        where=e.where(), detail="this form creates a column as %s; the other push forms use Default::default()" % show(odd[0])[:80])
        # one column per missing position: the creation repeats (a loop, or the per-cell closure /
        # loop of the lazy form); a single conditional creation adds at most one column and the
        # zip over the columns silently drops the rest of a wider row
        from expr import in_loop
        for e in creates:
            repeated = in_loop(e.ctx.body, e.bb) or e.ctx is not ctx
            if not repeated:
                R.check("R-COLUMNS", b.label(), False, construct="a column is created for every missing position",
                        where=e.where(), detail="the creation of a missing column is not repeated (no loop around it, not per cell): "
                        "a row two or more cells wider than the region loses its tail")
        width_bad = column_bound_foreign(F, b, ctx, creates)
        if width_bad:
            R.check("R-COLUMNS", b.label(), False, construct="columns are created up to the row's own length",
                    where=b.where(), detail=width_bad)
        R.check("R-COLUMNS", b.label(), ok_cell and aligned and ok_row and ret_ok and bool(creates) and guard_ok,
                construct="cell i -> column i; row of cell indices -> indices; dense index returned unchanged",
                where=b.where(),
                detail="cell pushes %d (value from %s, paired: %s); row pushes %d; returned unchanged: %s; column creation guarded: %s" % (
                    len(cell), src_desc, aligned, len(rowpush), ret_ok, guard_ok))
    R.floor("R-COLUMNS", "ColumnsRegion push impls", n, 7)
    # read side: get(offset) pairs columns[offset] with index[offset]; iteration zips them in order
    for b in [x for x in F.bodies.values() if x.self_adt == "impls::columns::ReadColumnsInner" and x.name == "get"]:
        R.saw(b)
        ctx = Ctx(b)
        from expr import ret_alts, NONE
        rets = [t for t in ret_alts(ctx) if t != NONE and not (
            t[0] == "call" and t[1] == ("FromResidual", "from_residual"))]
        ok = len(rets) == 1 and rets[0][0] == "call" and rets[0][1] == ("Region", "index")
        if ok:
            from expr import nobb
            col, idx = (nobb(x) for x in rets[0][2])
            param = ("place", b.key, ("arg", 2), ())

            def elem_form(t, fld):
                """'builtin' for self.fld[..], 'get' for self.fld.get(param) on its Some edge"""
                if t == ("place", b.key, ("arg", 1), ("f:" + fld, "[]")):
                    return "builtin"
                if t[0] == "call" and t[1][1] == "get" and t[1][0] in ("slice", "Vec", "array") and len(t[2]) == 2 and \
                        t[2][0] == ("place", b.key, ("arg", 1), ("f:" + fld,)) and t[2][1] == param and \
                        tuple(t[3]) == ("v:Some", "f:0"):
                    return "get"
                return None
            forms = [elem_form(col, "columns"), elem_form(idx, "index")]
            ok = all(forms)
            # the subscripts of the built-in forms are the parameter
            subs = []
            for bi in sorted(b.live_blocks()):
                t = b.term(bi)
                if t["k"] == "assert" and t.get("msg") == "bounds":
                    subs.append(operand_tree(ctx, t["index"]))
            ok = ok and len(subs) == forms.count("builtin") and all(s == param for s in subs)
        R.check("R-COLUMNS", b.label(), ok, construct="get(i) = columns[i].index(index[i])",
                where=b.where(), detail="returns %s" % [show(t) for t in rets])


def counter_pairing(ctx, term, val_origins):
    """closure form `|value| { let i = counter; counter += 1; self.inner[i].push(value) }` (or the
    increment after the use): the k-th element goes to column k when the subscript is a captured
    counter that starts at 0 in the enclosing body and is incremented by exactly one, on every
    returning path of the closure, after it was read for the subscript."""
    from expr import before
    body = ctx.body
    if ctx.parent is None or body.kind != "Closure":
        return False
    if not any(r == ("arg", 2) and not p for (r, p) in val_origins):
        return False
    # the subscript operand of the IndexMut / get_mut call that produced the receiver
    def subscript(op, depth=0):
        if op["k"] not in ("copy", "move") or depth > 6:
            return None
        for (r, p) in ctx.org.operand(op):
            if r[0] == "call":
                t = body.term(r[1])
                tg = callee_tag(t.get("callee"))
                if tg[1] in ("unwrap", "expect") and t["args"]:
                    return subscript(t["args"][0], depth + 1)
                if (tg == ("IndexMut", "index_mut") or (tg[1] == "get_mut" and tg[0] in ("slice", "Vec", "array"))) \
                        and len(t["args"]) == 2:
                    return t["args"][1]
        return None
    sub = subscript(term["args"][0])
    if sub is None or sub["k"] == "const":
        return False
    ls = load_site(body, ctx, sub)
    if ls is None:
        if sub["place"]["p"]:
            return False
        return False
    (lbi, lsi, lplace) = ls

    def upvar_of(pl, depth=0):
        """index k when the place is the captured upvar k (directly, or through a temporary that
        holds the captured `&mut`)"""
        ups = [e for e in pl["p"] if e["k"] == "field" and "closure" in e]
        if pl["l"] == 1 and len(ups) == 1:
            return ups[0]["i"]
        if depth > 4 or any(e["k"] != "deref" for e in pl["p"]):
            return None
        defs = [d_ for d_ in ctx.org.defs.get(pl["l"], ()) if d_[0] == () and not d_[3]]
        if len(defs) != 1 or defs[0][1] != "stmt":
            return None
        rv = ctx.org.stmt(*defs[0][2])["rv"]
        if rv["k"] == "use" and rv["op"]["k"] in ("copy", "move"):
            return upvar_of(rv["op"]["place"], depth + 1)
        if rv["k"] == "ref":
            return upvar_of(rv["place"], depth + 1)
        return None
    k = upvar_of(lplace)
    if k is None:
        return False
    stores = []
    for bi in sorted(body.live_blocks()):
        for si, st in enumerate(body.blocks[bi]["stmts"]):
            if st["k"] == "assign" and st["place"]["p"] and upvar_of(st["place"]) == k:
                stores.append((bi, si, st))
    if len(stores) != 1:
        return False
    (sbi, ssi, sst) = stores[0]

    def single_def_rv(l):
        defs = [d_ for d_ in ctx.org.defs.get(l, ()) if d_[0] == () and not d_[3]]
        if len(defs) != 1 or defs[0][1] != "stmt":
            return None
        return ctx.org.stmt(*defs[0][2])["rv"]

    def is_counter_plus_one(rv, depth=0):
        """the stored value is (the captured counter) + 1, read on the MIR itself: the counter's
        flow-insensitive provenance is just its initial constant"""
        if rv is None or depth > 5:
            return False
        if rv["k"] == "use" and rv["op"]["k"] in ("copy", "move"):
            pl = rv["op"]["place"]
            if pl["p"] and all(e["k"] == "field" for e in pl["p"]) and pl["p"][0].get("i") == 0 and len(pl["p"]) == 1:
                return is_counter_plus_one(single_def_rv(pl["l"]), depth + 1)   # (sum, overflow).0
            if not pl["p"]:
                return is_counter_plus_one(single_def_rv(pl["l"]), depth + 1)
            return False
        if rv["k"] == "binop" and rv["op"] in ("Add", "AddWithOverflow", "AddUnchecked"):
            for (x, y) in ((rv["a"], rv["b"]), (rv["b"], rv["a"])):
                if y["k"] == "const" and y.get("int") == "1" and x["k"] in ("copy", "move"):
                    xp = x["place"]
                    if xp["p"]:
                        return upvar_of(xp) == k
                    xr = single_def_rv(xp["l"])
                    if xr is not None and xr["k"] == "use" and xr["op"]["k"] in ("copy", "move"):
                        return upvar_of(xr["op"]["place"]) == k
        return False
    if not is_counter_plus_one(sst["rv"]):
        return False
    if not before(body, (lbi, lsi), (sbi, ssi)):
        return False
    if body.can_return_avoiding({sbi}):
        return False
    # starts at zero in the enclosing body
    for (pc, (r, p)) in ctx.upvars.get(k, ()):
        t0 = tree(pc, (r, p))
        if t0 != ("const", "0"):
            return False
    return bool(ctx.upvars.get(k))


def same_pairing(ctx, recv_origins, val_origins):
    """receiver and value are the two halves of one zip element, or receiver is indexed by the
    enumerate counter whose element is the value"""
    def zip_half(os_):
        out = set()
        for (r, p) in os_:
            # closure parameter component: (arg 2, f:0 / f:1)
            if r == ("arg", 2) and p and p[0] in ("f:0", "f:1"):
                out.add(p[0])
        return out
    hv = zip_half(val_origins)
    hr = zip_half(recv_origins)
    if hv == {"f:0"} and hr == {"f:1"}:
        return True
    # enumerate form: value = param.1 ; receiver = index_mut(self.inner, param.0)
    if hv == {"f:1"}:
        todo = list(recv_origins)
        seen = set()
        while todo:
            (r, p) = todo.pop()
            if (r, p) in seen:
                continue
            seen.add((r, p))
            if r[0] == "call":
                t = ctx.body.term(r[1])
                tg = callee_tag(t.get("callee"))
                if tg[1] in ("unwrap", "expect") and t["args"] and t["args"][0]["k"] != "const":
                    todo.extend(ctx.org.operand(t["args"][0]))  # the Some payload of a checked get_mut
                    continue
                if (tg == ("IndexMut", "index_mut") or (tg[1] == "get_mut" and tg[0] in ("slice", "Vec", "array"))) \
                        and len(t["args"]) == 2:
                    for (r2, p2) in ctx.org.operand(t["args"][1]):
                        if r2 == ("arg", 2) and p2[:1] == ("f:0",):
                            return True
    return False
